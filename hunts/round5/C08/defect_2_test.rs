// Defect 2: an address that holds a space (written between angle brackets, as Markdown demands:
// [Spec](<https://example.com/docs/API spec.pdf>), [Mail](<mailto:me@example.com?subject=Hello there>),
// <obsidian://open?vault=My Vault&file=x>) is taken for the name of a note since caedd42 ("what
// holds white space is no address"). Rename rewrites every note it touches, so such a link - which
// has nothing to do with the renamed note - is changed:
//   * alone in a paragraph of a note that merely links to the renamed note it is rebuilt as a
//     normalised relative path: https://example.com/.. -> https:/example.com/..
//   * alone in a paragraph of the renamed note it is re-relativised when the note moves to another
//     directory: ../notes/https:/example.com/.. and ../notes/mailto:me@example.com?subject=..
// "every other link and every unrelated note is untouched" does not hold.

use std::collections::HashMap;

use iwes::router::server::Server;
use iwes::router::{LspClient, ServerConfig};
use liwe::graph::Reader;
use liwe::markdown::MarkdownReader;
use liwe::model::config::Configuration;
use liwe::model::document::{DocumentBlock, DocumentInline};
use lsp_types::*;

type Library = HashMap<String, String>;

const BASE: &str = "/basepath";

fn uri(key: &str) -> Url {
    Url::from_file_path(format!("{}/{}.md", BASE, key)).unwrap()
}

fn key_of(url: &Url) -> String {
    url.to_file_path()
        .unwrap()
        .to_string_lossy()
        .trim_start_matches(&format!("{}/", BASE))
        .trim_end_matches(".md")
        .to_string()
}

fn apply(library: &Library, edit: &WorkspaceEdit) -> Library {
    let mut result = library.clone();
    if let Some(DocumentChanges::Operations(operations)) = &edit.document_changes {
        for operation in operations {
            match operation {
                DocumentChangeOperation::Op(ResourceOp::Delete(delete)) => {
                    result.remove(&key_of(&delete.uri));
                }
                DocumentChangeOperation::Op(ResourceOp::Create(create)) => {
                    result.insert(key_of(&create.uri), String::new());
                }
                DocumentChangeOperation::Op(ResourceOp::Rename(_)) => unreachable!(),
                DocumentChangeOperation::Edit(edit) => {
                    for text_edit in &edit.edits {
                        if let OneOf::Left(text_edit) = text_edit {
                            result.insert(
                                key_of(&edit.text_document.uri),
                                text_edit.new_text.clone(),
                            );
                        }
                    }
                }
            }
        }
    }
    result
}

// destinations of the links in the paragraphs of a note, as the Markdown parser reports them
fn destinations(text: &str) -> Vec<String> {
    fn walk(inline: &DocumentInline, found: &mut Vec<String>) {
        if let Some(url) = inline.url() {
            found.push(url);
        }
        inline
            .child_inlines()
            .into_iter()
            .for_each(|child| walk(child, found));
    }
    let mut found = vec![];
    for block in MarkdownReader::new().document(text).blocks {
        if let DocumentBlock::Para(_) | DocumentBlock::Plain(_) = block {
            block
                .child_inlines()
                .iter()
                .for_each(|inline| walk(inline, &mut found));
        }
    }
    found
}

fn rename(library: &Library, from: &str, line: u32, new_name: &str) -> Library {
    let server = Server::new(ServerConfig {
        base_path: BASE.to_string(),
        state: library.clone(),
        sequential_ids: Some(true),
        configuration: Configuration::default(),
        lsp_client: LspClient::Unknown,
    });
    let edit = server
        .handle_rename(RenameParams {
            text_document_position: TextDocumentPositionParams {
                text_document: TextDocumentIdentifier { uri: uri(from) },
                position: Position::new(line, 3),
            },
            new_name: new_name.to_string(),
            work_done_progress_params: Default::default(),
        })
        .expect("not refused")
        .expect("an edit");
    apply(library, &edit)
}

const SPEC: &str = "https://example.com/docs/API spec.pdf";
const MAIL: &str = "mailto:me@example.com?subject=Hello there";

fn library() -> Library {
    vec![
        (
            "notes/index",
            format!("# Index\n\n[Draft](draft)\n\n[Spec](<{}>)\n", SPEC),
        ),
        (
            "notes/draft",
            format!("# Draft\n\n[Spec](<{}>)\n\n[Mail](<{}>)\n", SPEC, MAIL),
        ),
    ]
    .into_iter()
    .map(|(key, text)| (key.to_string(), text))
    .collect()
}

// control: the same addresses without a space survive both renames
#[test]
fn addresses_without_a_space_are_untouched() {
    let library: Library = library()
        .into_iter()
        .map(|(key, text)| (key, text.replace("API spec", "API-spec").replace("Hello there", "Hello")))
        .collect();
    let renamed = rename(&library, "notes/index", 2, "../archive/draft");
    assert_eq!(
        vec!["../archive/draft", "https://example.com/docs/API-spec.pdf"],
        destinations(&renamed["notes/index"])
    );
    assert_eq!(
        vec![
            "https://example.com/docs/API-spec.pdf",
            "mailto:me@example.com?subject=Hello"
        ],
        destinations(&renamed["archive/draft"])
    );
}

#[test]
fn an_address_with_a_space_in_a_referring_note_is_untouched() {
    let library = library();
    assert_eq!(vec!["draft", SPEC], destinations(&library["notes/index"]));

    let renamed = rename(&library, "notes/index", 2, "final");

    assert_eq!(
        vec!["final", SPEC],
        destinations(&renamed["notes/index"]),
        "the index after the rename:\n{}",
        renamed["notes/index"]
    );
}

#[test]
fn an_address_with_a_space_in_the_renamed_note_is_untouched_when_it_moves() {
    let library = library();
    assert_eq!(vec![SPEC, MAIL], destinations(&library["notes/draft"]));

    let renamed = rename(&library, "notes/index", 2, "../archive/draft");

    assert_eq!(
        vec![SPEC, MAIL],
        destinations(&renamed["archive/draft"]),
        "the moved note:\n{}",
        renamed["archive/draft"]
    );
}
