// Defect 1: rename accepts a new name that the (recently narrowed) reference predicate reads as an
// address with a scheme - a name with a colon and no white space, e.g. "standup-10:30",
// "std::vector", "project:alpha". The note is moved, every link to it from its own directory is
// rewritten to [..](standup-10:30) / [[standup-10:30]], and none of them is a reference any more:
// no backlink, no go-to-definition, no further rename. (caedd42 repaired this side effect of
// 67426b7 only for names that hold white space, "Re: budget".)

use std::collections::HashMap;

use iwes::router::server::Server;
use iwes::router::{LspClient, ServerConfig};
use liwe::graph::{Graph, GraphContext};
use liwe::model::config::{Configuration, MarkdownOptions};
use liwe::model::Key;
use lsp_types::*;

type Library = HashMap<String, String>;

const BASE: &str = "/basepath";

fn uri(key: &str) -> Url {
    Url::from_file_path(format!("{}/{}.md", BASE, key)).unwrap()
}

fn key_of(url: &Url) -> String {
    url.to_file_path()
        .unwrap()
        .to_string_lossy()
        .trim_start_matches(&format!("{}/", BASE))
        .trim_end_matches(".md")
        .to_string()
}

fn server(library: &Library) -> Server {
    Server::new(ServerConfig {
        base_path: BASE.to_string(),
        state: library.clone(),
        sequential_ids: Some(true),
        configuration: Configuration::default(),
        lsp_client: LspClient::Unknown,
    })
}

fn apply(library: &Library, edit: &WorkspaceEdit) -> Library {
    let mut result = library.clone();
    if let Some(DocumentChanges::Operations(operations)) = &edit.document_changes {
        for operation in operations {
            match operation {
                DocumentChangeOperation::Op(ResourceOp::Delete(delete)) => {
                    result.remove(&key_of(&delete.uri));
                }
                DocumentChangeOperation::Op(ResourceOp::Create(create)) => {
                    result.insert(key_of(&create.uri), String::new());
                }
                DocumentChangeOperation::Op(ResourceOp::Rename(_)) => unreachable!(),
                DocumentChangeOperation::Edit(edit) => {
                    for text_edit in &edit.edits {
                        if let OneOf::Left(text_edit) = text_edit {
                            // the server replaces the whole text of a file
                            result.insert(
                                key_of(&edit.text_document.uri),
                                text_edit.new_text.clone(),
                            );
                        }
                    }
                }
            }
        }
    }
    result
}

fn definition(library: &Library, key: &str, line: u32, character: u32) -> Option<Url> {
    match server(library).handle_goto_definition(GotoDefinitionParams {
        text_document_position_params: TextDocumentPositionParams {
            text_document: TextDocumentIdentifier { uri: uri(key) },
            position: Position::new(line, character),
        },
        work_done_progress_params: Default::default(),
        partial_result_params: Default::default(),
    }) {
        GotoDefinitionResponse::Scalar(location) => Some(location.uri),
        _ => None,
    }
}

fn referrers(library: &Library, key: &str) -> Vec<String> {
    let graph = Graph::import(library, MarkdownOptions::default());
    let mut keys: Vec<String> = graph
        .get_block_references_to(&Key::from_file_name(key))
        .into_iter()
        .map(|id| (&graph).key_of(id).to_string())
        .collect();
    keys.sort();
    keys
}

fn check(new_name: &str) {
    let library: Library = vec![
        (
            "journal/index",
            "# Journal\n\n[Stand-up](standup)\n\n[[standup]]\n\n[[standup|the meeting]]\n",
        ),
        ("journal/standup", "# Stand-up\n\nwho does what\n"),
    ]
    .into_iter()
    .map(|(key, text)| (key.to_string(), text.to_string()))
    .collect();

    // before: three links of the index resolve to the note
    assert_eq!(
        vec!["journal/index", "journal/index", "journal/index"],
        referrers(&library, "journal/standup")
    );
    assert_eq!(
        Some(uri("journal/standup")),
        definition(&library, "journal/index", 2, 3)
    );

    let result = server(&library).handle_rename(RenameParams {
        text_document_position: TextDocumentPositionParams {
            text_document: TextDocumentIdentifier {
                uri: uri("journal/index"),
            },
            position: Position::new(2, 3),
        },
        new_name: new_name.to_string(),
        work_done_progress_params: Default::default(),
    });

    // a refusal (or no edit) leaves the library as it is: nothing to check
    let edit = match result {
        Ok(Some(edit)) => edit,
        _ => return,
    };

    let renamed = apply(&library, &edit);
    let new_key = format!("journal/{}", new_name);

    assert!(renamed.contains_key(&new_key), "the note exists under the new name");
    assert!(!renamed.contains_key("journal/standup"), "... and not under the old one");

    // every link that resolved to the old name resolves to the new name
    assert_eq!(
        vec!["journal/index", "journal/index", "journal/index"],
        referrers(&renamed, &new_key),
        "links to the renamed note after rename to {:?}; the index now reads:\n{}",
        new_name,
        renamed["journal/index"]
    );
    assert_eq!(
        Some(uri(&new_key)),
        definition(&renamed, "journal/index", 2, 3),
        "go-to-definition on the rewritten link after rename to {:?}; the index now reads:\n{}",
        new_name,
        renamed["journal/index"]
    );
}

// control: the same rename with an ordinary name (and with the name caedd42 repaired) holds
#[test]
fn rename_to_an_ordinary_name_keeps_the_links() {
    check("daily-standup");
    check("Re: standup");
}

#[test]
fn rename_to_a_name_with_a_colon_keeps_the_links() {
    check("standup-10:30");
}

#[test]
fn rename_to_a_namespaced_name_keeps_the_links() {
    check("std::standup");
}
