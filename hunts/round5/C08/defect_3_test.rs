// Defect 3: "Renaming onto an existing note is refused without edits" only looks at the notes the
// loader could read. A Markdown file that exists in the library but was skipped by the loader (its
// bytes are not valid UTF-8: a legacy Latin-1 note) does not count as taken: rename answers with an
// edit that deletes the renamed note and then creates the new file with overwrite=false over the
// file that is there. A client that follows the protocol fails at the create after the delete has
// been applied (the note is gone); a lenient client (Neovim) truncates the other note instead.

use std::fs;
use std::path::PathBuf;

use iwes::router::server::Server;
use iwes::router::{LspClient, ServerConfig};
use liwe::fs::new_for_path;
use liwe::model::config::Configuration;
use lsp_types::*;

fn library(name: &str) -> PathBuf {
    let dir = std::env::temp_dir().join(format!("iwe-hunt5-c08-{}-{}", name, std::process::id()));
    let _ = fs::remove_dir_all(&dir);
    fs::create_dir_all(&dir).unwrap();
    dir
}

// what a client that follows the protocol does with the edit, on the real directory
fn apply_on_disk(edit: &WorkspaceEdit) -> Result<(), String> {
    let ops = match &edit.document_changes {
        Some(DocumentChanges::Operations(ops)) => ops.clone(),
        _ => vec![],
    };
    for op in ops {
        match op {
            DocumentChangeOperation::Op(ResourceOp::Delete(delete)) => {
                fs::remove_file(delete.uri.to_file_path().unwrap()).map_err(|e| e.to_string())?;
            }
            DocumentChangeOperation::Op(ResourceOp::Create(create)) => {
                let path = create.uri.to_file_path().unwrap();
                let overwrite = create.options.as_ref().and_then(|o| o.overwrite) == Some(true);
                let ignore = create.options.as_ref().and_then(|o| o.ignore_if_exists) == Some(true);
                if path.exists() {
                    if overwrite {
                        fs::write(&path, "").map_err(|e| e.to_string())?;
                    } else if !ignore {
                        return Err(format!("{} already exists", path.display()));
                    }
                } else {
                    fs::create_dir_all(path.parent().unwrap()).map_err(|e| e.to_string())?;
                    fs::write(&path, "").map_err(|e| e.to_string())?;
                }
            }
            DocumentChangeOperation::Op(ResourceOp::Rename(_)) => unreachable!(),
            DocumentChangeOperation::Edit(text_edit) => {
                let path = text_edit.text_document.uri.to_file_path().unwrap();
                for edit in text_edit.edits {
                    if let OneOf::Left(edit) = edit {
                        // the server only ever replaces the whole text
                        fs::write(&path, edit.new_text).map_err(|e| e.to_string())?;
                    }
                }
            }
        }
    }
    Ok(())
}

#[test]
fn rename_onto_a_note_the_loader_skipped_is_refused() {
    let dir = library("latin1");
    fs::write(dir.join("index.md"), "# Index\n\n[Draft](draft)\n").unwrap();
    fs::write(dir.join("draft.md"), "# Draft\n\nthe text of the draft\n").unwrap();
    // a note written long ago in Latin-1: "# Café" - not valid UTF-8, the loader skips it
    fs::write(dir.join("cafe.md"), b"# Caf\xe9\n\nold but precious\n".to_vec()).unwrap();

    let base_path = dir.to_string_lossy().to_string();
    let server = Server::new(ServerConfig {
        base_path: base_path.clone(),
        state: new_for_path(&dir),
        sequential_ids: Some(true),
        configuration: Configuration::default(),
        lsp_client: LspClient::Unknown,
    });

    let result = server.handle_rename(RenameParams {
        text_document_position: TextDocumentPositionParams {
            text_document: TextDocumentIdentifier {
                uri: Url::from_file_path(dir.join("index.md")).unwrap(),
            },
            position: Position::new(2, 3),
        },
        new_name: "cafe".to_string(),
        work_done_progress_params: Default::default(),
    });

    let precious_before = fs::read(dir.join("cafe.md")).unwrap();

    // either the rename is refused (the name is taken by a file of the library) ...
    if let Ok(Some(edit)) = &result {
        // ... or applying its edit must leave the draft somewhere and the other note alone
        let applied = apply_on_disk(edit);
        let draft_somewhere = ["draft.md", "cafe.md"].iter().any(|name| {
            fs::read_to_string(dir.join(name))
                .map(|text| text.contains("the text of the draft"))
                .unwrap_or(false)
        });
        let precious_after = fs::read(dir.join("cafe.md")).unwrap_or_default();
        let _ = fs::remove_dir_all(&dir);
        assert!(
            applied.is_ok() && draft_somewhere,
            "rename onto cafe.md (a file of the library) was not refused; applying the edit: {:?}; the draft's text is still in the library: {}",
            applied,
            draft_somewhere
        );
        assert_eq!(
            precious_before, precious_after,
            "the note that was at the new name has been overwritten"
        );
    }
    let _ = fs::remove_dir_all(&dir);
}
