// C06 hunt 5, defect 2 (side effect of caedd42 "a note called 'Re: budget' is not an address"):
// has_scheme() now answers "no scheme" for every destination that holds white space, so an
// external address written between angle brackets because it holds a space
// ([scan](<file:///home/me/My Documents/scan.pdf>), <obsidian://open?vault=My Vault...>,
// <https://example.com/My Files/scan one>) counts as the name of a note again:
//  - alone in a paragraph it becomes a block reference; its address goes through the path
//    normalisation of note keys and comes back as "file:/home/me/..." / "https:/example.com/..."
//  - with refs_extension = ".md" it gets the extension: "https://example.com/My Files/scan one.md"
//
// Property: "... external URLs and images keep their text and kind. No link ever changes its
// destination (beyond adding/removing the configured `.md` extension)" - the extension is for notes.
//
// Run: copy into crates/liwe/tests/ and `cargo test --offline -p liwe --test defect_2_test`.

use liwe::graph::Graph;
use liwe::model::config::MarkdownOptions;
use liwe::model::State;
use pulldown_cmark::{Event, Options, Parser, Tag};

fn format(files: &[(&str, &str)], refs_extension: &str) -> State {
    let state: State = files
        .iter()
        .map(|(key, text)| (key.to_string(), text.to_string()))
        .collect();
    Graph::import(
        &state,
        MarkdownOptions {
            refs_extension: refs_extension.to_string(),
        },
    )
    .export()
}

fn destinations(text: &str) -> Vec<String> {
    let options = Options::ENABLE_YAML_STYLE_METADATA_BLOCKS
        | Options::ENABLE_WIKILINKS
        | Options::ENABLE_TABLES;
    Parser::new_ext(text, options)
        .filter_map(|event| match event {
            Event::Start(Tag::Link { dest_url, .. }) => Some(dest_url.to_string()),
            _ => None,
        })
        .collect()
}

// an external address alone in a paragraph
#[test]
fn external_address_with_a_space_alone_in_a_paragraph_keeps_its_destination() {
    let note = "# Tax\n\n[scan](<file:///home/me/My Documents/scan.pdf>)\n\n[open in vault](<obsidian://open?vault=My Vault&file=Tax>)\n";
    for refs_extension in ["", ".md"] {
        let formatted = format(&[("tax", note)], refs_extension);
        assert_eq!(
            destinations(note),
            destinations(&formatted["tax"]),
            "refs_extension {:?}: destinations changed\n--- formatted:\n{}",
            refs_extension,
            formatted["tax"]
        );
    }
}

// an external address inside running text: it is no note, so it gets no note extension
#[test]
fn external_address_with_a_space_gets_no_note_extension() {
    let note = "# Tax\n\nsee [the scan](<https://example.com/My Files/scan one>) for details\n";
    let formatted = format(&[("tax", note)], ".md");
    assert_eq!(
        destinations(note),
        destinations(&formatted["tax"]),
        "destinations changed\n--- formatted:\n{}",
        formatted["tax"]
    );
}

// control: the same addresses without a space are left alone (this passes)
#[test]
fn control_external_address_without_space_is_kept() {
    let note = "# Tax\n\n[scan](file:///home/me/Documents/scan.pdf)\n\nsee [the scan](https://example.com/files/scan-one) for details\n";
    for refs_extension in ["", ".md"] {
        let formatted = format(&[("tax", note)], refs_extension);
        assert_eq!(destinations(note), destinations(&formatted["tax"]));
    }
}
