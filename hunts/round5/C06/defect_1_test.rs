// C06 hunt 5, defect 1: an image written in wiki syntax ("![[photo.png]]", "![[diagram.png|200]]",
// the embed form of the wiki links the project otherwise keeps as they are) is rewritten as an
// ordinary image "![photo.png](photo.png)" by formatting: the image loses its kind.
//
// Property: "... piped wiki-links, bare wiki-links, external URLs and images keep their text and kind."
//
// Run: copy into crates/liwe/tests/ and `cargo test --offline -p liwe --test defect_1_test`.

use liwe::graph::Graph;
use liwe::model::config::MarkdownOptions;
use liwe::model::State;
use pulldown_cmark::{Event, LinkType, Options, Parser, Tag, TagEnd};

fn format(files: &[(&str, &str)], refs_extension: &str) -> State {
    let state: State = files
        .iter()
        .map(|(key, text)| (key.to_string(), text.to_string()))
        .collect();
    Graph::import(
        &state,
        MarkdownOptions {
            refs_extension: refs_extension.to_string(),
        },
    )
    .export()
}

// (kind, destination, text) of every image, read by the Markdown parser the project uses, with
// the options the project uses
fn images(text: &str) -> Vec<(String, String, String)> {
    let options = Options::ENABLE_YAML_STYLE_METADATA_BLOCKS
        | Options::ENABLE_WIKILINKS
        | Options::ENABLE_TABLES;
    let mut found = vec![];
    let mut open: Option<(String, String, String)> = None;
    for event in Parser::new_ext(text, options) {
        match event {
            Event::Start(Tag::Image {
                link_type,
                dest_url,
                ..
            }) => {
                let kind = match link_type {
                    LinkType::WikiLink { has_pothole: true } => "wiki image with text",
                    LinkType::WikiLink { has_pothole: false } => "wiki image",
                    _ => "ordinary image",
                };
                open = Some((kind.to_string(), dest_url.to_string(), String::new()));
            }
            Event::Text(piece) => {
                if let Some(image) = open.as_mut() {
                    image.2.push_str(&piece)
                }
            }
            Event::End(TagEnd::Image) => found.extend(open.take()),
            _ => {}
        }
    }
    found
}

const NOTE: &str = "# Trip\n\n![[photo.png]]\n\nthe route ![[route map.png|200]] as planned\n";

#[test]
fn wiki_images_keep_their_kind() {
    for refs_extension in ["", ".md"] {
        let formatted = format(&[("trip", NOTE)], refs_extension);
        let before = images(NOTE);
        let after = images(&formatted["trip"]);

        assert_eq!(
            before.len(),
            2,
            "the input holds two images in wiki syntax: {:?}",
            before
        );
        assert_eq!(
            before, after,
            "refs_extension {:?}: the images changed their kind\n--- formatted:\n{}",
            refs_extension, formatted["trip"]
        );
    }
}

#[test]
fn wiki_image_is_written_back_as_it_was() {
    let formatted = format(&[("trip", NOTE)], "");
    assert!(
        formatted["trip"].contains("![[photo.png]]"),
        "![[photo.png]] became something else:\n{}",
        formatted["trip"]
    );
}
