// C06 hunt 5, defect 3 (side effect of 2c9cfae "brackets in a link's text are escaped"):
// the escaping is also applied to the text of an autolink, whose text IS its destination and
// where a backslash is a literal character:
//  - in a table cell <https://example.com/items?filter[status]=open> is written
//    <https://example.com/items?filter\[status\]=open>: the destination now holds backslashes,
//    and every further pass doubles them (\\[ ... \\\\[ ...)
//  - in a paragraph the escaped text no longer equals the address, so the autolink comes back as
//    [https://example.com/items?filter\[status\]=open](https://example.com/items?filter[status]=open):
//    the external link changes its kind
//
// Property: "... external URLs and images keep their text and kind. No link ever changes its
// destination ..."
//
// Run: copy into crates/liwe/tests/ and `cargo test --offline -p liwe --test defect_3_test`.

use liwe::graph::Graph;
use liwe::model::config::MarkdownOptions;
use liwe::model::State;
use pulldown_cmark::{Event, LinkType, Options, Parser, Tag, TagEnd};

fn format(files: &[(&str, &str)], refs_extension: &str) -> State {
    let state: State = files
        .iter()
        .map(|(key, text)| (key.to_string(), text.to_string()))
        .collect();
    Graph::import(
        &state,
        MarkdownOptions {
            refs_extension: refs_extension.to_string(),
        },
    )
    .export()
}

// (kind, destination, text) of every link
fn links(text: &str) -> Vec<(String, String, String)> {
    let options = Options::ENABLE_YAML_STYLE_METADATA_BLOCKS
        | Options::ENABLE_WIKILINKS
        | Options::ENABLE_TABLES;
    let mut found = vec![];
    let mut open: Option<(String, String, String)> = None;
    for event in Parser::new_ext(text, options) {
        match event {
            Event::Start(Tag::Link {
                link_type,
                dest_url,
                ..
            }) => {
                let kind = match link_type {
                    LinkType::Autolink | LinkType::Email => "autolink",
                    LinkType::WikiLink { .. } => "wiki link",
                    _ => "ordinary link",
                };
                open = Some((kind.to_string(), dest_url.to_string(), String::new()));
            }
            Event::Text(piece) => {
                if let Some(link) = open.as_mut() {
                    link.2.push_str(&piece)
                }
            }
            Event::End(TagEnd::Link) => found.extend(open.take()),
            _ => {}
        }
    }
    found
}

const ADDRESS: &str = "https://example.com/items?filter[status]=open";

#[test]
fn autolink_with_brackets_in_a_table_cell_keeps_its_destination() {
    let note = format!("# API\n\n| call | url |\n|---|---|\n| open items | <{}> |\n", ADDRESS);
    for refs_extension in ["", ".md"] {
        let once = format(&[("api", note.as_str())], refs_extension);
        let twice = format(&[("api", once["api"].as_str())], refs_extension);

        let before = links(&note);
        assert_eq!(before.len(), 1);
        assert_eq!(before[0].1, ADDRESS);

        let after = links(&once["api"]);
        assert_eq!(
            before, after,
            "refs_extension {:?}: the link changed\n--- formatted:\n{}",
            refs_extension, once["api"]
        );
        assert_eq!(
            before,
            links(&twice["api"]),
            "refs_extension {:?}: the link changed on the second pass\n--- formatted twice:\n{}",
            refs_extension,
            twice["api"]
        );
    }
}

#[test]
fn autolink_with_brackets_in_a_paragraph_keeps_its_kind() {
    let note = format!("# API\n\nopen items: <{}>\n", ADDRESS);
    let formatted = format(&[("api", note.as_str())], "");
    assert_eq!(
        links(&note),
        links(&formatted["api"]),
        "the link changed\n--- formatted:\n{}",
        formatted["api"]
    );
}

// control: without brackets both come back as they were (this passes)
#[test]
fn control_autolink_without_brackets_is_kept() {
    let note = "# API\n\nopen items: <https://example.com/items?status=open>\n\n| url |\n|---|\n| <https://example.com/items?status=open> |\n";
    let formatted = format(&[("api", note)], "");
    assert_eq!(links(note), links(&formatted["api"]));
}
