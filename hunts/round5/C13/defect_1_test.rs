// DEFECT 1 (iwes): go-to-definition on an upward relative link ("../note") answers a URI with an
// unfolded ".." segment (file:///basepath/d/../2.md). Every other answer of the server (workspace
// symbols, references, rename edits) names the same note file:///basepath/2.md; the location sent
// for the link's target is not the document the editor and the server know the note by.
//
// copy to crates/iwes/tests/ and run: cargo test --offline -p iwes --test defect_1_test
use lsp_types::request::{GotoDefinition, WorkspaceSymbolRequest};
use lsp_types::*;

mod fixture;
use crate::fixture::*;

fn definition_uri(fixture: &Fixture, from: &str, line: u32, character: u32) -> String {
    let answer = fixture.send_request::<GotoDefinition>(GotoDefinitionParams {
        text_document_position_params: TextDocumentPositionParams {
            text_document: TextDocumentIdentifier {
                uri: uri_from(from),
            },
            position: Position::new(line, character),
        },
        work_done_progress_params: Default::default(),
        partial_result_params: Default::default(),
    });
    // the text that goes over the wire (parsing it into a Url would fold the dots)
    answer["uri"].as_str().expect("a location").to_string()
}

#[test]
fn definition_of_upward_link_names_the_note_as_every_other_answer_does() {
    let fixture = Fixture::with_documents(vec![
        ("d/1", "# one\n\ntext [up](../2) text\n"),
        ("2", "# two\n"),
    ]);

    // how the server itself names the note "two" elsewhere
    let symbols = fixture.send_request::<WorkspaceSymbolRequest>(WorkspaceSymbolParams {
        query: "two".to_string(),
        work_done_progress_params: Default::default(),
        partial_result_params: Default::default(),
    });
    let symbol_uri = symbols
        .as_array()
        .unwrap()
        .iter()
        .find(|symbol| symbol["name"] == "two")
        .expect("note two is listed")["location"]["uri"]
        .as_str()
        .unwrap()
        .to_string();
    assert_eq!("file:///basepath/2.md", symbol_uri);

    // cursor inside "[up](../2)"
    let uri = definition_uri(&fixture, "d/1", 2, 7);

    assert_eq!(symbol_uri, uri, "go-to-definition names the note differently");
}

#[test]
fn definition_of_link_through_a_sibling_directory() {
    let fixture = Fixture::with_documents(vec![
        ("a/1", "# one\n\n[[../b/2]]\n"),
        ("b/2", "# two\n"),
    ]);

    assert_eq!(
        "file:///basepath/b/2.md",
        definition_uri(&fixture, "a/1", 2, 3)
    );
}
