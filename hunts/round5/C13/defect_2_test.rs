// DEFECT 2 (liwe): the last line of a code block that runs to the end of a file without a final
// newline (an unclosed fence while typing, an indented code block) belongs to no block: code
// actions at that line find nothing, or - inside a quote - operate on the whole quote instead of
// the code block. The repair a3bad29 (KF-line-range-last-line) fixed this for every other block;
// MarkdownEventsReader::to_code_block_line_range kept the old arithmetic ("the range stops before
// the line that holds the end of the block"), which is only right when that line is a closing fence.
//
// copy to crates/liwe/tests/ and run: cargo test --offline -p liwe --test defect_2_test
use liwe::graph::{Graph, GraphContext};
use liwe::markdown::MarkdownReader;
use liwe::model::Key;

fn graph(text: &str) -> (Graph, Key) {
    let key = Key::from_file_name("note");
    let mut graph = Graph::new();
    graph.from_markdown(key.clone(), text, MarkdownReader::new());
    (graph, key)
}

// the node found at `line` is a code block
fn assert_code_block_at(text: &str, line: usize) {
    let (graph, key) = graph(text);
    let id = (&graph).get_node_id_at(&key, line);
    assert!(
        id.map_or(false, |id| graph.graph_node(id).is_raw()),
        "line {} of {:?} is code, found {:?}",
        line,
        text,
        id.map(|id| graph.graph_node(id).to_symbol())
    );
}

#[test]
fn control_with_final_newline() {
    // the same texts with a final newline are read right
    assert_code_block_at("# T\n\n```\nlet a = 1;\nlet b = 2;\n", 3);
    assert_code_block_at("# T\n\n```\nlet a = 1;\nlet b = 2;\n", 4);
    assert_code_block_at("para\n\n    code one\n    code two\n", 3);
}

#[test]
fn unclosed_fence_at_end_of_file() {
    // a code block being typed at the end of a note
    let text = "# T\n\n```\nlet a = 1;\nlet b = 2;";
    assert_code_block_at(text, 3);
    assert_code_block_at(text, 4);
}

#[test]
fn unclosed_fence_at_end_of_file_crlf() {
    let text = "# T\r\n\r\n```\r\nlet a = 1;\r\nlet b = 2;";
    assert_code_block_at(text, 4);
}

#[test]
fn indented_code_block_at_end_of_file() {
    let text = "para\n\n    code one\n    code two";
    assert_code_block_at(text, 2);
    assert_code_block_at(text, 3);
}

#[test]
fn code_block_in_quote_at_end_of_file() {
    // here the line is not lost but given to the wrong block: the quote as a whole
    let text = "> quoted\n>\n> ```\n> code one\n> code two";
    assert_code_block_at(text, 3);
    assert_code_block_at(text, 4);
}

#[test]
fn code_block_in_list_item_at_end_of_file() {
    let text = "- item\n\n  ```\n  code one\n  code two";
    assert_code_block_at(text, 4);
}
