// DEFECT 3 (iwes): go-to-definition, prepareRename and rename do nothing on a wiki link to a note
// whose name holds a colon and no space ("[[Project:Alpha]]", "[[ns:page]]"): since 252be31 they
// follow only what liwe::model::is_ref_url accepts, and has_scheme (67426b7 / caedd42) reads
// "Project" as the scheme of an address. A wiki link never is an address: the note exists, the
// cursor is inside the link's source span, nothing happens. (The neighbouring name with a space,
// "Re: budget", was repaired in caedd42 and works.)
//
// copy to crates/iwes/tests/ and run: cargo test --offline -p iwes --test defect_3_test
use lsp_types::request::GotoDefinition;
use lsp_types::*;
use serde_json::Value;

mod fixture;
use crate::fixture::*;

fn definition(fixture: &Fixture, line: u32, character: u32) -> Value {
    fixture.send_request::<GotoDefinition>(GotoDefinitionParams {
        text_document_position_params: TextDocumentPositionParams {
            text_document: TextDocumentIdentifier {
                uri: uri_from("index"),
            },
            position: Position::new(line, character),
        },
        work_done_progress_params: Default::default(),
        partial_result_params: Default::default(),
    })
}

fn library() -> Fixture {
    Fixture::with_documents(vec![
        (
            "index",
            "# Index\n\nsee [[Project:Alpha]] and [[Re: budget]] and [[plain]]\n",
        ),
        ("Project:Alpha", "# Alpha\n"),
        ("Re: budget", "# Budget\n"),
        ("plain", "# Plain\n"),
    ])
}

#[test]
fn control_names_without_colon_or_with_a_space() {
    let fixture = library();
    assert_eq!(
        "file:///basepath/plain.md",
        definition(&fixture, 2, 51)["uri"].as_str().unwrap_or("none")
    );
    assert_eq!(
        "file:///basepath/Re:%20budget.md",
        definition(&fixture, 2, 30)["uri"].as_str().unwrap_or("none")
    );
}

#[test]
fn definition_on_wiki_link_with_colon() {
    let fixture = library();
    // cursor inside "[[Project:Alpha]]" (columns 4..21)
    let answer = definition(&fixture, 2, 8);
    assert_eq!(
        "file:///basepath/Project:Alpha.md",
        answer["uri"].as_str().unwrap_or("none"),
        "answer: {}",
        answer
    );
}

#[test]
fn prepare_rename_on_wiki_link_with_colon() {
    let fixture = library();
    fixture.prepare_rename(
        TextDocumentPositionParams {
            text_document: TextDocumentIdentifier {
                uri: uri_from("index"),
            },
            position: Position::new(2, 8),
        },
        PrepareRenameResponse::RangeWithPlaceholder {
            range: Range::new(Position::new(2, 6), Position::new(2, 19)),
            placeholder: "Project:Alpha".to_string(),
        },
    );
}
