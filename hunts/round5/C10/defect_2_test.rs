// Defect 2: "Section to list" on a section whose heading has no text ("##" - a placeholder, or what
// "List to sections" leaves for an item that starts with a code block or quote) and whose first
// block is a paragraph or a block reference writes the list marker in front of that block: the
// paragraph becomes the item's text. A nested block of the section turns into the text of the item,
// and "List to sections" on the result makes it the heading.
//
// The writer leaves out blocks that render to nothing (2b76a30 / 65d9b9a) and puts the marker on the
// first line that has content (d0a9c8f): right for "- ```", wrong when that line is a paragraph.
//
// copy to crates/iwes/tests/ and run: cargo test --offline -p iwes --test defect_2_test
#![allow(dead_code, unused)]
use std::collections::HashMap;

use liwe::model::config::Configuration;
use lsp_types::request::{CodeActionRequest, CodeActionResolveRequest, Formatting};
use lsp_types::{
    CodeAction, CodeActionContext, CodeActionKind, CodeActionParams, DocumentFormattingParams,
    Position, Range, TextDocumentIdentifier,
};
use serde_json::Value;

use crate::fixture::{uri, Fixture};

mod fixture;

const SECTION_TO_LIST: &str = "refactor.rewrite.section.list";
const LIST_TO_SECTIONS: &str = "refactor.rewrite.list.section";

fn server(note: &str) -> Fixture {
    let mut state = HashMap::new();
    state.insert("1".to_string(), note.to_string());
    Fixture::with_options_and_client(state, Configuration::default(), "")
}

// the text of the note after the action of `kind` offered at `line` (None: not offered)
fn convert(note: &str, line: u32, kind: &'static str) -> Option<String> {
    let server = server(note);
    let offered = server.send_request::<CodeActionRequest>(CodeActionParams {
        text_document: TextDocumentIdentifier { uri: uri(1) },
        range: Range::new(Position::new(line, 0), Position::new(line, 0)),
        context: CodeActionContext {
            diagnostics: Default::default(),
            only: Some(vec![CodeActionKind::new(kind)]),
            trigger_kind: None,
        },
        work_done_progress_params: Default::default(),
        partial_result_params: Default::default(),
    });
    let action: CodeAction = serde_json::from_value(offered.as_array()?.first()?.clone()).ok()?;
    let resolved = server.send_request::<CodeActionResolveRequest>(action);
    resolved["edit"]["documentChanges"][0]["edits"][0]["newText"]
        .as_str()
        .map(|text| text.to_string())
}

// the note as the server reads and writes it
fn formatted(note: &str) -> String {
    let server = server(note);
    let edits = server.send_request::<Formatting>(DocumentFormattingParams {
        text_document: TextDocumentIdentifier { uri: uri(1) },
        options: Default::default(),
        work_done_progress_params: Default::default(),
    });
    edits[0]["newText"].as_str().unwrap().to_string()
}


#[test]
fn empty_heading_keeps_its_paragraph_a_nested_block() {
    let note = "# Notes\n\nIntro.\n\n## \n\nFirst paragraph.\n\nSecond paragraph.\n";
    let original = formatted(note);
    assert_eq!(original, note, "the note is in its formatted form");

    let list = convert(&original, 4, SECTION_TO_LIST).expect("section to list is offered");

    // the section has no sibling before it and no list next to it: the way back restores the note
    let back = (0..list.lines().count() as u32)
        .filter_map(|line| convert(&list, line, LIST_TO_SECTIONS))
        .next()
        .expect("list to sections is offered");
    assert_eq!(
        original, back,
        "section to list and back restores the formatted note\n--- converted\n{}",
        list
    );
}

#[test]
fn empty_heading_keeps_its_block_reference() {
    // (a link alone in a paragraph is a block reference)
    let note = "# Notes\n\nIntro.\n\n## \n\n[Other](2)\n\nSecond paragraph.\n";
    let original = formatted(note);
    assert_eq!(original, note, "the note is in its formatted form");

    let list = convert(&original, 4, SECTION_TO_LIST).expect("section to list is offered");
    let back = (0..list.lines().count() as u32)
        .filter_map(|line| convert(&list, line, LIST_TO_SECTIONS))
        .next()
        .expect("list to sections is offered");
    assert_eq!(
        original, back,
        "section to list and back restores the formatted note\n--- converted\n{}",
        list
    );
}
