// Defect 1: "Section to list" on a heading whose text begins like an html block (a comment, a
// block-level or stand-alone tag) or like a link reference definition writes that text right after
// the list marker, where it IS such a block: the next time the note is read (the edit applied by the
// client, a formatting pass, the way back with "List to sections") the heading's words are gone and
// the first paragraph of the section takes their place.
//
// The repair 6c55e5b (KF-item-text-begins-like-a-block) protects list markers and ">" only.
//
// copy to crates/iwes/tests/ and run: cargo test --offline -p iwes --test defect_1_test
#![allow(dead_code, unused)]
use std::collections::HashMap;

use liwe::model::config::Configuration;
use lsp_types::request::{CodeActionRequest, CodeActionResolveRequest, Formatting};
use lsp_types::{
    CodeAction, CodeActionContext, CodeActionKind, CodeActionParams, DocumentFormattingParams,
    Position, Range, TextDocumentIdentifier,
};
use serde_json::Value;

use crate::fixture::{uri, Fixture};

mod fixture;

const SECTION_TO_LIST: &str = "refactor.rewrite.section.list";
const LIST_TO_SECTIONS: &str = "refactor.rewrite.list.section";

fn server(note: &str) -> Fixture {
    let mut state = HashMap::new();
    state.insert("1".to_string(), note.to_string());
    Fixture::with_options_and_client(state, Configuration::default(), "")
}

// the text of the note after the action of `kind` offered at `line` (None: not offered)
fn convert(note: &str, line: u32, kind: &'static str) -> Option<String> {
    let server = server(note);
    let offered = server.send_request::<CodeActionRequest>(CodeActionParams {
        text_document: TextDocumentIdentifier { uri: uri(1) },
        range: Range::new(Position::new(line, 0), Position::new(line, 0)),
        context: CodeActionContext {
            diagnostics: Default::default(),
            only: Some(vec![CodeActionKind::new(kind)]),
            trigger_kind: None,
        },
        work_done_progress_params: Default::default(),
        partial_result_params: Default::default(),
    });
    let action: CodeAction = serde_json::from_value(offered.as_array()?.first()?.clone()).ok()?;
    let resolved = server.send_request::<CodeActionResolveRequest>(action);
    resolved["edit"]["documentChanges"][0]["edits"][0]["newText"]
        .as_str()
        .map(|text| text.to_string())
}

// the note as the server reads and writes it
fn formatted(note: &str) -> String {
    let server = server(note);
    let edits = server.send_request::<Formatting>(DocumentFormattingParams {
        text_document: TextDocumentIdentifier { uri: uri(1) },
        options: Default::default(),
        work_done_progress_params: Default::default(),
    });
    edits[0]["newText"].as_str().unwrap().to_string()
}

fn check(note: &str, heading_line: u32, word: &str) {
    let original = formatted(note);
    assert_eq!(original, note, "the note is in its formatted form");

    let list = convert(&original, heading_line, SECTION_TO_LIST).expect("section to list is offered");
    assert!(list.contains(word), "the action itself writes the word");

    // the client applies the edit; the server reads the note again
    let read_back = formatted(&list);
    assert!(
        read_back.contains(word),
        "the heading's word {:?} is lost once the converted note is read again:\n--- converted\n{}\n--- read back\n{}",
        word,
        list,
        read_back
    );

    // the section has no sibling before it and no list next to it: the way back restores the note
    let back = convert(&list, heading_line, LIST_TO_SECTIONS).expect("list to sections is offered");
    assert_eq!(original, back, "section to list and back restores the formatted note");
}

#[test]
fn heading_that_starts_with_a_comment() {
    check(
        "# Notes\n\nIntro.\n\n## <!-- draft --> Pricing\n\nPlans start at ten dollars.\n",
        4,
        "Pricing",
    );
}

#[test]
fn heading_that_starts_with_a_block_level_tag() {
    check(
        "# Notes\n\nIntro.\n\n## <center>Overview</center>\n\nWhat this is about.\n",
        4,
        "Overview",
    );
}

#[test]
fn heading_that_is_a_stand_alone_tag() {
    check(
        "# Components\n\nIntro.\n\n## <Button />\n\nA clickable thing.\n",
        4,
        "Button",
    );
}

#[test]
fn heading_that_reads_as_a_link_reference_definition() {
    check(
        "# Notes\n\nIntro.\n\n## [Draft]: Introduction\n\nFirst words.\n",
        4,
        "Introduction",
    );
}

// (the reader's side of this one is the known defect "a heading that is the first block of a list
// item is written back as the item's plain text"; the trigger is new: the action writes an item
// that starts with a heading where the section's heading text was "# of participants")
#[test]
fn heading_whose_text_starts_with_a_number_sign() {
    check(
        "# Survey\n\nIntro.\n\n## # of participants\n\nForty-two.\n",
        4,
        "# of participants",
    );
}
