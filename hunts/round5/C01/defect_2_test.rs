// DEFECT 2: an image embed with a pipe inside a table cell (`![[diagram.png\|200]]`, the way a
// sized embed has to be written inside a table) stops being an image after formatting.
//
// Repair 2574bf8 (KF-piped-wiki-link-in-cell) strips the table's escaping backslash from the
// destination of a piped wiki *link*; the reader's `Tag::Image` arm still takes the parser's
// destination `diagram.png\` as it is, and the writer puts it in front of the closing parenthesis:
// `![200](diagram.png\)` - the backslash escapes the ")" and the cell holds literal text.
// The next pass escapes the brackets for good (`!\[200\](diagram.png)`).
//
// Property: image destinations and table cells are kept; nothing is turned into other words.

use std::collections::HashMap;

use liwe::graph::Graph;
use liwe::model::config::MarkdownOptions;
use pulldown_cmark::{Event, Options, Parser, Tag, TagEnd};

fn format(text: &str) -> String {
    let mut state = HashMap::new();
    state.insert("note".to_string(), text.to_string());
    Graph::import(&state, MarkdownOptions::default())
        .export()
        .remove("note")
        .unwrap()
}

// (destination, alt text) of every image, and the text of every table cell outside of images
fn images_and_cell_text(text: &str) -> (Vec<(String, String)>, Vec<String>) {
    let options = Options::ENABLE_YAML_STYLE_METADATA_BLOCKS
        | Options::ENABLE_WIKILINKS
        | Options::ENABLE_TABLES;
    let mut images = vec![];
    let mut cells = vec![];
    let mut in_image = false;
    let mut in_cell = false;
    for event in Parser::new_ext(text, options) {
        match event {
            Event::Start(Tag::Image { dest_url, .. }) => {
                in_image = true;
                // the backslash that escapes the pipe for the table is no part of the name
                images.push((dest_url.trim_end_matches('\\').to_string(), String::new()));
            }
            Event::End(TagEnd::Image) => in_image = false,
            Event::Start(Tag::TableCell) => {
                in_cell = true;
                cells.push(String::new());
            }
            Event::End(TagEnd::TableCell) => in_cell = false,
            Event::Text(t) if in_image => images.last_mut().unwrap().1.push_str(&t),
            Event::Text(t) if in_cell => cells.last_mut().unwrap().push_str(&t),
            _ => {}
        }
    }
    (images, cells)
}

#[test]
fn sized_image_embed_in_a_table_cell_stays_an_image() {
    let input = "\
# Screens

| Screen | Preview |
|--------|---------|
| Login  | ![[login.png\\|200]] |
";
    let (images_before, cells_before) = images_and_cell_text(input);
    assert_eq!(
        vec![("login.png".to_string(), "200".to_string())],
        images_before,
        "the input holds one image (sanity check of the test)"
    );

    let once = format(input);
    let (images_after, cells_after) = images_and_cell_text(&once);

    assert_eq!(
        images_before, images_after,
        "the image is gone or has another destination after formatting:\n{}",
        once
    );
    assert_eq!(
        cells_before, cells_after,
        "the cells hold other text after formatting:\n{}",
        once
    );

    // and it stays that way
    let twice = format(&once);
    assert_eq!(
        images_before,
        images_and_cell_text(&twice).0,
        "second pass:\n{}",
        twice
    );
}

// the same embed outside of a table is kept (written as an ordinary image): only the cell fails
#[test]
fn control_the_same_embed_outside_of_a_table_is_kept() {
    let once = format("![[login.png|200]]\n");
    assert_eq!(
        vec![("login.png".to_string(), "200".to_string())],
        images_and_cell_text(&once).0,
        "{}",
        once
    );
}
