// DEFECT 1: with markdown.refs_extension = ".md", a block reference (a link alone in its
// paragraph) to a note whose file name holds a dot - "node.js.md", "2024.01.15.md",
// "Dr. Smith.md" - or a "#" ("C# notes.md") loses the ".md" of its destination:
//
//     [Node.js](node.js.md)   ->   [Node.js](node.js)
//
// while the very same link inside a sentence keeps it. A block reference goes through a Key
// (which trims ".md") and is written back through with_refs_extension(); since repair 1f65229
// (KF-refs-extension-on-non-notes) that function refuses the extension to every name that holds
// a "." / "#" / "?" - before the repair the destination came out as node.js.md again.
// The written destination names no file (node.js), so the link is dead for every other tool
// the ".md" setting exists for.
//
// Property: link destinations are kept (for both settings of refs_extension).

use std::collections::HashMap;

use liwe::graph::Graph;
use liwe::model::config::MarkdownOptions;
use pulldown_cmark::{Event, Options, Parser, Tag};

fn format_library(notes: &[(&str, &str)], refs_extension: &str) -> HashMap<String, String> {
    let state: HashMap<String, String> = notes
        .iter()
        .map(|(key, text)| (key.to_string(), text.to_string()))
        .collect();
    Graph::import(
        &state,
        MarkdownOptions {
            refs_extension: refs_extension.to_string(),
            ..Default::default()
        },
    )
    .export()
}

fn destinations(text: &str) -> Vec<String> {
    let options = Options::ENABLE_YAML_STYLE_METADATA_BLOCKS
        | Options::ENABLE_WIKILINKS
        | Options::ENABLE_TABLES;
    Parser::new_ext(text, options)
        .filter_map(|event| match event {
            Event::Start(Tag::Link { dest_url, .. }) => Some(dest_url.to_string()),
            _ => None,
        })
        .collect()
}

#[test]
fn block_reference_to_a_note_with_a_dot_in_its_name_keeps_its_destination() {
    let index = "\
# Index

[Node.js](node.js.md)

[Daily](journal/2024.01.15.md)

[Plain](plain.md)

see [Node.js](node.js.md) in a sentence
";
    let library = [
        ("index", index),
        ("node.js", "# Node.js\n"),
        ("journal/2024.01.15", "# Daily\n"),
        ("plain", "# Plain\n"),
    ];

    let before = destinations(index);
    assert_eq!(
        vec!["node.js.md", "journal/2024.01.15.md", "plain.md", "node.js.md"],
        before
    );

    let formatted = format_library(&library, ".md");
    let after = destinations(&formatted["index"]);

    assert_eq!(
        before, after,
        "link destinations changed by formatting with refs_extension = \".md\":\n{}",
        formatted["index"]
    );
}

// the block reference and the link in a sentence name the same note: they cannot be written
// differently (this holds whatever one thinks the destination should be)
#[test]
fn block_reference_and_inline_link_to_the_same_note_agree() {
    let index = "# Index\n\n[Node.js](node.js.md)\n\nsee [Node.js](node.js.md) in a sentence\n";
    let formatted = format_library(&[("index", index), ("node.js", "# Node.js\n")], ".md");
    let after = destinations(&formatted["index"]);
    assert_eq!(2, after.len(), "{}", formatted["index"]);
    assert_eq!(after[0], after[1], "{}", formatted["index"]);
}
