// DEFECT 3: in a tight list item, text that follows an html block (a comment line) is glued to
// the text before it when it begins with markup (emphasis, strong, a link, an image, a wiki link):
//
//     - Buy milk
//       <!-- TODO: check the price -->
//       **Important:** get the organic one
//
// is written "- Buy milk**Important:** get the organic one": the words "milk" and "Important:"
// merge into one, and the two paragraphs of the item become one.
//
// Repair 3b1cc94 (KF-html-block-in-tight-item) remembers "an html block has just ended" in a flag
// and starts a new paragraph when the next inline arrives - but start_tag() clears the flag first,
// so the repair only works when the following text begins with a plain word, a code span or an
// inline tag (events that are no Start tags). Start(Emphasis/Strong/Link/Image) clear it and the
// text is appended to the paragraph before the (dropped) block without a space.
//
// Property: the same words in the same order; nothing is merged into a neighbour.

use std::collections::HashMap;

use liwe::graph::Graph;
use liwe::model::config::MarkdownOptions;
use pulldown_cmark::{Event, Options, Parser, Tag, TagEnd};

fn format(text: &str) -> String {
    let mut state = HashMap::new();
    state.insert("note".to_string(), text.to_string());
    Graph::import(&state, MarkdownOptions::default())
        .export()
        .remove("note")
        .unwrap()
}

// the words of the text outside of html blocks; block boundaries separate words
fn words(text: &str) -> Vec<String> {
    let options = Options::ENABLE_YAML_STYLE_METADATA_BLOCKS
        | Options::ENABLE_WIKILINKS
        | Options::ENABLE_TABLES;
    let mut buffer = String::new();
    let mut html = false;
    for event in Parser::new_ext(text, options) {
        match event {
            Event::Start(Tag::HtmlBlock) => html = true,
            Event::End(TagEnd::HtmlBlock) => {
                html = false;
                buffer.push(' ');
            }
            Event::Text(t) | Event::Code(t) | Event::InlineHtml(t) if !html => buffer.push_str(&t),
            Event::SoftBreak | Event::HardBreak => buffer.push(' '),
            Event::Start(Tag::Item)
            | Event::End(TagEnd::Item)
            | Event::Start(Tag::Paragraph)
            | Event::End(TagEnd::Paragraph) => buffer.push(' '),
            _ => {}
        }
    }
    buffer.split_whitespace().map(|w| w.to_string()).collect()
}

#[test]
fn strong_text_after_a_comment_in_a_tight_item_is_not_glued() {
    let input = "\
- Buy milk
  <!-- TODO: check the price -->
  **Important:** get the organic one
- second item
";
    let expected = vec![
        "Buy", "milk", "Important:", "get", "the", "organic", "one", "second", "item",
    ];
    assert_eq!(expected, words(input), "sanity check of the test");

    let once = format(input);
    assert_eq!(expected, words(&once), "after formatting:\n{}", once);
}

#[test]
fn link_after_a_comment_in_a_tight_numbered_item_is_not_glued() {
    let input = "\
1. Install the package
   <!-- see ticket 42 -->
   [The docs](https://example.com/docs) explain the options
";
    let expected = vec![
        "Install", "the", "package", "The", "docs", "explain", "the", "options",
    ];
    assert_eq!(expected, words(input), "sanity check of the test");

    let once = format(input);
    assert_eq!(expected, words(&once), "after formatting:\n{}", once);
}

// what the repair covers: a plain word after the comment starts its own paragraph
#[test]
fn control_plain_text_after_a_comment_is_kept_apart() {
    let input = "- Buy milk\n  <!-- TODO -->\n  get the organic one\n";
    let once = format(input);
    assert_eq!(
        vec!["Buy", "milk", "get", "the", "organic", "one"],
        words(&once),
        "{}",
        once
    );
}
