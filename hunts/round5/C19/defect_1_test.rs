// Defect 1: a configuration file that exists but cannot be read as text (a byte that is not
// UTF-8 - a Latin-1 "è" in a comment, a file saved as UTF-16 by PowerShell's ">" - or a file
// the user may not read) is still ignored silently: `iwe normalize` goes on with the defaults,
// takes the current directory for the library and rewrites README.md and every other .md that
// the configuration keeps out of the library.
//
// Incomplete repair e7b0ca4 (KF-unreadable-config-ignored): its message promises "a file that
// still cannot be read ends the command with a message", but only a TOML parse error does;
// the `Err(_)` arm of `std::fs::read_to_string` in `get_configuration` (crates/iwe/src/main.rs)
// covers "no such file" and every other read error alike.
//
// Run: copy to crates/iwe/tests/defect_1_test.rs,
//      cargo test --offline -p iwe --test defect_1_test -- --nocapture

use std::fs;
use std::path::PathBuf;
use std::process::Command;

fn fresh(name: &str) -> PathBuf {
    let dir = std::env::temp_dir().join(format!("iwe-hunt5-c19-{}-{}", name, std::process::id()));
    let _ = fs::remove_dir_all(&dir);
    fs::create_dir_all(&dir).unwrap();
    dir
}

fn check(name: &str, config: &[u8]) {
    let root = fresh(name);
    fs::create_dir_all(root.join(".iwe")).unwrap();
    fs::create_dir_all(root.join("notes")).unwrap();
    fs::create_dir_all(root.join("docs")).unwrap();

    // the configuration names notes/ as the library
    fs::write(root.join(".iwe/config.toml"), config).unwrap();

    // files of the project that are not in the library (not normalised on purpose:
    // "*" bullets, which normalize rewrites as "-")
    let readme = "# Project\n\n* build\n* test\n";
    let guide = "# Guide\n\n* [Project](../README.md)\n";
    fs::write(root.join("README.md"), readme).unwrap();
    fs::write(root.join("docs/guide.md"), guide).unwrap();
    // a note of the library
    fs::write(root.join("notes/a.md"), "# A\n\n* item\n").unwrap();

    let output = Command::new(env!("CARGO_BIN_EXE_iwe"))
        .arg("normalize")
        .current_dir(&root)
        .output()
        .expect("to run iwe");

    let readme_after = fs::read_to_string(root.join("README.md")).unwrap();
    let guide_after = fs::read_to_string(root.join("docs/guide.md")).unwrap();
    let note_after = fs::read_to_string(root.join("notes/a.md")).unwrap();

    println!(
        "[{}] exit {:?}\nstderr: {}\nREADME.md: {:?}\ndocs/guide.md: {:?}\nnotes/a.md: {:?}",
        name,
        output.status.code(),
        String::from_utf8_lossy(&output.stderr),
        readme_after,
        guide_after,
        note_after
    );

    // whatever the command decides to do about the file (refuse, or read it leniently):
    // nothing outside the configured library may be rewritten
    assert_eq!(
        readme, readme_after,
        "[{}] README.md is outside the configured library (notes/) and was rewritten",
        name
    );
    assert_eq!(
        guide, guide_after,
        "[{}] docs/guide.md is outside the configured library (notes/) and was rewritten",
        name
    );

    let _ = fs::remove_dir_all(&root);
}

#[test]
fn config_with_a_latin1_byte_in_a_comment() {
    // "# bibliothèque" saved as ISO-8859-1 / Windows-1252
    check(
        "latin1",
        b"# biblioth\xe8que\n[library]\npath = \"notes\"\n\n[markdown]\nrefs_extension = \".md\"\n",
    );
}

#[test]
fn config_saved_as_utf16() {
    // what `echo ... > config.toml` writes in Windows PowerShell 5: UTF-16 LE with a BOM
    let text = "[library]\r\npath = \"notes\"\r\n";
    let mut bytes = vec![0xff, 0xfe];
    for unit in text.encode_utf16() {
        bytes.extend_from_slice(&unit.to_le_bytes());
    }
    check("utf16", &bytes);
}
