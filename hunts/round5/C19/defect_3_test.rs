// Defect 3: in a shared notes directory `iwe normalize`, run by a user who is not the owner of
// a note but may write it through its group (alice:team 0660, bob is a member of team), hands
// the note to bob AND to bob's primary group: alice:team 0660 becomes bob:bob 0660. Neither
// alice nor the rest of the team can read the note any more (alice: "Permission denied" on her
// own note).
//
// Incomplete repair 104f101 (KF-replace-without-flush, "... and keeps its owner"; regression
// of the atomic write 6621bd3 / 331f4bb): the replacement file gets owner and group through
// one `fchown(fd, Some(uid), Some(gid))` whose error is dropped. For anyone but root the call
// fails as a whole because of the uid, so the group - which bob may set, he is a member - is
// lost as well. (`fchown(fd, None, Some(gid))` as a fallback keeps the group; where the owner
// cannot be kept either, writing in place or refusing would keep the note readable.)
//
// The test needs root (it creates files for two other users and starts `iwe` as one of
// them); without root it prints a notice and passes.
//
// Run: copy to crates/iwe/tests/defect_3_test.rs,
//      cargo test --offline -p iwe --test defect_3_test -- --nocapture

#![cfg(unix)]

use std::fs;
use std::os::unix::fs::{chown, MetadataExt, PermissionsExt};
use std::os::unix::process::CommandExt;
use std::process::Command;

extern "C" {
    fn geteuid() -> u32;
    fn setgroups(size: usize, list: *const u32) -> i32;
    fn setgid(gid: u32) -> i32;
    fn setuid(uid: u32) -> i32;
}

const ALICE: u32 = 61001;
const BOB: u32 = 61002;
const TEAM: u32 = 64242;

#[test]
fn note_written_by_a_group_member_keeps_its_group() {
    if unsafe { geteuid() } != 0 {
        eprintln!("defect_3_test: needs root, skipped");
        return;
    }

    let root = std::env::temp_dir().join(format!("iwe-hunt5-c19-shared-{}", std::process::id()));
    let _ = fs::remove_dir_all(&root);
    let library = root.join("library");
    fs::create_dir_all(&library).unwrap();
    fs::set_permissions(&root, fs::Permissions::from_mode(0o755)).unwrap();

    // bob must be able to start the program: a copy next to the library
    let iwe = root.join("iwe");
    fs::copy(env!("CARGO_BIN_EXE_iwe"), &iwe).unwrap();
    fs::set_permissions(&iwe, fs::Permissions::from_mode(0o755)).unwrap();

    // the team's directory: members may create and replace files
    chown(&library, Some(ALICE), Some(TEAM)).unwrap();
    fs::set_permissions(&library, fs::Permissions::from_mode(0o770)).unwrap();

    // alice's note, shared with the team, closed to everybody else
    let note = library.join("minutes.md");
    fs::write(&note, "# Minutes\n\n* item one\n* item two\n").unwrap();
    chown(&note, Some(ALICE), Some(TEAM)).unwrap();
    fs::set_permissions(&note, fs::Permissions::from_mode(0o660)).unwrap();

    // bob (primary group bob, member of team) normalises the library
    let status = unsafe {
        Command::new(&iwe)
            .arg("normalize")
            .current_dir(&library)
            .pre_exec(|| {
                let groups = [TEAM];
                if setgroups(1, groups.as_ptr()) != 0 || setgid(BOB) != 0 || setuid(BOB) != 0 {
                    return Err(std::io::Error::last_os_error());
                }
                Ok(())
            })
            .status()
            .expect("to run iwe as bob")
    };

    let metadata = fs::metadata(&note).unwrap();
    let text = fs::read_to_string(&note).unwrap();
    println!(
        "exit {:?}; minutes.md: uid {} gid {} mode {:o}\n{}",
        status.code(),
        metadata.uid(),
        metadata.gid(),
        metadata.mode() & 0o7777,
        text
    );

    assert!(status.success(), "iwe normalize failed");
    assert_eq!(
        "# Minutes\n\n- item one\n- item two\n", text,
        "the note was not normalised"
    );

    // can alice still read her note? she can if she is still its owner, or if the note is
    // still the team's (she need not be a member for the first, bob cannot do the first but
    // may do the second)
    let readable_to_alice_or_team = metadata.uid() == ALICE || metadata.gid() == TEAM;

    let _ = fs::remove_dir_all(&root);

    assert!(
        readable_to_alice_or_team,
        "alice:team 0660 became {}:{} {:o}: neither its owner nor the team can read the note any more",
        metadata.uid(),
        metadata.gid(),
        metadata.mode() & 0o7777
    );
}
