// Defect 2: a configuration file with a misspelt table or key name ("[libary]", "libary.path",
// "[library] paht = ...") is accepted without a word: the unknown name is dropped, the library
// path takes its default and `iwe normalize` rewrites README.md and every other .md under the
// current directory, although the file plainly keeps the library in notes/.
//
// Repair e7b0ca4 (KF-unreadable-config-ignored) names this very case ("a config.toml without
// [models]/[actions] (or with a typo) ... went on with the defaults: it rewrote README.md and
// docs/*.md outside the configured library") but only turned TOML syntax errors into a stop.
// Worse, `#[serde(default)]` on every table now makes a misspelt name parse cleanly where it
// used to be at least a (swallowed) "missing field `library`" error: there is no longer any
// way for the command to notice. (`#[serde(deny_unknown_fields)]` on Configuration,
// LibraryOptions and MarkdownOptions would.)
//
// Run: copy to crates/iwe/tests/defect_2_test.rs,
//      cargo test --offline -p iwe --test defect_2_test -- --nocapture

use std::fs;
use std::path::PathBuf;
use std::process::Command;

fn fresh(name: &str) -> PathBuf {
    let dir = std::env::temp_dir().join(format!("iwe-hunt5-c19-{}-{}", name, std::process::id()));
    let _ = fs::remove_dir_all(&dir);
    fs::create_dir_all(&dir).unwrap();
    dir
}

fn check(name: &str, config: &str) {
    let root = fresh(name);
    fs::create_dir_all(root.join(".iwe")).unwrap();
    fs::create_dir_all(root.join("notes")).unwrap();
    fs::write(root.join(".iwe/config.toml"), config).unwrap();

    let readme = "# Project\n\n* build\n* test\n";
    fs::write(root.join("README.md"), readme).unwrap();
    fs::write(root.join("notes/a.md"), "# A\n\n* item\n").unwrap();

    let output = Command::new(env!("CARGO_BIN_EXE_iwe"))
        .arg("normalize")
        .current_dir(&root)
        .output()
        .expect("to run iwe");

    let readme_after = fs::read_to_string(root.join("README.md")).unwrap();
    println!(
        "[{}] exit {:?}\nstderr: {}\nREADME.md: {:?}",
        name,
        output.status.code(),
        String::from_utf8_lossy(&output.stderr),
        readme_after
    );

    // the command cannot know what a misspelt name was meant to say; what it must not do is
    // take the file for "no configuration" and rewrite the files around the library
    assert_eq!(
        readme, readme_after,
        "[{}] README.md was rewritten although the configuration keeps the library in notes/",
        name
    );

    let _ = fs::remove_dir_all(&root);
}

#[test]
fn misspelt_table_name() {
    check("table", "[libary]\npath = \"notes\"\n");
}

#[test]
fn misspelt_key_name() {
    check("key", "[library]\npaht = \"notes\"\n");
}

#[test]
fn key_outside_its_table() {
    // the table header forgotten
    check("toplevel", "path = \"notes\"\n\n[markdown]\nrefs_extension = \".md\"\n");
}
