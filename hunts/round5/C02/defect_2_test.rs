// Defect 2: a wiki link whose name wraps across two lines (hard-wrapped text) inside a list item
// or a block quote never converges: the link's name is taken from the source as it stands, with
// the line break and the indentation / quote marker of the continuation line, and the writer
// indents / quotes that line again. In a list item the second line moves two columns to the
// right on every pass, in a quote it gets one more "> " and then splits the quote.
// (The same happened to multi-line inline html before f35b541; wiki links were left out.)
//
// Property (C02): the text produced by formatting a note is itself already formatted.
//
// Run: copy to crates/liwe/tests/ and
//   cargo test --offline -p liwe --test defect_2_test -- --nocapture

use std::collections::HashMap;

use liwe::graph::{Graph, GraphContext};
use liwe::model::config::MarkdownOptions;
use liwe::model::Key;

fn normalize(text: &str, refs_extension: &str) -> String {
    let mut state = HashMap::new();
    state.insert("journal".to_string(), text.to_string());
    state.insert(
        "Project Alpha Kickoff Notes".to_string(),
        "# Project Alpha Kickoff Notes\n".to_string(),
    );
    Graph::import(
        &state,
        MarkdownOptions {
            refs_extension: refs_extension.to_string(),
        },
    )
    .export()["journal"]
        .clone()
}

fn lsp_formatting(graph: &Graph, key: &Key) -> String {
    let mut patch = graph.new_patch();
    patch
        .build_key(key)
        .insert_from_iter(graph.collect(key).iter());
    patch.export_key(key).unwrap()
}

#[test]
fn wrapped_wiki_link_in_a_list_item() {
    let note = "# Journal\n\n- met the team, see [[Project Alpha\n  Kickoff Notes]] for the details\n";
    for refs_extension in ["", ".md"] {
        let once = normalize(note, refs_extension);
        let twice = normalize(&once, refs_extension);
        assert_eq!(once, twice, "refs_extension {:?}", refs_extension);
    }
}

#[test]
fn wrapped_wiki_link_in_a_quote() {
    let note = "> as agreed in [[Project Alpha\n> Kickoff Notes]] last week\n";
    let once = normalize(note, "");
    let twice = normalize(&once, "");
    assert_eq!(once, twice);
}

#[test]
fn wrapped_piped_wiki_link_in_a_list_item() {
    let note = "- see [[Project Alpha\n  Kickoff Notes|the kickoff notes]] for the details\n";
    let once = normalize(note, "");
    let twice = normalize(&once, "");
    assert_eq!(once, twice);
}

#[test]
fn format_on_save_converges_after_one_save() {
    let note = "- met the team, see [[Project Alpha\n  Kickoff Notes]] for the details\n";
    let key = Key::from_file_name("journal");
    let mut state = HashMap::new();
    state.insert("journal".to_string(), note.to_string());
    let mut graph = Graph::import(&state, MarkdownOptions::default());

    let first = lsp_formatting(&graph, &key);
    graph.update_key(key.clone(), &first);
    let second = lsp_formatting(&graph, &key);
    assert_eq!(first, second, "the second formatting request changed the note again");
}
