// Defect 3: an inline tag that spans lines and stands alone in its paragraph (an <img> with one
// attribute per line) is joined into ONE line by the first pass (f35b541 / 2ad4261). Alone on a
// line, a complete tag is an html block, and html blocks are dropped: the second pass deletes the
// image. Formatting twice differs from formatting once, and the second save loses content.
//
// Property (C02): the text produced by formatting a note is itself already formatted.
//
// Run: copy to crates/liwe/tests/ and
//   cargo test --offline -p liwe --test defect_3_test -- --nocapture

use std::collections::HashMap;

use liwe::graph::{Graph, GraphContext};
use liwe::model::config::MarkdownOptions;
use liwe::model::Key;

fn normalize(text: &str, refs_extension: &str) -> String {
    let mut state = HashMap::new();
    state.insert("setup".to_string(), text.to_string());
    Graph::import(
        &state,
        MarkdownOptions {
            refs_extension: refs_extension.to_string(),
        },
    )
    .export()["setup"]
        .clone()
}

fn lsp_formatting(graph: &Graph, key: &Key) -> String {
    let mut patch = graph.new_patch();
    patch
        .build_key(key)
        .insert_from_iter(graph.collect(key).iter());
    patch.export_key(key).unwrap()
}

const NOTE: &str = "# Setup\n\nThe wiring:\n\n<img src=\"img/wiring.png\"\n     width=\"300\"\n     alt=\"Wiring diagram\">\n\nConnect the red wire first.\n";

#[test]
fn multi_line_img_tag_alone_in_a_paragraph() {
    for refs_extension in ["", ".md"] {
        let once = normalize(NOTE, refs_extension);
        let twice = normalize(&once, refs_extension);
        assert_eq!(once, twice, "refs_extension {:?}", refs_extension);
    }
}

#[test]
fn multi_line_img_tag_in_a_quote_and_in_a_list_item() {
    for note in [
        "> <img src=\"a.png\"\n>      alt=\"x\">\n",
        "- <img src=\"a.png\"\n       alt=\"x\">\n- second\n",
    ] {
        let once = normalize(note, "");
        let twice = normalize(&once, "");
        assert_eq!(once, twice, "note {:?}", note);
    }
}

#[test]
fn format_on_save_converges_after_one_save() {
    let key = Key::from_file_name("setup");
    let mut state = HashMap::new();
    state.insert("setup".to_string(), NOTE.to_string());
    let mut graph = Graph::import(&state, MarkdownOptions::default());

    let first = lsp_formatting(&graph, &key);
    graph.update_key(key.clone(), &first);
    let second = lsp_formatting(&graph, &key);
    assert_eq!(first, second, "the second formatting request changed the note again");
}
