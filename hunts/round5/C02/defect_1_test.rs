// Defect 1: a table cell that holds text between angle brackets that is neither an html tag
// nor an autolink ("<Ctrl+C>", "<=>", "<->", "<2024-01-15 Mon>", "<1ms>") never settles:
// one pass writes "\<Ctrl+C>", the next "<Ctrl+C>", the next "\<Ctrl+C>" again ...
//
// Property (C02): the text produced by formatting a note is itself already formatted.
// Routes: library import/export, single-key update, the LSP formatting request.
//
// Run: copy to crates/liwe/tests/ and
//   cargo test --offline -p liwe --test defect_1_test -- --nocapture

use std::collections::HashMap;

use liwe::graph::{Graph, GraphContext};
use liwe::model::config::MarkdownOptions;
use liwe::model::Key;

const NOTE: &str = "# Shortcuts\n\n| Key | Action |\n|---|---|\n| <Ctrl+C> | copy |\n| <Ctrl+V> | paste |\n";

fn library(text: &str) -> HashMap<String, String> {
    let mut state = HashMap::new();
    state.insert("shortcuts".to_string(), text.to_string());
    state
}

// `iwe normalize`: import the library, export it
fn normalize(text: &str, refs_extension: &str) -> String {
    Graph::import(
        &library(text),
        MarkdownOptions {
            refs_extension: refs_extension.to_string(),
        },
    )
    .export()["shortcuts"]
        .clone()
}

// what iwes answers to textDocument/formatting (Server::handle_document_formatting)
fn lsp_formatting(graph: &Graph, key: &Key) -> String {
    let mut patch = graph.new_patch();
    patch
        .build_key(key)
        .insert_from_iter(graph.collect(key).iter());
    patch.export_key(key).unwrap()
}

#[test]
fn normalize_twice_changes_nothing_the_second_time() {
    for refs_extension in ["", ".md"] {
        let once = normalize(NOTE, refs_extension);
        let twice = normalize(&once, refs_extension);
        assert_eq!(
            once, twice,
            "formatting the formatted note changed it again (refs_extension {:?})",
            refs_extension
        );
    }
}

#[test]
fn format_on_save_converges_after_one_save() {
    let key = Key::from_file_name("shortcuts");
    let mut graph = Graph::import(&library(NOTE), MarkdownOptions::default());

    // save 1: the editor applies the answer and sends the new text
    let first = lsp_formatting(&graph, &key);
    graph.update_key(key.clone(), &first);

    // save 2 must be a no-op
    let second = lsp_formatting(&graph, &key);
    assert_eq!(first, second, "the second formatting request changed the note again");
}

#[test]
fn other_angle_bracket_texts_in_cells() {
    for cell in ["<=>", "<->", "<2024-01-15 Mon>", "<1ms>", "< and >"] {
        let note = format!("| a | b |\n|---|---|\n| {} | x |\n", cell);
        let once = normalize(&note, "");
        let twice = normalize(&once, "");
        assert_eq!(once, twice, "cell {:?}", cell);
    }
}
