// Defect 2: go-to-definition resolves a link with its own path arithmetic
// (RelativePath::join, not normalised) instead of Key::from_rel_link_url: for the upward link
// that iwe itself writes from a sub-directory ("../a") the answer is file:///basepath/d/../a.md,
// which is not the URI of the note a (file:///basepath/a.md, the one every other answer of the
// server uses). KF-updir-not-folded (98af2af) folded ".." for the graph only.
//
// Property: the link text iwe writes to point at K from a note in D resolves, from D, back to
// exactly K.
//
// Run: copy to crates/iwes/tests/ and `cargo test --offline -p iwes --test defect_2_test`

use lsp_types::request::{Completion, GotoDefinition};
use lsp_types::{
    CompletionParams, GotoDefinitionParams, Position, TextDocumentIdentifier,
    TextDocumentPositionParams,
};

use fixture::uri_from;

use crate::fixture::Fixture;

mod fixture;

fn definition_uri(fixture: &Fixture, key: &str, line: u32, character: u32) -> String {
    let response = fixture.send_request::<GotoDefinition>(GotoDefinitionParams {
        text_document_position_params: TextDocumentPositionParams {
            text_document: TextDocumentIdentifier { uri: uri_from(key) },
            position: Position::new(line, character),
        },
        work_done_progress_params: Default::default(),
        partial_result_params: Default::default(),
    });
    response["uri"].as_str().unwrap_or_default().to_string()
}

#[test]
fn completion_link_written_from_a_sub_directory_resolves_to_the_note() {
    let fixture = Fixture::with_documents(vec![("a", "# A\n"), ("d/n", "# N\n\ntext\n")]);

    // the link iwe writes from d/n to the note a
    let response = fixture.send_request::<Completion>(CompletionParams {
        text_document_position: TextDocumentPositionParams {
            text_document: TextDocumentIdentifier { uri: uri_from("d/n") },
            position: Position::new(2, 0),
        },
        context: None,
        work_done_progress_params: Default::default(),
        partial_result_params: Default::default(),
    });
    let link = response["items"]
        .as_array()
        .unwrap()
        .iter()
        .map(|item| item["insertText"].as_str().unwrap().to_string())
        .find(|text| text.starts_with("[A]"))
        .unwrap();
    assert_eq!("[A](../a)", link);

    // the same link, already in the note: where does it lead?
    let text: &'static str = Box::leak(format!("# N\n\n{}\n", link).into_boxed_str());
    let fixture = Fixture::with_documents(vec![("a", "# A\n"), ("d/n", text)]);

    assert_eq!(
        uri_from("a").to_string(),
        definition_uri(&fixture, "d/n", 2, 2),
        "go-to-definition on the link written by iwe does not answer the URI of the note"
    );
}

#[test]
fn folder_note_link_resolves_to_the_note() {
    // d.md shares its name with the directory d: iwe writes the link from d/n as "../d"
    let fixture = Fixture::with_documents(vec![("d", "# D\n"), ("d/n", "# N\n\n[D](../d)\n")]);

    assert_eq!(
        uri_from("d").to_string(),
        definition_uri(&fixture, "d/n", 2, 2)
    );
}
