// Defect 3: the reader no longer takes a destination that looks like an address ("scheme:rest",
// 67426b7) or like an anchor ("#...", 502b477) for a note, but the writer still spells the
// relative link to a note with such a name bare. From the note's own directory the link to
// log-2024-01-05T10:30.md is written "log-2024-01-05T10:30", which is read back as an address
// with the scheme "log-2024-01-05T10": the completion item is no link to the note, and a block
// reference that is re-relativised into that directory (the referring note is moved there by
// rename) stops being a reference. "./log-2024-01-05T10:30" would be read as the note.
//
// Property: for any note K and any directory D, the link text iwe writes to point at K from a
// note in D resolves, from D, back to exactly K.
//
// Run: copy to crates/iwes/tests/ and `cargo test --offline -p iwes --test defect_3_test`

use std::collections::HashMap;

use liwe::graph::{Graph, GraphContext};
use liwe::model::config::MarkdownOptions;
use liwe::model::node::NodePointer;
use liwe::model::Key;
use lsp_types::request::{Completion, Rename};
use lsp_types::{
    CompletionParams, Position, RenameParams, TextDocumentIdentifier, TextDocumentPositionParams,
};

use fixture::uri_from;

use crate::fixture::Fixture;

mod fixture;

const NOTE: &str = "log-2024-01-05T10:30";

fn block_reference_keys(state: &HashMap<String, String>, key: &str) -> Vec<String> {
    let graph = Graph::import(state, MarkdownOptions::default());
    graph
        .get_block_references_in(&Key::from_file_name(key))
        .into_iter()
        .filter_map(|id| (&graph).node(id).ref_key())
        .map(|key| key.to_string())
        .collect()
}

#[test]
fn completion_item_resolves_to_the_note() {
    let documents = vec![(NOTE, "# Stand-up\n"), ("n", "# N\n\ntext\n")];
    let fixture = Fixture::with_documents(documents.clone());

    let response = fixture.send_request::<Completion>(CompletionParams {
        text_document_position: TextDocumentPositionParams {
            text_document: TextDocumentIdentifier { uri: uri_from("n") },
            position: Position::new(2, 0),
        },
        context: None,
        work_done_progress_params: Default::default(),
        partial_result_params: Default::default(),
    });
    let link = response["items"]
        .as_array()
        .unwrap()
        .iter()
        .map(|item| item["insertText"].as_str().unwrap().to_string())
        .find(|text| text.starts_with("[Stand-up]"))
        .unwrap();

    // the link inserted on a line of its own is a reference to the note
    let mut state: HashMap<String, String> = documents
        .iter()
        .map(|(key, text)| (key.to_string(), text.to_string()))
        .collect();
    state.insert("n".to_string(), format!("# N\n\n{}\n", link));

    assert_eq!(
        vec![NOTE.to_string()],
        block_reference_keys(&state, "n"),
        "the completion item {} is not read as a link to the note",
        link
    );
}

#[test]
fn block_reference_survives_the_move_of_its_note() {
    // d/n references the note at the top of the library ("../log-...": read as a note)
    let documents = vec![
        (NOTE, "# Stand-up\n"),
        ("d/n", "# N\n\n[Stand-up](../log-2024-01-05T10:30)\n"),
        ("index", "# Index\n\n[N](d/n)\n"),
    ];
    let mut state: HashMap<String, String> = documents
        .iter()
        .map(|(key, text)| (key.to_string(), text.to_string()))
        .collect();
    assert_eq!(vec![NOTE.to_string()], block_reference_keys(&state, "d/n"));

    // move d/n to the top of the library: rename at the link in index
    let fixture = Fixture::with_documents(documents);
    let edit = fixture.send_request::<Rename>(RenameParams {
        text_document_position: TextDocumentPositionParams {
            text_document: TextDocumentIdentifier { uri: uri_from("index") },
            position: Position::new(2, 2),
        },
        new_name: "n".to_string(),
        work_done_progress_params: Default::default(),
    });

    let moved = edit["documentChanges"]
        .as_array()
        .unwrap()
        .iter()
        .filter(|change| change["textDocument"]["uri"] == uri_from("n").to_string())
        .map(|change| change["edits"][0]["newText"].as_str().unwrap().to_string())
        .last()
        .expect("the text of the moved note");

    state.remove("d/n");
    state.insert("n".to_string(), moved.clone());

    assert_eq!(
        vec![NOTE.to_string()],
        block_reference_keys(&state, "n"),
        "the moved note no longer references the note: {}",
        moved
    );
}
