// Defect 1: an address that holds a space ([Page](<https://example.com/wiki/My Page>)) is taken for
// the name of a note (side effect of caedd42, "what holds white space is no address"). Alone in a
// paragraph it becomes a block reference; resolving it and writing it back from the note's
// directory folds "://" into ":/" (and, with refs_extension = ".md", appends ".md").
//
// Property: resolving a link and re-writing it from the same directory yields an equivalent link;
// formatting a note never changes what its links point to.
//
// Run: copy to crates/liwe/tests/ and `cargo test --offline -p liwe --test defect_1_test`

use std::collections::HashMap;

use liwe::graph::Graph;
use liwe::model::config::MarkdownOptions;
use liwe::model::Key;

fn format(key: &str, text: &str, refs_extension: &str) -> String {
    let mut state: HashMap<String, String> = HashMap::new();
    state.insert(key.to_string(), text.to_string());
    let graph = Graph::import(
        &state,
        MarkdownOptions {
            refs_extension: refs_extension.to_string(),
        },
    );
    graph.export_key(&Key::from_file_name(key)).unwrap()
}

#[test]
fn address_with_a_space_alone_in_a_paragraph_survives_formatting() {
    let source = "# Reading list\n\n[Page](<https://example.com/wiki/My Page>)\n";

    // the note is in a sub-directory; the same happens at the top of the library
    assert_eq!(source, format("d/n", source, ""));
}

#[test]
fn zotero_address_with_a_space_survives_formatting() {
    // the input of KF-foreign-scheme-block-reference (67426b7), with a space in the item name
    let source = "# Reading list\n\n[Zotero](<zotero://select/items/My Item>)\n";

    assert_eq!(source, format("n", source, ""));
}

#[test]
fn address_with_a_space_gets_no_refs_extension() {
    // inside a paragraph the address is kept as written, but takes the extension of notes
    let source = "# Reading list\n\nsee [Page](<https://example.com/wiki/My Page>) first\n";

    assert_eq!(source, format("d/n", source, ".md"));
}
