use liwe::graph::Graph;
use liwe::model::config::MarkdownOptions;
use liwe::model::State;
use pulldown_cmark::{Event, LinkType, Options, Parser, Tag, TagEnd};

// formats the whole library the way `iwe normalize` / textDocument/formatting do
fn format(files: &[(&str, &str)], refs_extension: &str) -> State {
    let state: State = files
        .iter()
        .map(|(key, text)| (key.to_string(), text.to_string()))
        .collect();
    Graph::import(
        &state,
        MarkdownOptions {
            refs_extension: refs_extension.to_string(),
        },
    )
    .export()
}

// every link / image of a text as (kind, destination, plain text), read with the parser and the
// options the project itself uses
fn links(markdown: &str) -> Vec<(String, String, String)> {
    let options = Options::ENABLE_YAML_STYLE_METADATA_BLOCKS
        | Options::ENABLE_WIKILINKS
        | Options::ENABLE_TABLES;
    let mut done = vec![];
    let mut open: Vec<(String, String, String)> = vec![];
    for event in Parser::new_ext(markdown, options) {
        match event {
            Event::Start(Tag::Link {
                link_type,
                dest_url,
                ..
            }) => {
                let kind = match link_type {
                    LinkType::WikiLink { has_pothole: false } => "wiki",
                    LinkType::WikiLink { has_pothole: true } => "piped-wiki",
                    _ => "link",
                };
                open.push((kind.to_string(), dest_url.to_string(), String::new()));
            }
            Event::Start(Tag::Image { dest_url, .. }) => {
                open.push(("image".to_string(), dest_url.to_string(), String::new()));
            }
            Event::End(TagEnd::Link) | Event::End(TagEnd::Image) => {
                let link = open.pop().unwrap();
                if let Some(outer) = open.last_mut() {
                    outer.2.push_str(&link.2);
                }
                done.push(link);
            }
            Event::Text(text) | Event::Code(text) | Event::InlineHtml(text) => {
                if let Some(outer) = open.last_mut() {
                    outer.2.push_str(&text);
                }
            }
            Event::SoftBreak | Event::HardBreak => {
                if let Some(outer) = open.last_mut() {
                    outer.2.push(' ');
                }
            }
            _ => {}
        }
    }
    done
}

fn link(kind: &str, destination: &str, text: &str) -> (String, String, String) {
    (kind.to_string(), destination.to_string(), text.to_string())
}

// Defect 1: a link in a table cell to a note whose title starts with "[" stops being a link.
//
// The note "b" has the (realistic) title "[WIP] Refactor". An index note links to it from a
// table cell. Formatting refreshes the link text to the title; the table writer
// (pulldown-cmark-to-cmark) escapes only the opening bracket of the text: "[\[WIP] Refactor](b)".
// The unescaped "]" now closes the link text early and the cell holds no link at all any more:
// the destination "b" is lost. The second pass then escapes the remains ("\[\[WIP\] Refactor\](b)").
#[test]
fn link_in_a_table_cell_to_a_note_whose_title_starts_with_a_bracket_stays_a_link() {
    for refs_extension in ["", ".md"] {
        let formatted = format(
            &[
                (
                    "index",
                    "# Index\n\n| note | state |\n|------|-------|\n| [refactor](b) | open |\n",
                ),
                ("b", "# [WIP] Refactor\n\nsome text\n"),
            ],
            refs_extension,
        );
        let index = &formatted["index"];
        let found: Vec<_> = links(index)
            .into_iter()
            .map(|(kind, destination, text)| {
                (kind, destination.trim_end_matches(".md").to_string(), text)
            })
            .collect();

        assert_eq!(
            vec![link("link", "b", "[WIP] Refactor")],
            found,
            "refs_extension {:?}, formatted index note:\n{}",
            refs_extension,
            index
        );
    }
}

// (a link whose own text starts with "[" survives: the parser hands that text over in pieces
// ("[", "1", "] Smith") and each piece is escaped; only the refreshed title, one string, is hit)

// outside of tables a refreshed title that starts with "[" and ends with "]" turns the ordinary
// link into a wiki link to another note: "[x](c)" -> "[[WIP]](c)" is read as "[[WIP]]" + "(c)"
#[test]
fn link_to_a_note_whose_title_is_in_brackets_is_not_retargeted() {
    let formatted = format(
        &[
            ("a", "# A\n\nsee [the draft](c) first\n"),
            ("c", "# [WIP]\n\nsome text\n"),
        ],
        "",
    );
    assert_eq!(
        vec![link("link", "c", "[WIP]")],
        links(&formatted["a"]),
        "formatted note a:\n{}",
        formatted["a"]
    );
}
