use liwe::graph::Graph;
use liwe::model::config::MarkdownOptions;
use liwe::model::State;
use pulldown_cmark::{Event, LinkType, Options, Parser, Tag, TagEnd};

// formats the whole library the way `iwe normalize` / textDocument/formatting do
fn format(files: &[(&str, &str)], refs_extension: &str) -> State {
    let state: State = files
        .iter()
        .map(|(key, text)| (key.to_string(), text.to_string()))
        .collect();
    Graph::import(
        &state,
        MarkdownOptions {
            refs_extension: refs_extension.to_string(),
        },
    )
    .export()
}

// every link / image of a text as (kind, destination, plain text), read with the parser and the
// options the project itself uses
fn links(markdown: &str) -> Vec<(String, String, String)> {
    let options = Options::ENABLE_YAML_STYLE_METADATA_BLOCKS
        | Options::ENABLE_WIKILINKS
        | Options::ENABLE_TABLES;
    let mut done = vec![];
    let mut open: Vec<(String, String, String)> = vec![];
    for event in Parser::new_ext(markdown, options) {
        match event {
            Event::Start(Tag::Link {
                link_type,
                dest_url,
                ..
            }) => {
                let kind = match link_type {
                    LinkType::WikiLink { has_pothole: false } => "wiki",
                    LinkType::WikiLink { has_pothole: true } => "piped-wiki",
                    _ => "link",
                };
                open.push((kind.to_string(), dest_url.to_string(), String::new()));
            }
            Event::Start(Tag::Image { dest_url, .. }) => {
                open.push(("image".to_string(), dest_url.to_string(), String::new()));
            }
            Event::End(TagEnd::Link) | Event::End(TagEnd::Image) => {
                let link = open.pop().unwrap();
                if let Some(outer) = open.last_mut() {
                    outer.2.push_str(&link.2);
                }
                done.push(link);
            }
            Event::Text(text) | Event::Code(text) | Event::InlineHtml(text) => {
                if let Some(outer) = open.last_mut() {
                    outer.2.push_str(&text);
                }
            }
            Event::SoftBreak | Event::HardBreak => {
                if let Some(outer) = open.last_mut() {
                    outer.2.push(' ');
                }
            }
            _ => {}
        }
    }
    done
}

fn link(kind: &str, destination: &str, text: &str) -> (String, String, String) {
    (kind.to_string(), destination.to_string(), text.to_string())
}

// Defect 3: a link to an absolute path whose text is that path is collapsed into "</path>",
// which is not an autolink (autolinks need a scheme): the link is gone, only text is left.
//
// Since the repair of KF-foreign-scheme-block-reference a destination that starts with "/" is
// "not a note"; the writer collapses every non-note link whose text equals its destination into
// "<destination>" without checking that the destination can be written as an autolink.
#[test]
fn link_to_an_absolute_path_shown_as_that_path_stays_a_link() {
    for refs_extension in ["", ".md"] {
        let formatted = format(
            &[(
                "a",
                "# Server\n\nThe configuration is in [/etc/nginx/nginx.conf](/etc/nginx/nginx.conf) on the host.\n",
            )],
            refs_extension,
        );
        assert_eq!(
            vec![link("link", "/etc/nginx/nginx.conf", "/etc/nginx/nginx.conf")],
            links(&formatted["a"]),
            "refs_extension {:?}, formatted note:\n{}",
            refs_extension,
            formatted["a"]
        );
    }
}

// the same in a table cell (the table writer has its own copy of the rule)
#[test]
fn link_to_an_absolute_path_in_a_table_cell_stays_a_link() {
    let formatted = format(
        &[(
            "a",
            "# Files\n\n| file |\n|------|\n| [/assets/handbook.pdf](/assets/handbook.pdf) |\n",
        )],
        "",
    );
    assert_eq!(
        vec![link("link", "/assets/handbook.pdf", "/assets/handbook.pdf")],
        links(&formatted["a"]),
        "formatted note:\n{}",
        formatted["a"]
    );
}

// a destination with a scheme that holds a space cannot be an autolink either
#[test]
fn link_to_a_file_url_with_a_space_shown_as_that_url_stays_a_link() {
    let formatted = format(
        &[(
            "a",
            "# Files\n\nsee [file:///home/me/my docs/x.pdf](<file:///home/me/my docs/x.pdf>) there\n",
        )],
        "",
    );
    assert_eq!(
        vec![link(
            "link",
            "file:///home/me/my docs/x.pdf",
            "file:///home/me/my docs/x.pdf"
        )],
        links(&formatted["a"]),
        "formatted note:\n{}",
        formatted["a"]
    );
}
