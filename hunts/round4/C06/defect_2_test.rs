use liwe::graph::Graph;
use liwe::model::config::MarkdownOptions;
use liwe::model::State;
use pulldown_cmark::{Event, LinkType, Options, Parser, Tag, TagEnd};

// formats the whole library the way `iwe normalize` / textDocument/formatting do
fn format(files: &[(&str, &str)], refs_extension: &str) -> State {
    let state: State = files
        .iter()
        .map(|(key, text)| (key.to_string(), text.to_string()))
        .collect();
    Graph::import(
        &state,
        MarkdownOptions {
            refs_extension: refs_extension.to_string(),
        },
    )
    .export()
}

// every link / image of a text as (kind, destination, plain text), read with the parser and the
// options the project itself uses
fn links(markdown: &str) -> Vec<(String, String, String)> {
    let options = Options::ENABLE_YAML_STYLE_METADATA_BLOCKS
        | Options::ENABLE_WIKILINKS
        | Options::ENABLE_TABLES;
    let mut done = vec![];
    let mut open: Vec<(String, String, String)> = vec![];
    for event in Parser::new_ext(markdown, options) {
        match event {
            Event::Start(Tag::Link {
                link_type,
                dest_url,
                ..
            }) => {
                let kind = match link_type {
                    LinkType::WikiLink { has_pothole: false } => "wiki",
                    LinkType::WikiLink { has_pothole: true } => "piped-wiki",
                    _ => "link",
                };
                open.push((kind.to_string(), dest_url.to_string(), String::new()));
            }
            Event::Start(Tag::Image { dest_url, .. }) => {
                open.push(("image".to_string(), dest_url.to_string(), String::new()));
            }
            Event::End(TagEnd::Link) | Event::End(TagEnd::Image) => {
                let link = open.pop().unwrap();
                if let Some(outer) = open.last_mut() {
                    outer.2.push_str(&link.2);
                }
                done.push(link);
            }
            Event::Text(text) | Event::Code(text) | Event::InlineHtml(text) => {
                if let Some(outer) = open.last_mut() {
                    outer.2.push_str(&text);
                }
            }
            Event::SoftBreak | Event::HardBreak => {
                if let Some(outer) = open.last_mut() {
                    outer.2.push(' ');
                }
            }
            _ => {}
        }
    }
    done
}

fn link(kind: &str, destination: &str, text: &str) -> (String, String, String) {
    (kind.to_string(), destination.to_string(), text.to_string())
}

// Defect 2: a link with an empty destination (or "." ) that stands alone in a paragraph of a note
// in a sub-directory is retargeted to "../<directory name>", and takes over the title of a note
// of that name when there is one.
//
// "[todo]()" is what one types as a placeholder before the destination is known. Alone in a
// paragraph it is a block reference; its key is resolved to the directory of the note ("d"), and
// the writer (since the repair of KF-folder-note-empty-destination) spells the key "d" from
// inside "d" as "../d".
#[test]
fn placeholder_link_with_empty_destination_keeps_its_destination() {
    for refs_extension in ["", ".md"] {
        let formatted = format(
            &[("d/n", "# N\n\n[todo]()\n\nsome text\n")],
            refs_extension,
        );
        assert_eq!(
            vec![link("link", "", "todo")],
            links(&formatted["d/n"]),
            "refs_extension {:?}, formatted note d/n:\n{}",
            refs_extension,
            formatted["d/n"]
        );
    }
}

// with a note "d" next to the directory "d" the placeholder even gets that note's title
#[test]
fn placeholder_link_with_empty_destination_is_not_given_to_another_note() {
    let formatted = format(
        &[
            ("d/n", "# N\n\n[todo]()\n\nsome text\n"),
            ("d", "# Projects\n"),
        ],
        "",
    );
    assert_eq!(
        vec![link("link", "", "todo")],
        links(&formatted["d/n"]),
        "formatted note d/n:\n{}",
        formatted["d/n"]
    );
}

// the same inline (not alone in its paragraph) is left alone, which shows what is expected
#[test]
fn inline_placeholder_link_is_kept() {
    let formatted = format(&[("d/n", "# N\n\nsee [todo]() later\n")], "");
    assert_eq!(vec![link("link", "", "todo")], links(&formatted["d/n"]));
}
