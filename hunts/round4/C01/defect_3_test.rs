// Defect 3: an image inside the text of an INLINE link to a note is deleted when the link's text
// is refreshed with the note's title.
//
// GraphInline::normalize replaces ALL the inlines of a link to an existing, titled note by one
// Str(title). A clickable thumbnail "[![architecture](img/arch-small.png)](architecture)" in a
// sentence, list item, heading or table cell therefore comes back as "[Architecture](architecture)":
// the image and its destination are gone. Refreshing the title may change the link's words; it
// must not delete an image (the property lists image destinations among what is kept).
//
// (The open finding "an image inside the text of a block reference is dropped" is about a link
// that is alone in its paragraph: there the graph keeps only the plain text of the reference,
// whether or not the note exists. This one is the refresh of links inside running text and needs
// the target note to exist.)
//
// Run: copy to crates/liwe/tests/ and `cargo test --offline -p liwe --test defect_3_test`
use liwe::graph::Graph;
use liwe::model::config::MarkdownOptions;
use liwe::model::State;
use pulldown_cmark::{Event, Options, Parser, Tag};

fn options() -> Options {
    Options::ENABLE_YAML_STYLE_METADATA_BLOCKS | Options::ENABLE_WIKILINKS | Options::ENABLE_TABLES
}

fn image_destinations(text: &str) -> Vec<String> {
    Parser::new_ext(text, options())
        .filter_map(|event| match event {
            Event::Start(Tag::Image { dest_url, .. }) => Some(dest_url.to_string()),
            _ => None,
        })
        .collect()
}

// `iwe normalize` on a library of two notes
fn normalize_library(note: &str, refs_extension: &str) -> String {
    let mut state = State::new();
    state.insert("overview".to_string(), note.to_string());
    state.insert(
        "architecture".to_string(),
        "# Architecture\n\nThe parts.\n".to_string(),
    );
    let graph = Graph::import(
        &state,
        MarkdownOptions {
            refs_extension: refs_extension.to_string(),
        },
    );
    graph.export().get("overview").unwrap().clone()
}

const NOTE: &str = "\
# Overview

The system: [![architecture thumbnail](img/arch-small.png)](architecture) shows the parts.

- details: [![chart](img/chart.png) the chart](architecture)

| diagram |
|---------|
| [![cell](img/cell.png)](architecture) |
";

#[test]
fn images_inside_refreshed_links_survive() {
    for refs_extension in ["", ".md"] {
        let output = normalize_library(NOTE, refs_extension);
        println!("{}", output);

        assert_eq!(
            vec!["img/arch-small.png", "img/chart.png", "img/cell.png"],
            image_destinations(NOTE)
        );
        // fails: no image is left, e.g. "The system: [Architecture](architecture) shows the parts."
        assert_eq!(image_destinations(NOTE), image_destinations(&output));
    }
}

#[test]
fn the_image_is_kept_while_the_target_does_not_exist() {
    // the same note without the target: nothing is refreshed and the images stay - the loss
    // depends on the rest of the library
    let mut state = State::new();
    state.insert("overview".to_string(), NOTE.to_string());
    let graph = Graph::import(&state, MarkdownOptions::default());
    let output = graph.export().get("overview").unwrap().clone();

    assert_eq!(image_destinations(NOTE), image_destinations(&output));
}
