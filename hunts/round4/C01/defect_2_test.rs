// Defect 2: a link whose text equals its destination is collapsed to "<destination>" even when
// that is not an autolink, so the link stops being a link.
//
// GraphInline::to_markdown (and the table writer in markdown/writer.rs) write a link that is not
// a note reference and whose text equals its url as "<url>". Since absolute paths count as "not a
// note" (is_ref_url, repair KF-foreign-scheme-block-reference), "[/docs/setup](/docs/setup)"
// becomes "</docs/setup>", which CommonMark does not read as a link (an autolink needs a scheme):
// the link and its destination are lost, the text is left with stray angle brackets. The same
// happens for protocol-relative addresses ("//cdn.example.com/x.js") and for an address with a
// scheme that holds a space ("[http://a.b/c d](<http://a.b/c d>)").
//
// Run: copy to crates/liwe/tests/ and `cargo test --offline -p liwe --test defect_2_test`
use liwe::graph::Graph;
use liwe::markdown::MarkdownReader;
use pulldown_cmark::{Event, Options, Parser, Tag};

fn normalize(text: &str) -> String {
    let mut graph = Graph::new();
    graph.from_markdown("key".into(), text, MarkdownReader::new());
    graph.to_markdown(&"key".into())
}

fn options() -> Options {
    Options::ENABLE_YAML_STYLE_METADATA_BLOCKS | Options::ENABLE_WIKILINKS | Options::ENABLE_TABLES
}

fn link_destinations(text: &str) -> Vec<String> {
    Parser::new_ext(text, options())
        .filter_map(|event| match event {
            Event::Start(Tag::Link { dest_url, .. }) => Some(dest_url.to_string()),
            _ => None,
        })
        .collect()
}

#[test]
fn link_to_an_absolute_path_named_by_its_path_stays_a_link() {
    let input = "The endpoint is documented at [/docs/api/users](/docs/api/users).\n";
    let output = normalize(input);
    println!("{}", output);

    assert_eq!(vec!["/docs/api/users"], link_destinations(input));
    // fails: no link at all in "The endpoint is documented at </docs/api/users>."
    assert_eq!(link_destinations(input), link_destinations(&output));
}

#[test]
fn the_same_inside_a_table_cell() {
    let input = "\
| file | purpose |
|------|---------|
| [/etc/hosts](/etc/hosts) | host names |
";
    let output = normalize(input);
    println!("{}", output);

    assert_eq!(vec!["/etc/hosts"], link_destinations(input));
    // fails: the cell holds the text "</etc/hosts>"
    assert_eq!(link_destinations(input), link_destinations(&output));
}

#[test]
fn protocol_relative_address_stays_a_link() {
    let input = "Load [//cdn.example.com/lib.js](//cdn.example.com/lib.js) first.\n";
    let output = normalize(input);
    println!("{}", output);

    assert_eq!(vec!["//cdn.example.com/lib.js"], link_destinations(input));
    assert_eq!(link_destinations(input), link_destinations(&output));
}
