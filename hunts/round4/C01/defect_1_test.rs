// Defect 1: the start number of an ordered list is thrown away.
//
// Every ordered list is written back starting at "1.", whatever number it started with in the
// note (GraphBlock::OrderedList carries no start number; left_pad_and_prefix_num counts from 1).
// A how-to whose steps are interrupted by a paragraph or an unindented code block therefore has
// every step relabelled "1."; a line such as "1986. A great year" (an ordered list that starts at
// 1986 for CommonMark) loses the year altogether.
//
// Run: copy to crates/liwe/tests/ and `cargo test --offline -p liwe --test defect_1_test`
use liwe::graph::Graph;
use liwe::markdown::MarkdownReader;
use pulldown_cmark::{Event, Options, Parser, Tag};

fn normalize(text: &str) -> String {
    let mut graph = Graph::new();
    graph.from_markdown("key".into(), text, MarkdownReader::new());
    graph.to_markdown(&"key".into())
}

fn options() -> Options {
    Options::ENABLE_YAML_STYLE_METADATA_BLOCKS | Options::ENABLE_WIKILINKS | Options::ENABLE_TABLES
}

// the number each ordered list of the document starts with
fn list_starts(text: &str) -> Vec<u64> {
    Parser::new_ext(text, options())
        .filter_map(|event| match event {
            Event::Start(Tag::List(Some(start))) => Some(start),
            _ => None,
        })
        .collect()
}

#[test]
fn steps_interrupted_by_a_paragraph_keep_their_numbers() {
    let input = "\
# Setup

1. Install the tool

Some explanation between the steps.

2. Run it
3. Check the result
";
    let output = normalize(input);
    println!("{}", output);

    assert_eq!(vec![1, 2], list_starts(input));
    // fails: [1, 1] - step 2 is now called step 1, step 3 is called step 2
    assert_eq!(list_starts(input), list_starts(&output));
}

#[test]
fn steps_interrupted_by_code_blocks_keep_their_numbers() {
    let input = "\
1. Install:

```sh
cargo install iwe
```

2. Initialise:

```sh
iwe init
```

3. Normalise:

```sh
iwe normalize
```
";
    let output = normalize(input);
    println!("{}", output);

    assert_eq!(vec![1, 2, 3], list_starts(input));
    // fails: [1, 1, 1]
    assert_eq!(list_starts(input), list_starts(&output));
}

#[test]
fn a_year_that_opens_a_line_is_not_deleted() {
    // for CommonMark this is an ordered list that starts at 1986; the number is all that is
    // left of the word "1986" and it is replaced by "1"
    let input = "1986. A great year for film.\n";
    let output = normalize(input);
    println!("{}", output);

    // fails: "1.  A great year for film.\n"
    assert!(output.contains("1986"), "the year is gone: {:?}", output);
}
