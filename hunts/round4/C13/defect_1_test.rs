// Defect 1: the last line of a code block that has no closing-fence line (a fence still being
// typed at the end of the note, or an indented code block that ends the note) belongs to no block
// when the note has no final newline: code actions offered on every other line of the same code
// block are not offered there.
//
// Property: "code actions offered at a line operate on the block that covers that line".
// Both code lines are covered by the same code block (inside the same list), so what is offered on
// one must be offered on the other.

use lsp_types::request::CodeActionRequest;
use lsp_types::{CodeActionParams, Position, Range, TextDocumentIdentifier};
use serde_json::Value;

use crate::fixture::{uri_from, Fixture};

mod fixture;

fn titles_at(fixture: &Fixture, key: &str, line: u32) -> Vec<String> {
    let actual: Value = fixture.send_request::<CodeActionRequest>(CodeActionParams {
        text_document: TextDocumentIdentifier { uri: uri_from(key) },
        range: Range::new(Position::new(line, 0), Position::new(line, 0)),
        work_done_progress_params: Default::default(),
        partial_result_params: Default::default(),
        context: Default::default(),
    });
    actual
        .as_array()
        .unwrap()
        .iter()
        .map(|action| {
            format!(
                "{} -> node {}",
                action["title"].as_str().unwrap(),
                action["data"]
            )
        })
        .collect()
}

// a fenced block that is being typed at the end of the note (no closing fence yet)
#[test]
fn last_line_of_a_fence_being_typed() {
    let text = "# Build\n\n- compile:\n\n  ```sh\n  make\n  make install";
    //           0         2             4        5       6
    let fixture = Fixture::with_documents(vec![("note", text)]);

    let on_first_code_line = titles_at(&fixture, "note", 5);
    let on_last_code_line = titles_at(&fixture, "note", 6);

    assert!(
        !on_first_code_line.is_empty(),
        "the code block inside the list offers the list actions"
    );
    assert_eq!(
        on_first_code_line, on_last_code_line,
        "both lines belong to the same code block"
    );
}

// an indented code block that ends the note
#[test]
fn last_line_of_an_indented_block() {
    let text = "# Build\n\n- compile:\n\n      make\n      make install";
    //           0         2             4           5
    let fixture = Fixture::with_documents(vec![("note", text)]);

    let on_first_code_line = titles_at(&fixture, "note", 4);
    let on_last_code_line = titles_at(&fixture, "note", 5);

    assert!(!on_first_code_line.is_empty());
    assert_eq!(on_first_code_line, on_last_code_line);
}

// the same notes with a final newline: every code line answers alike (passes on the unchanged code)
#[test]
fn with_a_final_newline_every_code_line_answers_alike() {
    let text = "# Build\n\n- compile:\n\n      make\n      make install\n";
    let fixture = Fixture::with_documents(vec![("note", text)]);

    assert_eq!(titles_at(&fixture, "note", 4), titles_at(&fixture, "note", 5));
}
