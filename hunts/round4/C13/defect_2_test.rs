// Defect 2: prepareRename decides how to find the destination of the link under the cursor by
// looking at the first two characters of the link's source ("[[" = wiki link) instead of at the
// kind of link the parser reported. An ordinary link whose TEXT starts with a bracket
// ("[[WIP] Roadmap](roadmap)", "[[1] Smith 2020](smith2020)") is therefore searched like a wiki
// link: the answer is null (editors then refuse to rename at all), or - when the bracketed word
// happens to read like the destination - a range inside the link text, not the destination.
//
// Property: "prepare-rename ... act on a link exactly when the cursor is inside that link's source
// span"; "every location returned (... rename range) names [...] where that [...] link really is".

use lsp_types::request::{Formatting, GotoDefinition};
use lsp_types::{
    DocumentFormattingParams, GotoDefinitionParams, Position, PrepareRenameResponse, Range,
    TextDocumentIdentifier, TextDocumentPositionParams,
};
use serde_json::Value;

use crate::fixture::{uri_from, Fixture};

mod fixture;

fn position_params(key: &str, line: u32, character: u32) -> TextDocumentPositionParams {
    TextDocumentPositionParams {
        text_document: TextDocumentIdentifier { uri: uri_from(key) },
        position: Position::new(line, character),
    }
}

// the link is an ordinary link to the note "roadmap" (go-to-definition agrees), so prepareRename
// has to answer with the range of its destination
#[test]
fn link_text_that_starts_with_a_bracket() {
    //          0         1         2
    //          012345678901234567890123
    let text = "[[WIP] Roadmap](roadmap)\n";
    let fixture = Fixture::with_documents(vec![
        ("index", text),
        ("roadmap", "# [WIP] Roadmap\n"),
    ]);

    // the server itself reads this as a link to roadmap at every position of the span
    for character in [0, 1, 7, 16, 23] {
        let definition: Value = fixture.send_request::<GotoDefinition>(GotoDefinitionParams {
            text_document_position_params: position_params("index", 0, character),
            work_done_progress_params: Default::default(),
            partial_result_params: Default::default(),
        });
        assert_eq!(
            definition["uri"].as_str(),
            Some(uri_from("roadmap").as_str()),
            "go-to-definition at column {character}"
        );
    }

    for character in [0, 1, 7, 16, 23] {
        fixture.prepare_rename(
            position_params("index", 0, character),
            PrepareRenameResponse::RangeWithPlaceholder {
                range: Range::new(Position::new(0, 16), Position::new(0, 23)),
                placeholder: "roadmap".to_string(),
            },
        );
    }
}

// the bracketed word reads like the destination: a range is answered, but it lies in the text
#[test]
fn bracketed_word_equal_to_the_destination() {
    //          0         1         2
    //          01234567890123456789012345
    let text = "[[roadmap] notes](roadmap)\n";
    let fixture = Fixture::with_documents(vec![("index", text), ("roadmap", "# Roadmap\n")]);

    fixture.prepare_rename(
        position_params("index", 0, 20),
        PrepareRenameResponse::RangeWithPlaceholder {
            range: Range::new(Position::new(0, 18), Position::new(0, 25)),
            placeholder: "roadmap".to_string(),
        },
    );
}

// how a user gets such links without typing them: the server writes the title of the target into
// every block reference, so a note titled "[WIP] Roadmap" turns its references into this shape
// (this part passes on the unchanged code; it shows where the input comes from)
#[test]
fn the_server_writes_such_links_itself() {
    let fixture = Fixture::with_documents(vec![
        ("index", "# Index\n\n[old title](roadmap)\n"),
        ("roadmap", "# [WIP] Roadmap\n"),
    ]);

    let edits: Value = fixture.send_request::<Formatting>(DocumentFormattingParams {
        text_document: TextDocumentIdentifier { uri: uri_from("index") },
        options: Default::default(),
        work_done_progress_params: Default::default(),
    });

    assert_eq!(
        edits[0]["newText"].as_str(),
        Some("# Index\n\n[[WIP] Roadmap](roadmap)\n")
    );
}
