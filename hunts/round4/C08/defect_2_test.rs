// DEFECT 2 (C08): renaming a note into (or out of) a sub-directory rewrites the links of the
// moved note that are not links to notes at all: a paragraph that holds only an anchor link
// "[Back to top](#top)" (or "[[#Top]]", "[q](?x=1)") is read as a block reference to the key
// "<dir>/#top" and is re-relativised on export: "[Back to top](../#top)" / "[Back to top](d/#top)".
// The property demands that every other link is untouched and the content of the note unchanged.
#![allow(dead_code, unused_imports)]
use std::cell::Cell;
use std::collections::{BTreeMap, HashMap};
use std::time::Duration;

use lsp_server::{Connection, Message, Notification, Request, ResponseError};
use lsp_types::*;
use serde_json::Value;

use iwes::{main_loop, ServerParams};
use liwe::graph::Reader;
use liwe::markdown::MarkdownReader;
use liwe::model::config::{Configuration, MarkdownOptions};
use liwe::model::document::{DocumentBlock, DocumentInline, LinkType};
use liwe::model::Key;

pub type Library = BTreeMap<String, String>;

pub struct Srv {
    req_id: Cell<i32>,
    client: Connection,
    _thread: std::thread::JoinHandle<()>,
}

pub fn lib(notes: &[(&str, &str)]) -> Library {
    notes
        .iter()
        .map(|(k, v)| (k.to_string(), v.to_string()))
        .collect()
}

pub fn url_of(key: &str) -> Url {
    Url::from_file_path(format!("/basepath/{}.md", key)).unwrap()
}

pub fn key_of(url: &Url) -> String {
    let path = url.to_file_path().unwrap().to_string_lossy().to_string();
    path.trim_start_matches("/basepath/")
        .trim_end_matches(".md")
        .to_string()
}

impl Srv {
    pub fn new(library: &Library, configuration: Configuration) -> Srv {
        let (connection, client) = Connection::memory();
        let state: HashMap<String, String> =
            library.iter().map(|(k, v)| (k.clone(), v.clone())).collect();
        let _thread = std::thread::Builder::new()
            .name("test server".to_owned())
            .spawn(move || {
                main_loop(
                    connection,
                    ServerParams {
                        state: Some(state),
                        client_name: None,
                        sequential_ids: Some(true),
                        base_path: "/basepath".to_string(),
                        configuration,
                    },
                )
                .unwrap()
            })
            .unwrap();
        Srv {
            req_id: Cell::new(1),
            client,
            _thread,
        }
    }

    pub fn request(&self, method: &str, params: Value) -> Result<Value, ResponseError> {
        let id = self.req_id.get();
        self.req_id.set(id + 1);
        let request = Request::new(id.into(), method.to_string(), params);
        self.client.sender.send(request.into()).unwrap();
        loop {
            let message = self
                .client
                .receiver
                .recv_timeout(Duration::from_secs(60))
                .expect("a response");
            if let Message::Response(response) = message {
                assert_eq!(response.id, id.into());
                return match response.error {
                    Some(error) => Err(error),
                    None => Ok(response.result.unwrap_or(Value::Null)),
                };
            }
        }
    }

    pub fn notify(&self, method: &str, params: Value) {
        self.client
            .sender
            .send(Message::Notification(Notification::new(
                method.to_string(),
                params,
            )))
            .unwrap();
    }

    pub fn did_change(&self, key: &str, text: &str) {
        self.notify(
            "textDocument/didChange",
            serde_json::to_value(DidChangeTextDocumentParams {
                text_document: VersionedTextDocumentIdentifier {
                    uri: url_of(key),
                    version: 2,
                },
                content_changes: vec![TextDocumentContentChangeEvent {
                    range: None,
                    range_length: None,
                    text: text.to_string(),
                }],
            })
            .unwrap(),
        );
    }

    pub fn rename(
        &self,
        key: &str,
        line: u32,
        character: u32,
        new_name: &str,
    ) -> Result<Option<WorkspaceEdit>, ResponseError> {
        self.request(
            "textDocument/rename",
            serde_json::to_value(RenameParams {
                text_document_position: TextDocumentPositionParams {
                    text_document: TextDocumentIdentifier { uri: url_of(key) },
                    position: Position::new(line, character),
                },
                new_name: new_name.to_string(),
                work_done_progress_params: Default::default(),
            })
            .unwrap(),
        )
        .map(|value| serde_json::from_value(value).unwrap())
    }

    pub fn definition(&self, key: &str, line: u32, character: u32) -> Value {
        self.request(
            "textDocument/definition",
            serde_json::to_value(GotoDefinitionParams {
                text_document_position_params: TextDocumentPositionParams {
                    text_document: TextDocumentIdentifier { uri: url_of(key) },
                    position: Position::new(line, character),
                },
                work_done_progress_params: Default::default(),
                partial_result_params: Default::default(),
            })
            .unwrap(),
        )
        .unwrap()
    }
}

impl Drop for Srv {
    fn drop(&mut self) {
        let _ = self.request("shutdown", Value::Null);
        self.notify("exit", Value::Null);
    }
}

// what an editor does with the workspace edit
pub fn apply(library: &Library, edit: &WorkspaceEdit) -> Library {
    let mut result = library.clone();
    let operations = match edit.document_changes.clone().expect("document changes") {
        DocumentChanges::Operations(operations) => operations,
        DocumentChanges::Edits(edits) => edits
            .into_iter()
            .map(DocumentChangeOperation::Edit)
            .collect(),
    };
    for operation in operations {
        match operation {
            DocumentChangeOperation::Op(ResourceOp::Create(create)) => {
                let key = key_of(&create.uri);
                let overwrite = create
                    .options
                    .as_ref()
                    .and_then(|o| o.overwrite)
                    .unwrap_or(false);
                if result.contains_key(&key) && !overwrite {
                    panic!("create of an existing file {}", key);
                }
                result.insert(key, String::new());
            }
            DocumentChangeOperation::Op(ResourceOp::Delete(delete)) => {
                let key = key_of(&delete.uri);
                assert!(result.remove(&key).is_some(), "delete of a missing file {}", key);
            }
            DocumentChangeOperation::Op(ResourceOp::Rename(_)) => panic!("not expected"),
            DocumentChangeOperation::Edit(edit) => {
                let key = key_of(&edit.text_document.uri);
                let old = result.get(&key).expect(&format!("edit of a missing file {}", key)).clone();
                assert_eq!(edit.edits.len(), 1);
                let text_edit = match &edit.edits[0] {
                    OneOf::Left(edit) => edit.clone(),
                    OneOf::Right(edit) => edit.text_edit.clone(),
                };
                assert_eq!(text_edit.range.start, Position::new(0, 0));
                if text_edit.range.end == Position::new(0, 0) {
                    result.insert(key, format!("{}{}", text_edit.new_text, old));
                } else {
                    assert!(text_edit.range.end.line as usize > old.lines().count());
                    result.insert(key, text_edit.new_text);
                }
            }
        }
    }
    result
}

#[derive(Debug, Clone, PartialEq)]
pub struct FoundLink {
    pub url: String,
    pub text: String,
    pub wiki: bool,
    // the key the link resolves to from the note it is written in
    pub target: String,
    pub range: (usize, usize, usize, usize),
    pub in_table: bool,
}

fn inline_links(inline: &DocumentInline, parent: &str, out: &mut Vec<FoundLink>) {
    inline_links_t(inline, parent, out, false)
}

fn inline_links_t(inline: &DocumentInline, parent: &str, out: &mut Vec<FoundLink>, in_table: bool) {
    if let DocumentInline::Link(link) = inline {
        out.push(FoundLink {
            url: link.target.url.clone(),
            text: inline.to_plain_text(),
            wiki: link.link_type != LinkType::Regular,
            target: Key::from_rel_link_url(&link.target.url, parent).to_string(),
            range: (
                link.inline_range.start.line,
                link.inline_range.start.character,
                link.inline_range.end.line,
                link.inline_range.end.character,
            ),
            in_table,
        });
    }
    for child in inline.child_inlines() {
        inline_links_t(child, parent, out, in_table);
    }
}

fn block_links(block: &DocumentBlock, parent: &str, out: &mut Vec<FoundLink>) {
    match block {
        DocumentBlock::Plain(b) => b.inlines.iter().for_each(|i| inline_links(i, parent, out)),
        DocumentBlock::Para(b) => b.inlines.iter().for_each(|i| inline_links(i, parent, out)),
        DocumentBlock::Header(b) => b.inlines.iter().for_each(|i| inline_links(i, parent, out)),
        DocumentBlock::BlockQuote(b) => b.blocks.iter().for_each(|b| block_links(b, parent, out)),
        DocumentBlock::Div(b) => b.blocks.iter().for_each(|b| block_links(b, parent, out)),
        DocumentBlock::BulletList(l) => l
            .items
            .iter()
            .flatten()
            .for_each(|b| block_links(b, parent, out)),
        DocumentBlock::OrderedList(l) => l
            .items
            .iter()
            .flatten()
            .for_each(|b| block_links(b, parent, out)),
        DocumentBlock::Table(t) => t
            .header
            .iter()
            .chain(t.rows.iter().flatten())
            .flatten()
            .for_each(|i| inline_links_t(i, parent, out, true)),
        _ => {}
    }
}

// every link of a note, in document order, as the project's own reader sees it
pub fn links(key: &str, text: &str) -> Vec<FoundLink> {
    let parent = Key::from_file_name(key).parent();
    let document = MarkdownReader::new().document(text);
    let mut out = vec![];
    document
        .blocks
        .iter()
        .for_each(|block| block_links(block, &parent, &mut out));
    out
}

pub fn dump(library: &Library) {
    for (key, text) in library {
        println!("=== {} ===\n{}", key, text);
    }
}


fn rename_and_apply(
    library: &Library,
    from: &str,
    line: u32,
    character: u32,
    new_name: &str,
) -> Library {
    let srv = Srv::new(library, Configuration::default());
    let edit = srv
        .rename(from, line, character, new_name)
        .expect("no error")
        .expect("an edit");
    apply(library, &edit)
}

#[test]
fn anchor_link_of_a_note_moved_into_a_directory_is_untouched() {
    let library = lib(&[
        ("index", "# Index\n\n[Old](old)\n"),
        (
            "old",
            "# Old\n\n## Summary\n\ntext\n\n## Details\n\nmore text\n\n[Back to summary](#summary)\n",
        ),
    ]);

    let after = rename_and_apply(&library, "index", 2, 3, "archive/old");

    assert!(after.contains_key("archive/old"));
    assert!(!after.contains_key("old"));
    assert_eq!(
        vec!["#summary".to_string()],
        links("archive/old", &after["archive/old"])
            .into_iter()
            .map(|link| link.url)
            .collect::<Vec<_>>(),
        "the anchor link is not a link to a note and must stay as written; the note is now:\n{}",
        after["archive/old"]
    );
    assert_eq!(library["old"], after["archive/old"], "content unchanged");
}

#[test]
fn anchor_links_of_a_note_moved_out_of_a_directory_are_untouched() {
    let library = lib(&[
        ("index", "# Index\n\n[Old](d/old)\n"),
        (
            "d/old",
            "# Old\n\n[Jump to details](#details)\n\n## Details\n\ntext\n\n[[#Details]]\n",
        ),
    ]);

    let after = rename_and_apply(&library, "index", 2, 3, "old");

    assert!(after.contains_key("old"));
    assert!(!after.contains_key("d/old"));
    assert_eq!(
        vec!["#details".to_string(), "#Details".to_string()],
        links("old", &after["old"])
            .into_iter()
            .map(|link| link.url)
            .collect::<Vec<_>>(),
        "anchor links must stay as written; the note is now:\n{}",
        after["old"]
    );
}
