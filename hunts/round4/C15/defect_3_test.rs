// C15 hunt, defect 3 (crate: iwes; copy to crates/iwes/tests/defect_3_test.rs)
//
// A destination that holds a space is written between angle brackets (repairs
// KF-destination-with-space / KF-completion-space-destination), but what is put between the
// brackets is not escaped. Inside "<...>" a ">" (and a "<") ends / breaks the destination, so a
// note whose name holds a space and a ">" - "Input -> Output.md", "cause => effect.md",
// "Q3 > Q2.md" - is written "[Flow](<Input -> Output>)", which is no link at all:
//
//  - the completion item for the note, inserted into a note, is plain text (no reference);
//  - a block reference that resolves to the note (hand-written with the escape CommonMark asks
//    for, "[Flow](<Input -\> Output>)") is rewritten by the formatter to the broken form: after
//    formatting, the note in the sub-directory no longer points to the note.
//
// The same happens without a space for names with an unbalanced parenthesis ("f(x.md" ->
// "[t](f(x)") and for names with a tab; wiki links ("[[Input -> Output]]") are not affected.

use lsp_types::notification::DidChangeTextDocument;
use lsp_types::request::{Completion, Formatting, References};
use lsp_types::{
    CompletionParams, DidChangeTextDocumentParams, DocumentFormattingParams, Position,
    ReferenceContext, ReferenceParams, TextDocumentContentChangeEvent, TextDocumentIdentifier,
    TextDocumentPositionParams, VersionedTextDocumentIdentifier,
};
use serde_json::Value;

use fixture::{uri_from, Fixture};

mod fixture;

fn position(key: &str) -> TextDocumentPositionParams {
    TextDocumentPositionParams {
        text_document: TextDocumentIdentifier { uri: uri_from(key) },
        position: Position::new(0, 0),
    }
}

fn completion_insert_texts(fixture: &Fixture, key: &str) -> Vec<String> {
    let response: Value = fixture.send_request::<Completion>(CompletionParams {
        text_document_position: position(key),
        context: None,
        work_done_progress_params: Default::default(),
        partial_result_params: Default::default(),
    });
    response["items"]
        .as_array()
        .unwrap()
        .iter()
        .map(|item| item["insertText"].as_str().unwrap().to_string())
        .collect()
}

// (file, line) of every place iwe knows to refer to the note
fn references_to(fixture: &Fixture, key: &str) -> Vec<(String, u64)> {
    let response: Value = fixture.send_request::<References>(ReferenceParams {
        text_document_position: position(key),
        context: ReferenceContext {
            include_declaration: false,
        },
        work_done_progress_params: Default::default(),
        partial_result_params: Default::default(),
    });
    response
        .as_array()
        .unwrap()
        .iter()
        .map(|location| {
            (
                location["uri"].as_str().unwrap().to_string(),
                location["range"]["start"]["line"].as_u64().unwrap(),
            )
        })
        .collect()
}

fn edit(fixture: &Fixture, key: &str, text: String) {
    fixture.notification::<DidChangeTextDocument>(DidChangeTextDocumentParams {
        text_document: VersionedTextDocumentIdentifier {
            uri: uri_from(key),
            version: 2,
        },
        content_changes: vec![TextDocumentContentChangeEvent {
            range: None,
            range_length: None,
            text,
        }],
    });
}

fn formatted(fixture: &Fixture, key: &str) -> String {
    let response: Value = fixture.send_request::<Formatting>(DocumentFormattingParams {
        text_document: TextDocumentIdentifier { uri: uri_from(key) },
        options: Default::default(),
        work_done_progress_params: Default::default(),
    });
    response[0]["newText"].as_str().unwrap().to_string()
}

#[test]
fn completion_item_for_a_note_named_with_a_space_and_an_angle_bracket_refers_to_that_note() {
    let fixture = Fixture::with_documents(vec![
        ("flows/index", "# Index\n"),
        ("flows/Input -> Output", "# Flow\n"),
    ]);

    // the link iwe writes to point at "flows/Input -> Output" from a note in "flows"
    let link = completion_insert_texts(&fixture, "flows/index")
        .into_iter()
        .find(|text| text.starts_with("[Flow]"))
        .expect("a completion item for the note");

    // the user accepts the item on a line of its own
    edit(&fixture, "flows/index", format!("# Index\n\n{}\n", link));

    assert_eq!(
        vec![(uri_from("flows/index").to_string(), 2)],
        references_to(&fixture, "flows/Input -> Output"),
        "references to the note after inserting the completion item {}",
        link
    );
}

#[test]
fn formatting_keeps_a_block_reference_to_a_note_named_with_a_space_and_an_angle_bracket() {
    let fixture = Fixture::with_documents(vec![
        ("flows/index", "# Index\n\n[Flow](<Input -\\> Output>)\n"),
        ("flows/Input -> Output", "# Flow\n"),
    ]);

    // as written by hand the block reference points at the note
    assert_eq!(
        vec![(uri_from("flows/index").to_string(), 2)],
        references_to(&fixture, "flows/Input -> Output"),
        "references before formatting"
    );

    // format the note and put the result in place
    let text = formatted(&fixture, "flows/index");
    edit(&fixture, "flows/index", text.clone());

    assert_eq!(
        vec![(uri_from("flows/index").to_string(), 2)],
        references_to(&fixture, "flows/Input -> Output"),
        "references after formatting, which wrote:\n{}",
        text
    );
}
