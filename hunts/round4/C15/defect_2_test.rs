// C15 hunt, defect 2 (crate: iwes; copy to crates/iwes/tests/defect_2_test.rs)
//
// A note whose file name starts with a word and a colon ("Re: budget.md", "TODO: refactor.md",
// "ADR-7: storage.md"; such names are ordinary on Linux and macOS) cannot be linked from its own
// directory with what iwe writes. The relative url of the note is its bare name, "Re: budget";
// is_ref_url()/has_scheme() (added by the repair KF-foreign-scheme-block-reference) read "Re:" as
// a url scheme, so the link iwe has just written is taken for an external address:
//
//  - the completion item for the note, "[Budget](<Re: budget>)", inserted into a note of the same
//    directory, is no reference to the note (no backlink, no inlay hint, nothing to inline/rename);
//  - a block reference that does resolve to the note, "[Budget](<./Re: budget>)", is rewritten
//    by the formatter to "[Budget](<Re: budget>)": formatting changes what the note points to.
//
// From any other directory the written url has a "/" before the colon ("../topics/Re: budget",
// "topics/Re: budget") and resolves: only links from the note's own directory break, which is
// where "./" has to be written.

use lsp_types::notification::DidChangeTextDocument;
use lsp_types::request::{Completion, Formatting, References};
use lsp_types::{
    CompletionParams, DidChangeTextDocumentParams, DocumentFormattingParams, Position,
    ReferenceContext, ReferenceParams, TextDocumentContentChangeEvent, TextDocumentIdentifier,
    TextDocumentPositionParams, VersionedTextDocumentIdentifier,
};
use serde_json::Value;

use fixture::{uri_from, Fixture};

mod fixture;

fn position(key: &str) -> TextDocumentPositionParams {
    TextDocumentPositionParams {
        text_document: TextDocumentIdentifier { uri: uri_from(key) },
        position: Position::new(0, 0),
    }
}

fn completion_insert_texts(fixture: &Fixture, key: &str) -> Vec<String> {
    let response: Value = fixture.send_request::<Completion>(CompletionParams {
        text_document_position: position(key),
        context: None,
        work_done_progress_params: Default::default(),
        partial_result_params: Default::default(),
    });
    response["items"]
        .as_array()
        .unwrap()
        .iter()
        .map(|item| item["insertText"].as_str().unwrap().to_string())
        .collect()
}

// (file, line) of every place iwe knows to refer to the note
fn references_to(fixture: &Fixture, key: &str) -> Vec<(String, u64)> {
    let response: Value = fixture.send_request::<References>(ReferenceParams {
        text_document_position: position(key),
        context: ReferenceContext {
            include_declaration: false,
        },
        work_done_progress_params: Default::default(),
        partial_result_params: Default::default(),
    });
    response
        .as_array()
        .unwrap()
        .iter()
        .map(|location| {
            (
                location["uri"].as_str().unwrap().to_string(),
                location["range"]["start"]["line"].as_u64().unwrap(),
            )
        })
        .collect()
}

fn edit(fixture: &Fixture, key: &str, text: String) {
    fixture.notification::<DidChangeTextDocument>(DidChangeTextDocumentParams {
        text_document: VersionedTextDocumentIdentifier {
            uri: uri_from(key),
            version: 2,
        },
        content_changes: vec![TextDocumentContentChangeEvent {
            range: None,
            range_length: None,
            text,
        }],
    });
}

fn formatted(fixture: &Fixture, key: &str) -> String {
    let response: Value = fixture.send_request::<Formatting>(DocumentFormattingParams {
        text_document: TextDocumentIdentifier { uri: uri_from(key) },
        options: Default::default(),
        work_done_progress_params: Default::default(),
    });
    response[0]["newText"].as_str().unwrap().to_string()
}

#[test]
fn completion_item_for_a_note_named_with_a_colon_refers_to_that_note() {
    let fixture = Fixture::with_documents(vec![
        ("topics/index", "# Index\n"),
        ("topics/Re: budget", "# Budget\n"),
    ]);

    // the link iwe writes to point at "topics/Re: budget" from a note in "topics"
    let link = completion_insert_texts(&fixture, "topics/index")
        .into_iter()
        .find(|text| text.starts_with("[Budget]"))
        .expect("a completion item for the note");

    // the user accepts the item on a line of its own
    edit(&fixture, "topics/index", format!("# Index\n\n{}\n", link));

    assert_eq!(
        vec![(uri_from("topics/index").to_string(), 2)],
        references_to(&fixture, "topics/Re: budget"),
        "references to the note after inserting the completion item {}",
        link
    );
}

#[test]
fn formatting_keeps_a_block_reference_to_a_note_named_with_a_colon() {
    let fixture = Fixture::with_documents(vec![
        ("topics/index", "# Index\n\n[Budget](<./Re: budget>)\n"),
        ("topics/Re: budget", "# Budget\n"),
    ]);

    // as written by hand the block reference points at the note
    assert_eq!(
        vec![(uri_from("topics/index").to_string(), 2)],
        references_to(&fixture, "topics/Re: budget"),
        "references before formatting"
    );

    // format the note and put the result in place
    let text = formatted(&fixture, "topics/index");
    edit(&fixture, "topics/index", text.clone());

    assert_eq!(
        vec![(uri_from("topics/index").to_string(), 2)],
        references_to(&fixture, "topics/Re: budget"),
        "references after formatting, which wrote:\n{}",
        text
    );
}
