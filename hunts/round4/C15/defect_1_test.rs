// C15 hunt, defect 1 (crate: iwe; copy to crates/iwe/tests/defect_1_test.rs)
//
// `iwe contents` prints a table of contents for the library root: one block reference per root
// note, "[title](key)". The key is written as it is. A note whose file name (or directory) holds
// a space - "my notes/idea one.md" - is written "[Idea one](my notes/idea one)", which is not a
// link at all (a destination that holds a space is only a destination between angle brackets).
// The formatter (KF-destination-with-space) and completion (KF-completion-space-destination) were
// repaired for exactly this; this third place that writes links was left as it was.
//
// Property: the link text iwe writes to point at K from a note in D (here D = the library root,
// where the contents note lives) resolves, from D, back to exactly K.

use std::fs;
use std::path::PathBuf;
use std::process::Command;

use liwe::graph::{Graph, GraphContext};
use liwe::markdown::MarkdownReader;
use liwe::model::node::NodePointer;
use liwe::model::Key;

fn library(name: &str) -> PathBuf {
    let path = std::env::temp_dir().join(format!("iwe-hunt4-c15-{}-{}", name, std::process::id()));
    let _ = fs::remove_dir_all(&path);
    fs::create_dir_all(path.join("my notes")).unwrap();
    fs::create_dir_all(path.join("people")).unwrap();
    fs::write(path.join("my notes/idea one.md"), "# Idea one\n\nsome text\n").unwrap();
    fs::write(path.join("people/bob.md"), "# Bob\n").unwrap();
    fs::write(path.join("reading list.md"), "# Reading list\n").unwrap();
    path
}

// the notes the block references of `text`, read as a note in the library root, point to
fn block_reference_keys(text: &str) -> Vec<String> {
    let key = Key::from_file_name("contents");
    let mut graph = Graph::new();
    graph.from_markdown(key.clone(), text, MarkdownReader::new());
    let mut keys: Vec<String> = graph
        .get_block_references_in(&key)
        .into_iter()
        .filter_map(|id| (&graph).node(id).ref_key())
        .map(|key| key.to_string())
        .collect();
    keys.sort();
    keys
}

#[test]
fn contents_links_resolve_back_to_the_notes_they_were_written_for() {
    let path = library("contents");

    let output = Command::new(env!("CARGO_BIN_EXE_iwe"))
        .arg("contents")
        .current_dir(&path)
        .output()
        .expect("iwe contents to run");
    let contents = String::from_utf8(output.stdout).unwrap();
    let _ = fs::remove_dir_all(&path);

    assert!(output.status.success(), "iwe contents failed");

    // one block reference per note, each resolving (from the library root) to its note
    assert_eq!(
        vec![
            "my notes/idea one".to_string(),
            "people/bob".to_string(),
            "reading list".to_string(),
        ],
        block_reference_keys(&contents),
        "notes the links of `iwe contents` point to; it printed:\n{}",
        contents
    );
}
