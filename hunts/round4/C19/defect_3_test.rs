// Defect 3 (incomplete repair of KF-non-atomic-write, 6621bd3): the temporary file is written
// with fs::write and renamed over the note at once. fs::write never flushes (no sync_all) and
// dropping the File ignores the result of close(). On a file system that writes behind (NFS
// home directories with quotas, CIFS, FUSE mounts; close(2): "errors from a previous write(2)
// operation are reported only on the final close() ... This can especially be observed with
// NFS and with disk quota") write() succeeds, the server refuses the data when it is flushed
// and EDQUOT / ENOSPC comes back from fsync() or close(). iwe never looks at either, renames
// the unflushed temporary file over the note and goes on: every note of the library ends up
// empty (or cut short), exit status 0.
//
// Property (C19): "If a write fails part-way (disk full, quota, kill), every note file still
// holds either its complete old text or its complete new text - never a truncated or empty
// file."
//
// The fault is injected with a small LD_PRELOAD library that models such a file system for the
// files opened for writing below $QUOTA_DIR: write() is accepted (cached), the data is refused
// at flush time, fsync()/fdatasync()/close() fail with EDQUOT. Nothing in it knows about iwe:
// a writer that flushes the temporary file and checks the result before renaming passes.
// Needs `cc` (Linux, glibc).
//
// copy to crates/iwe/tests/ and run
//   cargo test --offline -p iwe --test defect_3_test -- --nocapture

use std::fs;
use std::path::{Path, PathBuf};
use std::process::Command;

const SHIM: &str = r#"
#define _GNU_SOURCE
#include <dlfcn.h>
#include <errno.h>
#include <fcntl.h>
#include <stdarg.h>
#include <stdlib.h>
#include <string.h>
#include <unistd.h>
#include <sys/types.h>

/* 0: not ours, 1: opened for writing below QUOTA_DIR, 2: holds data the server will refuse */
static char tracked[4096];

static int wants(const char *path, int flags) {
    const char *dir = getenv("QUOTA_DIR");
    if (!dir || !path) return 0;
    if ((flags & O_ACCMODE) == O_RDONLY) return 0;
    return strncmp(path, dir, strlen(dir)) == 0;
}

static int track(int fd, const char *path, int flags) {
    if (fd >= 0 && fd < (int)sizeof(tracked)) tracked[fd] = wants(path, flags) ? 1 : 0;
    return fd;
}

#define OPEN_BODY(name, call)                                              \
    mode_t mode = 0;                                                       \
    if (flags & (O_CREAT | O_TMPFILE)) {                                   \
        va_list ap; va_start(ap, flags); mode = va_arg(ap, mode_t); va_end(ap); \
    }                                                                      \
    static int (*real)() = 0;                                              \
    if (!real) real = dlsym(RTLD_NEXT, name);                              \
    return track(call, path, flags);

int open(const char *path, int flags, ...) { OPEN_BODY("open", real(path, flags, mode)) }
int open64(const char *path, int flags, ...) { OPEN_BODY("open64", real(path, flags, mode)) }
int openat(int dirfd, const char *path, int flags, ...) { OPEN_BODY("openat", real(dirfd, path, flags, mode)) }
int openat64(int dirfd, const char *path, int flags, ...) { OPEN_BODY("openat64", real(dirfd, path, flags, mode)) }

ssize_t write(int fd, const void *buf, size_t count) {
    static ssize_t (*real)(int, const void *, size_t) = 0;
    if (!real) real = dlsym(RTLD_NEXT, "write");
    if (fd >= 0 && fd < (int)sizeof(tracked) && tracked[fd]) {
        tracked[fd] = 2; /* accepted into the cache; the server is over quota */
        return (ssize_t)count;
    }
    return real(fd, buf, count);
}

int fsync(int fd) {
    static int (*real)(int) = 0;
    if (!real) real = dlsym(RTLD_NEXT, "fsync");
    if (fd >= 0 && fd < (int)sizeof(tracked) && tracked[fd] == 2) { errno = EDQUOT; return -1; }
    return real(fd);
}

int fdatasync(int fd) {
    static int (*real)(int) = 0;
    if (!real) real = dlsym(RTLD_NEXT, "fdatasync");
    if (fd >= 0 && fd < (int)sizeof(tracked) && tracked[fd] == 2) { errno = EDQUOT; return -1; }
    return real(fd);
}

int close(int fd) {
    static int (*real)(int) = 0;
    if (!real) real = dlsym(RTLD_NEXT, "close");
    if (fd >= 0 && fd < (int)sizeof(tracked) && tracked[fd]) {
        int dirty = tracked[fd] == 2;
        tracked[fd] = 0;
        real(fd);
        if (dirty) { errno = EDQUOT; return -1; }
        return 0;
    }
    return real(fd);
}
"#;

fn scratch(name: &str) -> PathBuf {
    let dir = std::env::temp_dir().join(format!("iwe-hunt4-d3-{}-{}", name, std::process::id()));
    let _ = fs::remove_dir_all(&dir);
    fs::create_dir_all(&dir).unwrap();
    fs::canonicalize(dir).unwrap()
}

fn build_shim(dir: &Path) -> PathBuf {
    let source = dir.join("writebehind.c");
    let library = dir.join("writebehind.so");
    fs::write(&source, SHIM).unwrap();
    let output = Command::new("cc")
        .args(["-shared", "-fPIC", "-w", "-o"])
        .arg(&library)
        .arg(&source)
        .arg("-ldl")
        .output()
        .expect("to run cc (the fault injection needs a C compiler)");
    assert!(output.status.success(), "cc failed: {:?}", output);
    library
}

const NOTES: [(&str, &str); 3] = [
    ("index.md", "# Index\n\n* [Plan](projects/plan)\n* [Diary](diary)\n"),
    ("diary.md", "# Diary\n\n* Monday\n* Tuesday\n"),
    ("projects/plan.md", "# Plan\n\nStep one\n\n* buy milk\n"),
];

fn library(name: &str) -> PathBuf {
    let root = scratch(name);
    for (rel, text) in NOTES {
        let path = root.join(rel);
        fs::create_dir_all(path.parent().unwrap()).unwrap();
        fs::write(path, text).unwrap();
    }
    root
}

#[test]
fn a_write_refused_at_flush_time_leaves_every_note_whole() {
    let tools = scratch("tools");
    let shim = build_shim(&tools);

    // the complete new text of every note: an undisturbed run on a copy of the library
    let reference = library("reference");
    let output = Command::new(env!("CARGO_BIN_EXE_iwe"))
        .arg("normalize")
        .current_dir(&reference)
        .output()
        .unwrap();
    assert!(output.status.success());

    // the same library on the "file system" that is over quota
    let root = library("quota");
    let output = Command::new(env!("CARGO_BIN_EXE_iwe"))
        .arg("normalize")
        .current_dir(&root)
        .env("LD_PRELOAD", &shim)
        .env("QUOTA_DIR", &root)
        .output()
        .unwrap();
    eprintln!(
        "exit {:?}, stderr: {}",
        output.status.code(),
        String::from_utf8_lossy(&output.stderr)
    );

    for (rel, old) in NOTES {
        let new = fs::read_to_string(reference.join(rel)).unwrap();
        assert_ne!(old, new, "the run is supposed to change {}", rel);

        let now = fs::read_to_string(root.join(rel)).expect("the note to be there");
        eprintln!("{}: {:?}", rel, now);
        assert!(
            now == old || now == new,
            "{} holds neither its complete old text nor its complete new text: {:?}",
            rel,
            now
        );
    }
}
