// Defect 2 (incomplete repair of KF-replace-changes-file-identity, 331f4bb): since notes are
// replaced through a temporary file, a note written by `iwe normalize` belongs to whoever ran
// the command. The repair copies the permission bits, not the owner and group. Run by root on
// somebody's notes (sudo, a container that bind-mounts the notes: both common), every note
// changes hands; a private note (mode 0600, kept by the repair "so that a private note stays
// private") becomes root:root 0600: its owner can neither read nor write it any more.
// Before the atomic-write change (fs::write in place) owner and group were kept.
//
// Property (C19): each note is written back "to the very path it was read from ... and
// [normalize] creates, deletes or touches nothing else"; the note must come out as the same
// file with new text, not as somebody else's file.
//
// The scenario needs a note that belongs to another user than the one running the command, so
// the test needs uid 0 (it reports itself as skipped otherwise).
//
// copy to crates/iwe/tests/ and run
//   cargo test --offline -p iwe --test defect_2_test -- --nocapture

use std::fs;
use std::os::unix::fs::{chown, MetadataExt, PermissionsExt};
use std::path::PathBuf;
use std::process::Command;

fn scratch(name: &str) -> PathBuf {
    let dir = std::env::temp_dir().join(format!("iwe-hunt4-d2-{}-{}", name, std::process::id()));
    let _ = fs::remove_dir_all(&dir);
    fs::create_dir_all(&dir).unwrap();
    fs::canonicalize(dir).unwrap()
}

fn is_root() -> bool {
    fs::metadata("/proc/self").map(|m| m.uid() == 0).unwrap_or(false)
}

#[test]
fn a_note_keeps_its_owner_and_group() {
    if !is_root() {
        eprintln!("skipped: needs uid 0 to create a note that belongs to another user");
        return;
    }

    let root = scratch("owner");
    fs::create_dir_all(root.join("journal")).unwrap();

    let private = root.join("journal/2024-05-01.md");
    let shared = root.join("index.md");
    fs::write(&private, "# Private\n\n* my own business\n").unwrap();
    fs::write(&shared, "# Index\n\n[Private](journal/2024-05-01)\n").unwrap();
    fs::set_permissions(&private, fs::Permissions::from_mode(0o600)).unwrap();
    fs::set_permissions(&shared, fs::Permissions::from_mode(0o664)).unwrap();

    // the notes belong to user 1000, group 1000 (the first ordinary account of most systems)
    for path in [&root, &root.join("journal"), &private, &shared] {
        chown(path, Some(1000), Some(1000)).unwrap();
    }

    let output = Command::new(env!("CARGO_BIN_EXE_iwe"))
        .arg("normalize")
        .current_dir(&root)
        .output()
        .expect("to run iwe");
    assert!(output.status.success(), "normalize failed: {:?}", output);

    // the run did rewrite the note
    assert_eq!(
        fs::read_to_string(&private).unwrap(),
        "# Private\n\n- my own business\n"
    );

    for path in [&private, &shared] {
        let meta = fs::metadata(path).unwrap();
        eprintln!(
            "{}: uid {} gid {} mode {:o}",
            path.display(),
            meta.uid(),
            meta.gid(),
            meta.mode() & 0o7777
        );
    }

    let meta = fs::metadata(&private).unwrap();
    assert_eq!(meta.mode() & 0o7777, 0o600);
    assert_eq!(
        (meta.uid(), meta.gid()),
        (1000, 1000),
        "the private note (0600) now belongs to root: its owner can no longer open it"
    );

    let meta = fs::metadata(&shared).unwrap();
    assert_eq!(
        (meta.uid(), meta.gid()),
        (1000, 1000),
        "the note changed its owner / group (0664: the group lost its write access)"
    );
}
