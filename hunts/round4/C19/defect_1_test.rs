// Defect 1: a configuration file that `iwe` cannot deserialize is ignored without a word, and
// `iwe normalize` then treats the current directory as the library: it rewrites Markdown files
// that are outside of the configured library (README.md, docs/...), exit status 0.
//
// `.iwe/config.toml` below is what is left when a user deletes the [models] and [actions]
// tables he does not use (all four tables are mandatory for serde, nothing says so), or what a
// typing mistake produces. The language server refuses to start with such a file ("to parse
// config file"); the CLI falls back to Configuration::default() (library.path = "",
// refs_extension = "") in get_configuration() and goes on to write.
//
// Property (C19): normalize reads the `.md` files under the library, writes those back "and
// creates, deletes or touches nothing else".
//
// copy to crates/iwe/tests/ and run
//   cargo test --offline -p iwe --test defect_1_test -- --nocapture

use std::fs;
use std::os::unix::fs::MetadataExt;
use std::path::{Path, PathBuf};
use std::process::Command;

fn scratch(name: &str) -> PathBuf {
    let dir = std::env::temp_dir().join(format!("iwe-hunt4-d1-{}-{}", name, std::process::id()));
    let _ = fs::remove_dir_all(&dir);
    fs::create_dir_all(&dir).unwrap();
    fs::canonicalize(dir).unwrap()
}

fn write(root: &Path, rel: &str, text: &str) {
    let path = root.join(rel);
    fs::create_dir_all(path.parent().unwrap()).unwrap();
    fs::write(path, text).unwrap();
}

fn normalize(root: &Path) -> std::process::Output {
    Command::new(env!("CARGO_BIN_EXE_iwe"))
        .arg("normalize")
        .current_dir(root)
        .output()
        .expect("to run iwe")
}

// a project: the notes live in notes/, the rest of the tree is not the library
fn project(name: &str, config: &str) -> PathBuf {
    let root = scratch(name);
    write(&root, ".iwe/config.toml", config);
    write(&root, "notes/a.md", "* item\n\n[t](b.md)\n");
    write(&root, "notes/b.md", "# B\n");
    write(&root, "README.md", "* not a note\n* of the library\n");
    write(&root, "docs/guide.md", "Guide\n=====\n\n* see [notes](../notes/a.md)\n");
    root
}

fn outside_is_untouched(root: &Path, before: &[(String, String, u64)]) {
    for (rel, text, inode) in before {
        let path = root.join(rel);
        assert_eq!(
            &fs::read_to_string(&path).unwrap(),
            text,
            "{} is outside of the configured library (notes/) and was rewritten",
            rel
        );
        assert_eq!(
            fs::metadata(&path).unwrap().ino(),
            *inode,
            "{} is outside of the configured library (notes/) and was replaced",
            rel
        );
    }
}

fn snapshot(root: &Path) -> Vec<(String, String, u64)> {
    ["README.md", "docs/guide.md"]
        .iter()
        .map(|rel| {
            let path = root.join(rel);
            (
                rel.to_string(),
                fs::read_to_string(&path).unwrap(),
                fs::metadata(&path).unwrap().ino(),
            )
        })
        .collect()
}

// control: with a complete configuration the files outside of notes/ are left alone (passes)
#[test]
fn control_complete_configuration() {
    let root = scratch("control");
    let init = Command::new(env!("CARGO_BIN_EXE_iwe"))
        .arg("init")
        .current_dir(&root)
        .output()
        .unwrap();
    assert!(init.status.success());
    let template = fs::read_to_string(root.join(".iwe/config.toml")).unwrap();
    let config = template
        .replace("path = \"\"", "path = \"notes\"")
        .replace("refs_extension = \"\"", "refs_extension = \".md\"");
    assert_ne!(template, config);

    let root = project("control", &config);
    let before = snapshot(&root);
    assert!(normalize(&root).status.success());
    outside_is_untouched(&root, &before);
    assert_eq!(
        fs::read_to_string(root.join("notes/a.md")).unwrap(),
        "- item\n\n[B](b.md)\n"
    );
}

// the tables the user does not need are deleted from the file
#[test]
fn configuration_without_models_and_actions() {
    let root = project(
        "trimmed",
        "prompt_key_prefix = \"prompt\"\n\n[markdown]\nrefs_extension = \".md\"\n\n[library]\npath = \"notes\"\n",
    );
    let before = snapshot(&root);
    let output = normalize(&root);
    eprintln!(
        "exit {:?}, stderr: {}",
        output.status.code(),
        String::from_utf8_lossy(&output.stderr)
    );
    // whether the command refuses to run or uses notes/ is its choice; what it may not do is
    // write outside of the library the configuration names
    outside_is_untouched(&root, &before);
}

// a typing mistake somewhere else in the file (here: in the [models] part)
#[test]
fn configuration_with_a_syntax_error() {
    let root = project(
        "typo",
        "[markdown]\nrefs_extension = \".md\"\n\n[library]\npath = \"notes\"\n\n[models.default]\napi_key_env = \"OPENAI_API_KEY\nbase_url = \"https://api.openai.com\"\nname = \"gpt-4o\"\n\n[actions]\n",
    );
    let before = snapshot(&root);
    let _ = normalize(&root);
    outside_is_untouched(&root, &before);
}
