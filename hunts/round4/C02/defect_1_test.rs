// Defect 1: a link whose text equals its absolute-path destination ("[/login](/login)") is
// collapsed into "</login>". That is not an autolink (autolinks need a scheme) but an HTML
// closing tag: alone on its line it is an HTML block, which the next formatting pass drops.
// The formatted text is therefore not a fixpoint: the second pass deletes the paragraph / list.
//
// Property C02: format(format(x)) == format(x), byte for byte.

use std::collections::HashMap;

use liwe::graph::Graph;
use liwe::markdown::MarkdownReader;
use liwe::model::config::MarkdownOptions;

fn format(text: &str, refs_extension: &str) -> String {
    let mut graph = Graph::new_with_options(MarkdownOptions {
        refs_extension: refs_extension.to_string(),
    });
    graph.from_markdown("key".into(), text, MarkdownReader::new());
    graph.to_markdown(&"key".into())
}

fn assert_fixpoint(input: &str) {
    for ext in ["", ".md"] {
        let once = format(input, ext);
        let twice = format(&once, ext);
        assert_eq!(
            once, twice,
            "formatting twice differs from formatting once (refs_extension {:?})\ninput:\n{}\nfirst pass:\n{}\nsecond pass:\n{}",
            ext, input, once, twice
        );
    }
}

#[test]
fn route_link_alone_in_a_paragraph() {
    assert_fixpoint("# Routes\n\n[/login](/login)\n\nThe login page.\n");
}

#[test]
fn route_links_at_the_start_of_list_items() {
    assert_fixpoint("- [/search](/search) is the search page\n- [/about](/about)\n");
}

#[test]
fn route_link_followed_by_a_text_line() {
    assert_fixpoint("[/div](/div)\ntext right after\n");
}

#[test]
fn through_the_library() {
    // import / export of a library, twice
    let state: HashMap<String, String> = vec![
        ("routes".to_string(), "# Routes\n\n[/login](/login)\n\nThe login page.\n".to_string()),
        ("other".to_string(), "# Other\n\n[Routes](routes)\n".to_string()),
    ]
    .into_iter()
    .collect();

    let once = Graph::import(&state, MarkdownOptions::default()).export();
    let twice = Graph::import(&once, MarkdownOptions::default()).export();

    assert_eq!(once.get("routes"), twice.get("routes"));
}
