// Defect 2: a heading whose text ends in a run of '#' preceded by a space (a setext heading
// "Title #" / "... not an ATX trailer ###", or the ATX heading "# A # #") is written as an ATX
// heading without protecting that run: "# Title #". Read back, the run is the optional ATX closing
// sequence and is not part of the text, so the second pass writes "# Title".
// The title of the note changes with it, so notes that link to it change on the second pass too.
//
// Real-world instance: CHANGELOG.md of pulldown-cmark-to-cmark 21.0.0 holds
//   "This header ends with hashes, not an ATX trailer ###" underlined with "=====".
//
// Property C02: format(format(x)) == format(x), byte for byte.

use std::collections::HashMap;

use liwe::graph::Graph;
use liwe::markdown::MarkdownReader;
use liwe::model::config::MarkdownOptions;

fn format(text: &str) -> String {
    let mut graph = Graph::new_with_options(MarkdownOptions::default());
    graph.from_markdown("key".into(), text, MarkdownReader::new());
    graph.to_markdown(&"key".into())
}

fn assert_fixpoint(input: &str) {
    let once = format(input);
    let twice = format(&once);
    assert_eq!(
        once, twice,
        "formatting twice differs from formatting once\ninput:\n{}\nfirst pass:\n{}\nsecond pass:\n{}",
        input, once, twice
    );
}

#[test]
fn setext_heading_that_ends_in_hashes() {
    assert_fixpoint(
        "This header ends with hashes, not an ATX trailer ###\n====================================================\n\ntext\n",
    );
}

#[test]
fn setext_heading_that_ends_in_one_hash() {
    assert_fixpoint("Invoice #\n---------\n\ntext\n");
}

#[test]
fn atx_heading_whose_text_ends_in_a_hash() {
    // the last '#' is the closing sequence, the text is "A #"
    assert_fixpoint("# A # #\n");
}

#[test]
fn atx_heading_whose_text_is_a_hash() {
    // the text is "#"; written "# #" it is an empty heading
    assert_fixpoint("# # #\n");
}

#[test]
fn referrers_change_on_the_second_pass() {
    let state: HashMap<String, String> = vec![
        ("invoice".to_string(), "Invoice #\n=========\n\ntext\n".to_string()),
        ("index".to_string(), "# Index\n\n[x](invoice)\n\nsee [x](invoice) too\n".to_string()),
    ]
    .into_iter()
    .collect();

    let once = Graph::import(&state, MarkdownOptions::default()).export();
    let twice = Graph::import(&once, MarkdownOptions::default()).export();

    assert_eq!(once.get("index"), twice.get("index"));
}
