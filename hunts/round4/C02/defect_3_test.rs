// Defect 3: bullet markers are normalised to '-'. An item of a '*' or '+' list whose text consists
// of dashes ("--", used as a placeholder) is written "- --", which is a thematic break, not a list
// item: the second pass writes a rule of 72 dashes in its place and the list falls apart into two
// lists around the rule.
//
// Property C02: format(format(x)) == format(x), byte for byte.

use liwe::graph::Graph;
use liwe::markdown::MarkdownReader;
use liwe::model::config::MarkdownOptions;

fn format(text: &str) -> String {
    let mut graph = Graph::new_with_options(MarkdownOptions::default());
    graph.from_markdown("key".into(), text, MarkdownReader::new());
    graph.to_markdown(&"key".into())
}

fn assert_fixpoint(input: &str) {
    let once = format(input);
    let twice = format(&once);
    assert_eq!(
        once, twice,
        "formatting twice differs from formatting once\ninput:\n{}\nfirst pass:\n{}\nsecond pass:\n{}",
        input, once, twice
    );
}

#[test]
fn plus_list_with_a_placeholder_item() {
    assert_fixpoint("+ one\n+ --\n+ three\n");
}

#[test]
fn star_list_with_a_placeholder_item() {
    assert_fixpoint("* Pros: fast\n* Cons: --\n* --\n");
}

#[test]
fn nested_star_list_with_a_placeholder_item() {
    assert_fixpoint("1. first\n   * --\n2. second\n");
}
