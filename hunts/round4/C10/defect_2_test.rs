// Defect 2: section-to-list on a heading without text promotes the first paragraph of the
// section to the text of the item.
//
// "##" followed by two paragraphs becomes "- text here\n\n  more": the item's own (empty) text
// is dropped by the writer and the marker is put in front of the first child block. Read back,
// that paragraph IS the item's text, so list-to-sections gives "## text here": a paragraph of
// the note has become a heading (block kind and nesting change; "more" is now a child of a
// section called "text here").
//
// Property: "keep ... the nesting of everything inside the converted part" and "turning a
// section that is not adjacent to another list into a list and back restores the formatted
// original". The section is the first sub-section of its parent and no list is near.

use std::collections::HashMap;

use lsp_types::{
    request::{CodeActionRequest, CodeActionResolveRequest, Formatting},
    CodeActionContext, CodeActionParams, DocumentFormattingParams, Position, Range,
    TextDocumentIdentifier,
};
use serde_json::Value;

use fixture::{action_kinds, uri, Fixture};

mod fixture;

#[allow(dead_code)]
const SECTION_TO_LIST: &str = "refactor.rewrite.section.list";
#[allow(dead_code)]
const LIST_TO_SECTIONS: &str = "refactor.rewrite.list.section";
#[allow(dead_code)]
const CHANGE_LIST_TYPE: &str = "refactor.rewrite.list.type";

// a server whose library holds one note, 1.md, with the given text
fn server(text: &str) -> Fixture {
    let mut state = HashMap::new();
    state.insert("1".to_string(), text.to_string());
    Fixture::with_options_and_client(state, Default::default(), "")
}

// textDocument/formatting: the formatted text of the note
#[allow(dead_code)]
fn format(text: &str) -> String {
    let fixture = server(text);
    let edits: Value = fixture.send_request::<Formatting>(DocumentFormattingParams {
        text_document: TextDocumentIdentifier { uri: uri(1) },
        options: Default::default(),
        work_done_progress_params: Default::default(),
    });
    edits[0]["newText"].as_str().unwrap().to_string()
}

// textDocument/codeAction at the start of `line`, restricted to `kind`, followed by
// codeAction/resolve: the new text of the note, or None when the action is not offered
fn apply(text: &str, line: u32, kind: &'static str) -> Option<String> {
    let fixture = server(text);
    let actions: Value = fixture.send_request::<CodeActionRequest>(CodeActionParams {
        text_document: TextDocumentIdentifier { uri: uri(1) },
        range: Range::new(Position::new(line, 0), Position::new(line, 0)),
        context: CodeActionContext {
            diagnostics: Default::default(),
            only: action_kinds(kind),
            trigger_kind: None,
        },
        work_done_progress_params: Default::default(),
        partial_result_params: Default::default(),
    });
    let action = actions.as_array().unwrap().first()?.clone();
    let resolved: Value = fixture
        .send_request::<CodeActionResolveRequest>(serde_json::from_value(action).unwrap());
    let operations = resolved["edit"]["documentChanges"].as_array().unwrap();
    assert_eq!(operations.len(), 1, "the conversions rewrite one note");
    Some(
        operations[0]["edits"][0]["newText"]
            .as_str()
            .unwrap()
            .to_string(),
    )
}

const NOTE: &str = "# Title\n\n##\n\ntext here\n\nmore\n";

#[test]
fn empty_heading_to_list_and_back_restores_the_formatted_note() {
    let original = format(NOTE);
    // formatting is stable on this note and keeps the empty heading and both paragraphs
    assert_eq!(format(&original), original);
    assert_eq!(original.lines().nth(2).map(|l| l.trim_end()), Some("##"));
    assert_eq!(original.lines().nth(4), Some("text here"));

    let as_list = apply(&original, 2, SECTION_TO_LIST).expect("section to list is offered on line 2");
    println!("section to list:\n{}", as_list);

    let back = apply(&as_list, 2, LIST_TO_SECTIONS).expect("list to sections is offered on line 2");
    println!("and back:\n{}", back);

    assert_eq!(back, original, "section to list and back does not restore the formatted original");
}

#[test]
fn paragraph_of_the_section_stays_a_paragraph() {
    let original = format(NOTE);
    let as_list = apply(&original, 2, SECTION_TO_LIST).expect("section to list is offered on line 2");
    let back = apply(&as_list, 2, LIST_TO_SECTIONS).expect("list to sections is offered on line 2");

    assert!(
        !back.lines().any(|line| line.starts_with('#') && line.contains("text here")),
        "the first paragraph of the section has become a heading:\n{}",
        back
    );
}
