// Defect 3: list-to-sections writes an item's text that ends in " #" as a heading that ends in
// " #", which Markdown reads as the optional closing sequence of an ATX heading.
//
// "- Invoice #" becomes "## Invoice #"; every Markdown reader (the project's own included) reads
// that line as the heading "Invoice": the "#" that was text of the item is gone from the note
// (the next formatting pass writes "## Invoice").
//
// Property: list-to-sections keeps every word of the note. A formatting pass involves no
// conversion, so formatting the result shows what was written.

use std::collections::HashMap;

use lsp_types::{
    request::{CodeActionRequest, CodeActionResolveRequest, Formatting},
    CodeActionContext, CodeActionParams, DocumentFormattingParams, Position, Range,
    TextDocumentIdentifier,
};
use serde_json::Value;

use fixture::{action_kinds, uri, Fixture};

mod fixture;

#[allow(dead_code)]
const SECTION_TO_LIST: &str = "refactor.rewrite.section.list";
#[allow(dead_code)]
const LIST_TO_SECTIONS: &str = "refactor.rewrite.list.section";
#[allow(dead_code)]
const CHANGE_LIST_TYPE: &str = "refactor.rewrite.list.type";

// a server whose library holds one note, 1.md, with the given text
fn server(text: &str) -> Fixture {
    let mut state = HashMap::new();
    state.insert("1".to_string(), text.to_string());
    Fixture::with_options_and_client(state, Default::default(), "")
}

// textDocument/formatting: the formatted text of the note
#[allow(dead_code)]
fn format(text: &str) -> String {
    let fixture = server(text);
    let edits: Value = fixture.send_request::<Formatting>(DocumentFormattingParams {
        text_document: TextDocumentIdentifier { uri: uri(1) },
        options: Default::default(),
        work_done_progress_params: Default::default(),
    });
    edits[0]["newText"].as_str().unwrap().to_string()
}

// textDocument/codeAction at the start of `line`, restricted to `kind`, followed by
// codeAction/resolve: the new text of the note, or None when the action is not offered
fn apply(text: &str, line: u32, kind: &'static str) -> Option<String> {
    let fixture = server(text);
    let actions: Value = fixture.send_request::<CodeActionRequest>(CodeActionParams {
        text_document: TextDocumentIdentifier { uri: uri(1) },
        range: Range::new(Position::new(line, 0), Position::new(line, 0)),
        context: CodeActionContext {
            diagnostics: Default::default(),
            only: action_kinds(kind),
            trigger_kind: None,
        },
        work_done_progress_params: Default::default(),
        partial_result_params: Default::default(),
    });
    let action = actions.as_array().unwrap().first()?.clone();
    let resolved: Value = fixture
        .send_request::<CodeActionResolveRequest>(serde_json::from_value(action).unwrap());
    let operations = resolved["edit"]["documentChanges"].as_array().unwrap();
    assert_eq!(operations.len(), 1, "the conversions rewrite one note");
    Some(
        operations[0]["edits"][0]["newText"]
            .as_str()
            .unwrap()
            .to_string(),
    )
}

const NOTE: &str = "# Order form\n\n- Invoice #\n- Customer\n";

#[test]
fn item_text_ending_in_a_number_sign_keeps_it_as_a_heading() {
    assert_eq!(format(NOTE), NOTE);

    let sections = apply(NOTE, 2, LIST_TO_SECTIONS).expect("list to sections is offered on line 2");
    println!("list to sections:\n{}", sections);

    // what the written note means: a formatting pass must not lose anything
    let formatted = format(&sections);
    println!("formatted:\n{}", formatted);

    assert!(
        formatted.contains("Invoice #"),
        "the text of the first item lost its number sign:\n{}",
        formatted
    );
}

#[test]
fn result_of_list_to_sections_is_stable_under_formatting() {
    let sections = apply(NOTE, 2, LIST_TO_SECTIONS).expect("list to sections is offered on line 2");
    assert_eq!(format(&sections), sections);
}
