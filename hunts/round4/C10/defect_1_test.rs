// Defect 1: section-to-list on a heading whose text starts like a block marker
// ("## 1. Introduction", "## 2) Scope", "## - Cons", "## + Pros", "## > Note").
//
// The heading's text is written unchanged right behind the bullet: "- 1. Introduction". There
// the "1." is no longer text but the marker of an ordered list nested in the item, so the
// section's number silently turns into markup: every Markdown reader sees a bullet item that
// holds a numbered list, list-to-sections on the same line gives "## Introduction", and a plain
// formatting pass rewrites the item to "- Introduction". The number of the section is lost.
//
// Property: "keep every word ...", and "turning a section that is not adjacent to another list
// into a list and back restores the formatted original". The section below is the first
// sub-section of its parent (no preceding sibling section) and no list is anywhere near.

use std::collections::HashMap;

use lsp_types::{
    request::{CodeActionRequest, CodeActionResolveRequest, Formatting},
    CodeActionContext, CodeActionParams, DocumentFormattingParams, Position, Range,
    TextDocumentIdentifier,
};
use serde_json::Value;

use fixture::{action_kinds, uri, Fixture};

mod fixture;

#[allow(dead_code)]
const SECTION_TO_LIST: &str = "refactor.rewrite.section.list";
#[allow(dead_code)]
const LIST_TO_SECTIONS: &str = "refactor.rewrite.list.section";
#[allow(dead_code)]
const CHANGE_LIST_TYPE: &str = "refactor.rewrite.list.type";

// a server whose library holds one note, 1.md, with the given text
fn server(text: &str) -> Fixture {
    let mut state = HashMap::new();
    state.insert("1".to_string(), text.to_string());
    Fixture::with_options_and_client(state, Default::default(), "")
}

// textDocument/formatting: the formatted text of the note
#[allow(dead_code)]
fn format(text: &str) -> String {
    let fixture = server(text);
    let edits: Value = fixture.send_request::<Formatting>(DocumentFormattingParams {
        text_document: TextDocumentIdentifier { uri: uri(1) },
        options: Default::default(),
        work_done_progress_params: Default::default(),
    });
    edits[0]["newText"].as_str().unwrap().to_string()
}

// textDocument/codeAction at the start of `line`, restricted to `kind`, followed by
// codeAction/resolve: the new text of the note, or None when the action is not offered
fn apply(text: &str, line: u32, kind: &'static str) -> Option<String> {
    let fixture = server(text);
    let actions: Value = fixture.send_request::<CodeActionRequest>(CodeActionParams {
        text_document: TextDocumentIdentifier { uri: uri(1) },
        range: Range::new(Position::new(line, 0), Position::new(line, 0)),
        context: CodeActionContext {
            diagnostics: Default::default(),
            only: action_kinds(kind),
            trigger_kind: None,
        },
        work_done_progress_params: Default::default(),
        partial_result_params: Default::default(),
    });
    let action = actions.as_array().unwrap().first()?.clone();
    let resolved: Value = fixture
        .send_request::<CodeActionResolveRequest>(serde_json::from_value(action).unwrap());
    let operations = resolved["edit"]["documentChanges"].as_array().unwrap();
    assert_eq!(operations.len(), 1, "the conversions rewrite one note");
    Some(
        operations[0]["edits"][0]["newText"]
            .as_str()
            .unwrap()
            .to_string(),
    )
}

const NOTE: &str = "# Paper\n\n## 1. Introduction\n\nSome text.\n";

#[test]
fn the_note_is_formatted() {
    // the note is its own formatted original
    assert_eq!(format(NOTE), NOTE);
}

#[test]
fn numbered_heading_to_list_and_back_restores_the_note() {
    let as_list = apply(NOTE, 2, SECTION_TO_LIST).expect("section to list is offered on line 2");
    println!("section to list:\n{}", as_list);

    let back = apply(&as_list, 2, LIST_TO_SECTIONS).expect("list to sections is offered on line 2");
    println!("and back:\n{}", back);

    assert_eq!(back, NOTE, "section to list and back does not restore the formatted original");
}

#[test]
fn numbered_heading_keeps_its_number_as_text_of_the_item() {
    let as_list = apply(NOTE, 2, SECTION_TO_LIST).expect("section to list is offered on line 2");

    // a formatting pass (no conversion involved) over the result must leave the words alone:
    // it shows what the written list means to the Markdown reader
    let formatted = format(&as_list);
    println!("section to list:\n{}\nformatted:\n{}", as_list, formatted);

    assert!(
        formatted.contains("1. Introduction"),
        "the number of the section is no longer text of the note:\n{}",
        formatted
    );
}

#[test]
fn other_block_markers_at_the_start_of_a_heading() {
    for heading in ["2) Scope", "- Cons", "+ Pros", "> Note"] {
        let note = format!("# Paper\n\n## {}\n\nSome text.\n", heading);
        assert_eq!(format(&note), note);

        let as_list = apply(&note, 2, SECTION_TO_LIST).expect("section to list is offered");
        let back = apply(&as_list, 2, LIST_TO_SECTIONS).expect("list to sections is offered");

        assert_eq!(back, note, "heading {:?}: not restored, the list was\n{}", heading, as_list);
    }
}
