// Defect 1: listing the paths of a library (done when the server starts, after every didChange,
// for every documentSymbol request and by `iwe paths` / `iwe contents`) enumerates every simple
// chain of block references above every node. A handful of small notes that block-reference each
// other make that enumeration factorial (see defect_1_chain_test.rs for a plain chain of notes:
// quartic time, and a recursion as deep as the chain is long).
//
// copy to crates/liwe/tests/ and run
//   cargo test --offline -p liwe --test defect_1_test -- --nocapture
use std::collections::HashMap;
use std::sync::mpsc;
use std::time::{Duration, Instant};

use liwe::database::Database;
use liwe::model::config::MarkdownOptions;

// what the language server does before it answers its first request (Server::new)
fn start_server_within(state: HashMap<String, String>, budget: Duration) -> Option<Duration> {
    let (tx, rx) = mpsc::channel();
    std::thread::spawn(move || {
        let started = Instant::now();
        let database = Database::new(state, false, MarkdownOptions::default());
        let _ = database.global_search("person");
        let _ = tx.send(started.elapsed());
    });
    rx.recv_timeout(budget).ok()
}

// twelve notes of ~300 bytes: every note lists the other eleven under a "Team" heading, one
// block reference (a link that is a paragraph of its own) per line
fn team(n: usize) -> HashMap<String, String> {
    (0..n)
        .map(|i| {
            let mut text = format!("# Person {}\n\nSome words.\n\n## Team\n\n", i);
            for other in (0..n).filter(|other| *other != i) {
                text.push_str(&format!("[Person {}](person-{})\n\n", other, other));
            }
            (format!("person-{}", i), text)
        })
        .collect()
}

// 40 notes, each with a "Related" heading that block-references three other notes
fn related(n: usize) -> HashMap<String, String> {
    let mut x: u64 = 88172645463325252;
    (0..n)
        .map(|i| {
            let mut text = format!("# Topic {}\n\nSome words.\n\n## Related\n\n", i);
            let mut chosen: Vec<usize> = vec![];
            while chosen.len() < 3 {
                x ^= x << 13;
                x ^= x >> 7;
                x ^= x << 17;
                let other = (x % n as u64) as usize;
                if other != i && !chosen.contains(&other) {
                    chosen.push(other);
                }
            }
            for other in chosen {
                text.push_str(&format!("[Topic {}](topic-{})\n\n", other, other));
            }
            (format!("topic-{}", i), text)
        })
        .collect()
}

#[test]
fn twelve_notes_that_reference_each_other_do_not_hang_the_server() {
    let budget = Duration::from_secs(30);
    let took = start_server_within(team(12), budget);
    assert!(
        took.is_some(),
        "12 notes (3.5 KB in all) that block-reference each other: the database (import + paths \
         + search) was not ready after {:?}",
        budget
    );
}

#[test]
fn forty_notes_with_three_related_notes_each_do_not_hang_the_server() {
    let budget = Duration::from_secs(30);
    let took = start_server_within(related(40), budget);
    assert!(
        took.is_some(),
        "40 notes with three block references each: the database was not ready after {:?}",
        budget
    );
}
