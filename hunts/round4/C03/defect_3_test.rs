// Defect 3: reading a note takes time quadratic in its length.
//  * MarkdownEventsReader::to_line_range / to_inline_range walk the list of ALL line starts of
//    the note for every block, every table cell and every inline (text run, soft break, link...),
//  * to_inline_range counts the UTF-16 columns from the start of the line for every inline, so a
//    long line with many inlines is quadratic as well,
//  * the text of a code block is rebuilt with format!("{}{}", so_far, line) for every line the
//    parser reports separately (CRLF files, code inside a list item or quote, indented code).
// The note is read again on every didChange and for every definition / rename request, so a
// large table, log or one-sentence-per-line text (a few hundred KB) costs seconds per keystroke
// in a release build; the shapes below are single blocks, far inside the "clean" sibling bounds.
//
// copy to crates/liwe/tests/ and run
//   cargo test --offline -p liwe --test defect_3_test -- --nocapture
use std::time::Instant;

use liwe::graph::Graph;
use liwe::markdown::MarkdownReader;

fn load_seconds(text: &str) -> f64 {
    // best of two, to keep scheduling noise out
    (0..2)
        .map(|_| {
            let mut graph = Graph::new();
            let started = Instant::now();
            graph.from_markdown("key".into(), text, MarkdownReader::new());
            started.elapsed().as_secs_f64()
        })
        .fold(f64::MAX, f64::min)
}

// four times the text may take four times as long; eight times is already generous, the
// unchanged code needs about sixteen times as long
fn assert_scales(name: &str, shape: impl Fn(usize) -> String, n: usize) {
    let small = shape(n);
    let large = shape(4 * n);
    let t_small = load_seconds(&small);
    let t_large = load_seconds(&large);
    println!(
        "{}: {} bytes in {:.3}s, {} bytes in {:.3}s ({:.1} times as long for 4 times the text)",
        name,
        small.len(),
        t_small,
        large.len(),
        t_large,
        t_large / t_small
    );
    assert!(
        t_large < t_small * 8.0,
        "{}: loading 4 times the text took {:.1} times as long ({:.3}s -> {:.3}s)",
        name,
        t_large / t_small,
        t_small,
        t_large
    );
}

#[test]
fn a_table_loads_in_time_proportional_to_its_rows() {
    assert_scales(
        "table",
        |rows| format!("| id | value |\n|----|-------|\n{}", "| 1 | some value |\n".repeat(rows)),
        4000,
    );
}

#[test]
fn a_paragraph_loads_in_time_proportional_to_its_lines() {
    assert_scales(
        "one sentence per line",
        |lines| "One sentence of the text on a line of its own.\n".repeat(lines),
        4000,
    );
}

#[test]
fn a_crlf_code_block_loads_in_time_proportional_to_its_lines() {
    assert_scales(
        "code block with CRLF line endings",
        |lines| {
            format!(
                "```\r\n{}```\r\n",
                "2024-05-03 12:00:01 INFO request served in 12 ms\r\n".repeat(lines)
            )
        },
        10000,
    );
}

#[test]
fn a_long_line_loads_in_time_proportional_to_its_length() {
    assert_scales(
        "one long line with links",
        |links| "see [this note](other) and ".repeat(links),
        1000,
    );
}
