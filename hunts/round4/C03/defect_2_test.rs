// Defect 2: every didChange rebuilds the note's nodes at the end of the arena and leaves the old
// ones behind as tombstones (Arena::delete_branch only overwrites them with GraphNode::Empty; the
// lines, the line-range map and the reference index keep their stale entries too). Nothing is
// ever reclaimed, so while a user types into a long note the server's memory and the time it
// needs for one edit grow with the number of keystrokes, without bound.
//
// copy to crates/liwe/tests/ and run
//   cargo test --offline -p liwe --test defect_2_test -- --nocapture
use std::collections::HashMap;
use std::time::Instant;

use liwe::database::Database;
use liwe::model::config::MarkdownOptions;

// a long note: a title and 200 short paragraphs, each with a link to another note (14 KB)
fn long_note() -> String {
    let mut text = String::from("# Title\n\n");
    for i in 0..200 {
        text.push_str(&format!(
            "Paragraph {} with a [link](other) and some *more* text in it.\n\n",
            i
        ));
    }
    text
}

fn database(text: &str) -> Database {
    let mut state = HashMap::new();
    state.insert("note".to_string(), text.to_string());
    state.insert("other".to_string(), "# Other\n".to_string());
    Database::new(state, false, MarkdownOptions::default())
}

fn median(mut values: Vec<f64>) -> f64 {
    values.sort_by(|a, b| a.partial_cmp(b).unwrap());
    values[values.len() / 2]
}

// The user types 1500 characters at the end of the note; the editor sends the full text after
// every one of them (the server asks for full-text synchronisation).
#[test]
fn typing_does_not_get_slower_with_every_keystroke() {
    let mut text = long_note();
    let mut db = database(&text);
    let mut times = vec![];

    for _ in 0..1500 {
        text.push('x');
        let started = Instant::now();
        db.update_document("note".into(), text.clone());
        let _ = db.global_search("para");
        times.push(started.elapsed().as_secs_f64());
    }

    let first = median(times[..100].to_vec());
    let last = median(times[times.len() - 100..].to_vec());
    println!(
        "median time of one edit: first hundred {:.4}s, last hundred {:.4}s ({:.1} times slower)",
        first,
        last,
        last / first
    );
    // the note is 0.01% longer at the end than at the start
    assert!(
        last < first * 2.0,
        "after 1500 keystrokes one edit takes {:.1} times as long as at the start ({:.4}s -> {:.4}s): \
         the cost of an edit grows with the number of edits made before it",
        last / first,
        first,
        last
    );
}

// The same session, looked at from the side of memory: what the graph holds for a note of about
// 200 nodes must not depend on how often the note was edited.
#[test]
fn typing_does_not_pile_up_dead_nodes() {
    let mut text = long_note();
    let mut db = database(&text);
    let at_start = db.graph().nodes().len();

    for _ in 0..1500 {
        text.push('x');
        db.update_document("note".into(), text.clone());
    }

    let at_end = db.graph().nodes().len();
    println!("nodes held by the graph: {} at the start, {} after 1500 edits", at_start, at_end);
    assert!(
        at_end < at_start * 10,
        "the graph held {} nodes for the two notes at the start and holds {} after 1500 keystrokes \
         (about {} per keystroke are never released)",
        at_start,
        at_end,
        (at_end - at_start) / 1500
    );
}
