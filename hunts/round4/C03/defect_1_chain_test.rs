// Defect 1, second trigger: a plain chain of notes. Every note ends with a block reference to the
// next one (a journal with a "next day" line, the chapters of a book). paths_for_node recurses
// once per link of the chain for every node of every note and copies the path at every step:
// quartic time (800 notes: 21 s for Graph::paths in a release build on 16 cores, again after every
// didChange), and from about 600 notes (debug build) / 1500 notes (release build) the recursion
// overflows the stack of the rayon worker: the process aborts while the server starts.
//
// copy to crates/liwe/tests/ and run
//   cargo test --offline -p liwe --test defect_1_chain_test -- --nocapture
// (on the unchanged code the test binary dies with SIGABRT: "has overflowed its stack")
use std::collections::HashMap;
use std::sync::mpsc;
use std::time::{Duration, Instant};

use liwe::database::Database;
use liwe::model::config::MarkdownOptions;

// a journal: every day ends with a block reference to the next day
fn journal(days: usize) -> HashMap<String, String> {
    (0..days)
        .map(|day| {
            let mut text = format!("# Day {}\n\nWhat happened on that day.\n\n", day);
            if day + 1 < days {
                text.push_str(&format!("[Day {}](day-{})\n", day + 1, day + 1));
            }
            (format!("day-{}", day), text)
        })
        .collect()
}

#[test]
fn a_journal_of_1500_chained_days_neither_kills_nor_hangs_the_server() {
    let budget = Duration::from_secs(60);
    let (tx, rx) = mpsc::channel();
    std::thread::spawn(move || {
        let started = Instant::now();
        // what Server::new does before the first request is answered
        let database = Database::new(journal(1500), false, MarkdownOptions::default());
        let found = database.global_search("day").len();
        let _ = tx.send((found, started.elapsed()));
    });
    let done = rx.recv_timeout(budget).ok();
    assert!(
        done.is_some(),
        "1500 notes of 60 bytes, each with one block reference to the next: the database was not \
         ready after {:?} (there are only 1500 paths to list)",
        budget
    );
}
