// Defect 1: a path that matches the query can rank below paths that do not match at all
// (and is then cut off by the limit of 100).
//
// Database::global_search ranks by `fuzzy_match(..).unwrap_or(0)`: "no match" counts as score 0,
// but the fuzzy matcher gives real matches a score of 0 or less as soon as the matched characters
// lie some 30-40 characters apart (typing the initials of the steps of a path does that).
// Such a match sorts after every entry that does not match at all.
use std::collections::HashMap;

use fuzzy_matcher::{skim::SkimMatcherV2, FuzzyMatcher};
use liwe::database::Database;
use liwe::model::config::MarkdownOptions;

const HANDBOOK: &str = "# Knowledge base of the platform engineering team\n\n\
## Management of incidents and the on-call rotation\n\n\
### Zettelkasten\n";

const WANTED: &str = "Knowledge base of the platform engineering team \
Management of incidents and the on-call rotation Zettelkasten";

fn matches(text: &str, query: &str) -> bool {
    SkimMatcherV2::default().fuzzy_match(text, query).is_some()
}

#[test]
fn a_matching_path_comes_before_paths_that_do_not_match() {
    let mut state: HashMap<String, String> = HashMap::new();
    state.insert("handbook".into(), HANDBOOK.into());
    state.insert("cooking".into(), "# Cooking\n".into());
    state.insert("travel".into(), "# Travel\n".into());

    let database = Database::new(state, true, MarkdownOptions::default());

    // initials of the three steps of the path
    let query = "kmz";
    let results: Vec<String> = database
        .global_search(query)
        .iter()
        .map(|path| path.search_text.clone())
        .collect();

    assert!(matches(WANTED, query), "the wanted path matches the query");
    assert!(!matches("Cooking", query) && !matches("Travel", query));

    let wanted = results.iter().position(|text| text == WANTED).expect("path is listed");
    for (position, text) in results.iter().enumerate() {
        if !matches(text, query) {
            assert!(
                wanted < position,
                "{:?} matches {:?} but is listed at {} after {:?} at {}, which does not match\n{:#?}",
                WANTED, query, wanted, text, position, results
            );
        }
    }
}

#[test]
fn a_matching_path_is_not_pushed_out_of_the_100_by_paths_that_do_not_match() {
    let mut state: HashMap<String, String> = HashMap::new();
    state.insert("handbook".into(), HANDBOOK.into());
    for n in 0..120 {
        // none of these holds a 'k', an 'm' or a 'z'
        state.insert(format!("note-{:03}", n), format!("# Recipe {:03}\n", n));
    }

    let database = Database::new(state, true, MarkdownOptions::default());
    let query = "kmz";
    let results: Vec<String> = database
        .global_search(query)
        .iter()
        .map(|path| path.search_text.clone())
        .collect();

    assert!(results.len() <= 100);
    assert!(matches(WANTED, query));
    assert!(results.iter().filter(|text| matches(text, query)).count() <= 1);
    assert!(
        results.contains(&WANTED.to_string()),
        "the only path that matches {:?} is not among the {} results; first results: {:?}",
        query,
        results.len(),
        &results[..5]
    );
}
