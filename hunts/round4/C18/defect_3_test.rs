// Defect 3: textDocument/documentSymbol never lists the title (first heading) of a note that no
// other note includes, although it lists the title of a note that is included somewhere.
//
// handle_document_symbols keeps the paths through the note's first heading, throws away the
// paths of length one and cuts the first element off the others. For an included note the
// element cut off is a heading of the including note; for a note that is a root of the
// hierarchy (every ordinary, self-contained note) it is the note's own title, and the path
// that ends in the title is the one of length one that was thrown away.
use lsp_types::request::DocumentSymbolRequest;
use lsp_types::{DocumentSymbolParams, TextDocumentIdentifier};
use serde_json::Value;

use fixture::{uri_from, Fixture};

mod fixture;

fn document_symbol_names(fixture: &Fixture, key: &str) -> Vec<String> {
    let response: Value = fixture.send_request::<DocumentSymbolRequest>(DocumentSymbolParams {
        text_document: TextDocumentIdentifier { uri: uri_from(key) },
        work_done_progress_params: Default::default(),
        partial_result_params: Default::default(),
    });

    response
        .as_array()
        .expect("a list of symbols")
        .iter()
        .filter(|symbol| symbol["location"]["uri"].as_str().unwrap().ends_with(&format!("/{}.md", key)))
        // names are indented with em spaces to show the depth
        .map(|symbol| symbol["name"].as_str().unwrap().trim_matches('\u{2003}').to_string())
        .collect()
}

#[test]
fn every_heading_of_a_stand_alone_note_is_a_document_symbol() {
    let fixture = Fixture::with_documents(vec![(
        "trip",
        "# Trip to Lisbon\n\n## Packing list\n\nshoes\n\n## Itinerary\n\nday one\n",
    )]);

    let mut names = document_symbol_names(&fixture, "trip");
    names.sort();

    assert_eq!(
        vec!["Itinerary", "Packing list", "Trip to Lisbon"],
        names,
        "the three headings of the note"
    );
}

#[test]
fn the_title_is_listed_whether_or_not_the_note_is_included_elsewhere() {
    let note = "# Trip to Lisbon\n\n## Packing list\n\nshoes\n";

    // the same note, once on its own and once included by an index note
    let alone = Fixture::with_documents(vec![("trip", note)]);
    let included = Fixture::with_documents(vec![
        ("trip", note),
        ("index", "# Index\n\n[Trip to Lisbon](trip)\n"),
    ]);

    let mut expected = document_symbol_names(&included, "trip");
    expected.sort();
    assert_eq!(vec!["Packing list", "Trip to Lisbon"], expected);

    let mut actual = document_symbol_names(&alone, "trip");
    actual.sort();
    assert_eq!(expected, actual, "the headings of the note do not depend on who includes it");
}
