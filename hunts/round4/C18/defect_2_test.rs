// Defect 2: the headings of the tool's own scratch files are listed as if they were notes.
//
// With the default configuration the library is the directory that holds `.iwe/`. Every AI
// action writes `./.iwe/prompt.md` (and `./.iwe/generated.md`): the prompt holds the text of the
// note the action ran on, headings included. The loader walks hidden directories as well, so on
// the next start (`iwes`, `iwe paths`, `iwe contents`) `.iwe/prompt` is a note: the headings of
// the note that was edited show up a second time, in a file that is no note of the library.
use std::fs;

use itertools::Itertools;
use liwe::fs::new_for_path;
use liwe::graph::{Graph, GraphContext};
use liwe::model::config::MarkdownOptions;

#[test]
fn scratch_files_of_the_tool_are_not_listed() {
    let dir = std::env::temp_dir().join(format!("iwe-hunt4-c18-defect2-{}", std::process::id()));
    let _ = fs::remove_dir_all(&dir);
    fs::create_dir_all(dir.join(".iwe")).unwrap();

    // what `iwe init` leaves behind
    fs::write(dir.join(".iwe/config.toml"), "").unwrap();
    // the library: one note
    fs::write(
        dir.join("trip.md"),
        "# Trip to Lisbon\n\n## Packing list\n\nshoes\n",
    )
    .unwrap();
    // what Server::llm_query writes when "Rewrite" runs on a paragraph of that note
    // (the default prompt template with the note as its context)
    fs::write(
        dir.join(".iwe/prompt.md"),
        "Here's a text that I'm going to ask you to edit. The text is marked with <context></context> tag.\n\n\
         <context>\n\n\
         # Trip to Lisbon\n\n## Packing list\n\n<update_here>shoes</update_here>\n\n\
         </context>\n\n\
         - You can't replace entire text\n",
    )
    .unwrap();

    let graph = Graph::import(&new_for_path(&dir), MarkdownOptions::default());

    let listed = graph
        .paths()
        .iter()
        .map(|path| {
            (
                (&graph).key_of(path.target()).to_string(),
                path.ids()
                    .iter()
                    .map(|id| (&graph).get_text(*id).trim().to_string())
                    .join(" • "),
            )
        })
        .sorted()
        .collect_vec();

    let _ = fs::remove_dir_all(&dir);

    assert_eq!(
        vec![
            ("trip".to_string(), "Trip to Lisbon".to_string()),
            ("trip".to_string(), "Trip to Lisbon • Packing list".to_string()),
        ],
        listed,
        "only the headings of the note are listed"
    );
}
