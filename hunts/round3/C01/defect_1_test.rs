// Defect 1: with markdown.refs_extension = ".md" formatting appends ".md" to every link
// destination that is not http(s)/mailto -- also to attachments (files/paper.pdf), in-page
// anchors (#summary) and destinations that already carry a fragment (other.md#details).
//
// Run: copy to crates/liwe/tests/ and
//   cargo test --offline -p liwe --test defect_1_test -- --nocapture

use liwe::graph::Graph;
use liwe::model::config::MarkdownOptions;
use liwe::model::State;
use pulldown_cmark::{Event, Options, Parser, Tag};

const INDEX: &str = "\
# Index

Read [the paper](files/paper.pdf), jump to [the summary](#summary) or to [a section](other.md#details).

## Summary

See ![figure](files/figure.png) and the [data sheet](files/data.xlsx).
";

const OTHER: &str = "\
# Other

## Details

text
";

// what `iwe normalize` does: import every file, export every file
fn normalize(refs_extension: &str) -> String {
    let state: State = vec![
        ("index".to_string(), INDEX.to_string()),
        ("other".to_string(), OTHER.to_string()),
    ]
    .into_iter()
    .collect();

    Graph::import(
        &state,
        MarkdownOptions {
            refs_extension: refs_extension.to_string(),
        },
    )
    .export()
    .get("index")
    .unwrap()
    .clone()
}

// destinations of all links and images, in document order
fn destinations(markdown: &str) -> Vec<String> {
    Parser::new_ext(
        markdown,
        Options::ENABLE_YAML_STYLE_METADATA_BLOCKS | Options::ENABLE_WIKILINKS | Options::ENABLE_TABLES,
    )
    .filter_map(|event| match event {
        Event::Start(Tag::Link { dest_url, .. }) => Some(dest_url.to_string()),
        Event::Start(Tag::Image { dest_url, .. }) => Some(dest_url.to_string()),
        _ => None,
    })
    .collect()
}

#[test]
fn control_without_extension_keeps_destinations() {
    // the same note keeps all its destinations with the default setting
    assert_eq!(destinations(INDEX), destinations(&normalize("")));
}

#[test]
fn refs_extension_md_keeps_destinations_that_are_not_notes() {
    let formatted = normalize(".md");
    println!("{}", formatted);

    // none of these destinations names a note without extension: nothing to add
    assert_eq!(destinations(INDEX), destinations(&formatted));
}
