// Defect 3: a paragraph that consists of one link is a block reference whatever its
// destination is (anything but http/https/mailto), and the destination of a block reference is
// rebuilt as a normalised relative path: "zotero://select/items/ABC123" comes back as
// "zotero:/select/items/ABC123", "file:///home/me/scan.pdf" as "file:/home/me/scan.pdf", and
// the root-relative "/assets/handbook.pdf" written in projects/plan.md as "assets/handbook.pdf"
// (now relative to projects/). Default options. The same links inside a sentence are kept.
//
// Run: copy to crates/liwe/tests/ and
//   cargo test --offline -p liwe --test defect_3_test -- --nocapture

use liwe::graph::Graph;
use liwe::model::config::MarkdownOptions;
use liwe::model::State;
use pulldown_cmark::{Event, Options, Parser, Tag};

const PLAN: &str = "\
# Plan

Sources:

[Zotero entry](zotero://select/items/ABC123)

[Scanned contract](file:///home/me/scan.pdf)

[Handbook](/assets/handbook.pdf)
";

const PLAN_IN_A_SENTENCE: &str = "\
# Plan

Sources: [Zotero entry](zotero://select/items/ABC123), [Scanned contract](file:///home/me/scan.pdf), [Handbook](/assets/handbook.pdf).
";

// what `iwe normalize` does: import every file, export every file
fn normalize(text: &str) -> String {
    let state: State = vec![("projects/plan".to_string(), text.to_string())]
        .into_iter()
        .collect();

    Graph::import(&state, MarkdownOptions::default())
        .export()
        .get("projects/plan")
        .unwrap()
        .clone()
}

fn destinations(markdown: &str) -> Vec<String> {
    Parser::new_ext(
        markdown,
        Options::ENABLE_YAML_STYLE_METADATA_BLOCKS | Options::ENABLE_WIKILINKS | Options::ENABLE_TABLES,
    )
    .filter_map(|event| match event {
        Event::Start(Tag::Link { dest_url, .. }) => Some(dest_url.to_string()),
        _ => None,
    })
    .collect()
}

#[test]
fn control_links_inside_a_sentence_keep_their_destinations() {
    assert_eq!(
        destinations(PLAN_IN_A_SENTENCE),
        destinations(&normalize(PLAN_IN_A_SENTENCE))
    );
}

#[test]
fn links_on_their_own_line_keep_their_destinations() {
    let formatted = normalize(PLAN);
    println!("{}", formatted);

    assert_eq!(destinations(PLAN), destinations(&formatted));
}
