// Defect 2: a piped wiki link inside a table cell -- which has to be written with an escaped
// pipe, [[rust-notes\|Rust notes]] -- is written back as "[Rust notes](rust-notes\)": the wiki
// link becomes an inline link whose closing parenthesis is escaped, i.e. no link at all; the
// next pass escapes the brackets too and leaves plain text "\[Rust notes\](rust-notes)".
// (KF-table-cell-wiki repaired plain wiki links in cells only.)
//
// Run: copy to crates/liwe/tests/ and
//   cargo test --offline -p liwe --test defect_2_test -- --nocapture

use liwe::graph::Graph;
use liwe::markdown::MarkdownReader;
use liwe::model::config::MarkdownOptions;
use pulldown_cmark::{Event, LinkType, Options, Parser, Tag};

const NOTE: &str = "\
# Reading list

| Topic | Notes                        |
|-------|------------------------------|
| Rust  | [[rust-notes\\|Rust notes]]  |
| Go    | [[go-notes]]                 |
";

fn format(text: &str, refs_extension: &str) -> String {
    let mut graph = Graph::new_with_options(MarkdownOptions {
        refs_extension: refs_extension.to_string(),
    });
    graph.from_markdown("reading".into(), text, MarkdownReader::new());
    graph.to_markdown(&"reading".into())
}

// (destination, is a wiki link) of every link, in document order; inside a table cell the
// parser reports the backslash of "\|" as part of the destination: it is not part of the name
fn links(markdown: &str) -> Vec<(String, bool)> {
    Parser::new_ext(
        markdown,
        Options::ENABLE_YAML_STYLE_METADATA_BLOCKS | Options::ENABLE_WIKILINKS | Options::ENABLE_TABLES,
    )
    .filter_map(|event| match event {
        Event::Start(Tag::Link {
            dest_url,
            link_type,
            ..
        }) => Some((
            dest_url.trim_end_matches('\\').to_string(),
            matches!(link_type, LinkType::WikiLink { .. }),
        )),
        _ => None,
    })
    .collect()
}

#[test]
fn the_input_has_two_wiki_links() {
    assert_eq!(
        vec![
            ("rust-notes".to_string(), true),
            ("go-notes".to_string(), true)
        ],
        links(NOTE)
    );
}

#[test]
fn piped_wiki_link_in_a_table_cell_survives_formatting() {
    for refs_extension in ["", ".md"] {
        let once = format(NOTE, refs_extension);
        println!("--- once ({:?})\n{}", refs_extension, once);
        assert_eq!(links(NOTE), links(&once), "after one pass");

        let twice = format(&once, refs_extension);
        println!("--- twice ({:?})\n{}", refs_extension, twice);
        assert_eq!(links(NOTE), links(&twice), "after two passes");
    }
}
