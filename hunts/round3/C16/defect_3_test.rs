// Defect 3: incomplete repair of KF-search-tie-order. Search results that differ only in the
// way their path is split into headings are still ordered by arena node ids, i.e. by the order
// in which the notes were inserted.
//
// copy to crates/liwe/tests/ and run
//   cargo test --offline -p liwe --test defect_3_test -- --nocapture
//
// Database::global_search breaks ties by (rank, length of the search text, search text, key,
// line). The search text is the path's heading texts joined with a space, so two paths to the
// same heading whose texts join to the same words are equal in every one of these, although
// they are different results ("2024 • Q1 goals • OKRs" and "2024 Q1 • goals • OKRs"). The
// stable sort then keeps the order of Graph::search_paths(), which for the same key is the
// order of Graph::paths(): sorted by node ids, and those follow insertion order.

use liwe::database::Database;
use liwe::graph::GraphContext;
use liwe::model::config::MarkdownOptions;
use liwe::model::State;

const YEAR: (&str, &str) = ("plan-2024", "# 2024\n\n## Q1 goals\n\n[OKRs](okrs)\n");
const QUARTER: (&str, &str) = ("plan-2024-q1", "# 2024 Q1\n\n## goals\n\n[OKRs](okrs)\n");
const OKRS: (&str, &str) = ("okrs", "# OKRs\n\n## Hiring\n\ntwo engineers\n");

// what workspace/symbol shows for every result: name, note, line, kind
fn results(database: &Database, query: &str) -> Vec<String> {
    database
        .global_search(query)
        .iter()
        .map(|result| {
            format!(
                "{} ({}.md:{}, {})",
                result
                    .path
                    .ids()
                    .iter()
                    .map(|id| database.graph().get_text(*id).trim().to_string())
                    .collect::<Vec<_>>()
                    .join(" • "),
                result.key,
                result.line,
                if result.root { "namespace" } else { "object" }
            )
        })
        .collect()
}

fn inserted(notes: &[(&str, &str)]) -> Database {
    let mut database = Database::new(State::new(), true, MarkdownOptions::default());
    for (key, text) in notes {
        database.insert_document((*key).into(), text.to_string());
    }
    database
}

fn imported(notes: &[(&str, &str)]) -> Database {
    Database::new(
        notes
            .iter()
            .map(|(key, text)| (key.to_string(), text.to_string()))
            .collect(),
        true,
        MarkdownOptions::default(),
    )
}

#[test]
fn search_results_do_not_depend_on_insertion_order() {
    let one = inserted(&[YEAR, QUARTER, OKRS]);
    let two = inserted(&[QUARTER, YEAR, OKRS]);

    for query in ["", "okrs", "hiring", "goals"] {
        println!("{:?}: {:#?}", query, results(&one, query));
        assert_eq!(
            results(&one, query),
            results(&two, query),
            "query {:?}",
            query
        );
    }
}

#[test]
fn search_results_are_the_same_after_an_edit_that_changes_nothing() {
    // a fresh import, and the same library after plan-2024 was saved again unchanged
    let fresh = imported(&[YEAR, QUARTER, OKRS]);
    let mut edited = imported(&[YEAR, QUARTER, OKRS]);
    edited.update_document(YEAR.0.into(), YEAR.1.to_string());

    for query in ["", "okrs", "hiring", "goals"] {
        assert_eq!(
            results(&fresh, query),
            results(&edited, query),
            "query {:?}",
            query
        );
    }
}
