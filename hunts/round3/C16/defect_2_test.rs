// Defect 2: the configured block actions appear in the code-action list (and in the
// codeActionKinds of the server capabilities) in HashMap iteration order.
//
// copy to crates/iwes/tests/ and run
//   cargo test --offline -p iwes --test defect_2_test -- --nocapture
//
// Configuration::actions is a HashMap<String, BlockAction>; all_action_types() appends
// `configuration.actions.iter()` to the built-in actions without ordering them. `iwe init`
// writes a configuration with four such actions (rewrite, expand, keywords, emoji), so every
// library initialised the standard way shows "Rewrite / Expand / Keywords / Emojify" in a
// different order on every server start (what sits on which number / position of the editor's
// code-action menu changes from session to session).
//
// Every std HashMap gets a fresh RandomState, so building the configuration several times in
// one process is enough to see what separate processes see. The second test goes through the
// toml text the way `iwe init` + `iwes` do.

use std::collections::HashMap;

use iwes::router::server::Server;
use iwes::router::{LspClient, ServerConfig};
use liwe::model::config::Configuration;
use lsp_types::*;

fn server(configuration: Configuration) -> Server {
    let state: HashMap<String, String> =
        vec![("index".to_string(), "# Index\n\nsome text\n".to_string())]
            .into_iter()
            .collect();

    Server::new(ServerConfig {
        base_path: "/basepath".to_string(),
        state,
        sequential_ids: Some(true),
        configuration,
        lsp_client: LspClient::Unknown,
    })
}

fn action_titles(server: &Server) -> Vec<String> {
    let params = CodeActionParams {
        text_document: TextDocumentIdentifier {
            uri: Url::from_file_path("/basepath/index.md").unwrap(),
        },
        // the paragraph "some text"
        range: Range::new(Position::new(2, 0), Position::new(2, 0)),
        context: CodeActionContext::default(),
        work_done_progress_params: Default::default(),
        partial_result_params: Default::default(),
    };

    server
        .handle_code_action(&params)
        .into_iter()
        .map(|action| match action {
            CodeActionOrCommand::CodeAction(action) => action.title,
            CodeActionOrCommand::Command(command) => command.title,
        })
        .collect()
}

#[test]
fn code_action_list_is_the_same_on_every_start() {
    let first = action_titles(&server(Configuration::template()));
    println!("{:#?}", first);
    assert_eq!(4, first.len());

    for _ in 0..16 {
        let next = action_titles(&server(Configuration::template()));
        assert_eq!(
            first, next,
            "the same library and configuration gave two differently ordered code-action lists"
        );
    }
}

#[test]
fn code_action_list_is_the_same_for_the_same_config_file() {
    // the file `iwe init` writes, read back the way `iwes` reads it
    let config_toml = toml::to_string(&Configuration::template()).unwrap();
    let read = || toml::from_str::<Configuration>(&config_toml).unwrap();

    let first = action_titles(&server(read()));

    for _ in 0..16 {
        assert_eq!(first, action_titles(&server(read())));
    }
}
