// Defect 1: the completion list orders notes that share a title by HashMap iteration order.
//
// copy to crates/iwes/tests/ and run
//   cargo test --offline -p iwes --test defect_1_test -- --nocapture
//
// Server::handle_link_completion takes Graph::keys() (the keys of a HashMap, i.e. in an order
// that changes with the hash seed) and sorts the items by label only. The label is the note's
// title, so notes with the same title (recurring notes: "Weekly review", "Meeting notes",
// "TODO"; or several notes without a first heading, whose label is empty) keep the hash order
// among themselves. Their insert texts differ ([Weekly review](2024-01-08) vs
// [Weekly review](2024-01-15) ...), so the editor shows a differently ordered menu on every
// server start.
//
// Every std HashMap gets a fresh RandomState, so building the server several times in one
// process is enough to see what separate processes see.

use std::collections::HashMap;

use iwes::router::server::Server;
use iwes::router::{LspClient, ServerConfig};
use liwe::model::config::Configuration;
use lsp_types::*;

fn server(notes: &[(&str, &str)]) -> Server {
    let state: HashMap<String, String> = notes
        .iter()
        .map(|(k, v)| (k.to_string(), v.to_string()))
        .collect();

    Server::new(ServerConfig {
        base_path: "/basepath".to_string(),
        state,
        sequential_ids: Some(true),
        configuration: Configuration::default(),
        lsp_client: LspClient::Unknown,
    })
}

fn completion(server: &Server, key: &str) -> Vec<String> {
    let params = CompletionParams {
        text_document_position: TextDocumentPositionParams {
            text_document: TextDocumentIdentifier {
                uri: Url::from_file_path(format!("/basepath/{}.md", key)).unwrap(),
            },
            position: Position::new(2, 0),
        },
        context: None,
        work_done_progress_params: Default::default(),
        partial_result_params: Default::default(),
    };

    match server.handle_completion(params) {
        CompletionResponse::List(list) => list
            .items
            .into_iter()
            .map(|item| format!("{} => {}", item.label, item.insert_text.unwrap_or_default()))
            .collect(),
        CompletionResponse::Array(items) => items
            .into_iter()
            .map(|item| format!("{} => {}", item.label, item.insert_text.unwrap_or_default()))
            .collect(),
    }
}

const LIBRARY: [(&str, &str); 6] = [
    ("2024-01-08", "# Weekly review\n\nfirst week\n"),
    ("2024-01-15", "# Weekly review\n\nsecond week\n"),
    ("2024-01-22", "# Weekly review\n\nthird week\n"),
    ("2024-01-29", "# Weekly review\n\nfourth week\n"),
    ("2024-02-05", "# Weekly review\n\nfifth week\n"),
    ("index", "# Index\n\ntext\n"),
];

#[test]
fn completion_list_is_the_same_on_every_start() {
    let first = completion(&server(&LIBRARY), "index");
    println!("{:#?}", first);

    for _ in 0..12 {
        let next = completion(&server(&LIBRARY), "index");
        assert_eq!(
            first, next,
            "the same library gave two differently ordered completion lists"
        );
    }
}
