// Further observation (not one of the three defects): `iwe normalize` writes the notes in
// HashMap iteration order; a note file that is reachable under two keys (a symbolic link in
// another directory) is written twice with different link titles, and the last writer differs
// from run to run.
//
// copy to crates/liwe/tests/ and run
//   cargo test --offline -p liwe --test extra_symlink_normalize_test -- --nocapture

use std::fs;
use std::path::PathBuf;

use liwe::fs::{new_for_path, write_store_at_path};
use liwe::graph::Graph;
use liwe::model::config::MarkdownOptions;

fn make_library(n: usize) -> PathBuf {
    let dir = std::env::temp_dir().join(format!("hunt3-c16-symlink-{}-{}", std::process::id(), n));
    let _ = fs::remove_dir_all(&dir);
    fs::create_dir_all(dir.join("archive")).unwrap();
    fs::write(dir.join("projects.md"), "# Projects\n\n[tasks](tasks)\n").unwrap();
    fs::write(dir.join("tasks.md"), "# Tasks\n\nopen\n").unwrap();
    fs::write(dir.join("archive/tasks.md"), "# Old tasks\n\ndone\n").unwrap();
    std::os::unix::fs::symlink("../projects.md", dir.join("archive/projects.md")).unwrap();
    dir
}

fn normalize(dir: &PathBuf) {
    // what `iwe normalize` does
    let graph = Graph::import(&new_for_path(dir), MarkdownOptions::default());
    write_store_at_path(&graph.export(), dir).unwrap();
}

#[test]
fn normalize_symlinked_note() {
    let mut results = vec![];
    for n in 0..12 {
        let dir = make_library(n);
        normalize(&dir);
        results.push(fs::read_to_string(dir.join("projects.md")).unwrap());
        let _ = fs::remove_dir_all(&dir);
    }
    println!("{:#?}", results);
    assert!(results.iter().all(|r| r == &results[0]));
}
