// Defect 2: textDocument/completion orders notes that share a title (or have none) in the
// iteration order of the graph's key HashMap, which differs between any two server instances:
// the server that saw edits and a server started on the same texts list the same items in a
// different order.
//
// copy to crates/iwes/tests/ and run: cargo test --offline -p iwes --test defect_2_test
use std::collections::HashMap;

use iwes::router::server::Server;
use iwes::router::{LspClient, ServerConfig};
use liwe::model::config::Configuration;
use lsp_types::*;

fn server(state: &HashMap<String, String>) -> Server {
    Server::new(ServerConfig {
        base_path: "/basepath".to_string(),
        state: state.clone(),
        sequential_ids: Some(true),
        configuration: Configuration::default(),
        lsp_client: LspClient::Unknown,
    })
}

fn completion(server: &Server) -> Vec<String> {
    match server.handle_completion(CompletionParams {
        text_document_position: TextDocumentPositionParams {
            text_document: TextDocumentIdentifier {
                uri: Url::from_file_path("/basepath/index.md").unwrap(),
            },
            position: Position::new(2, 0),
        },
        work_done_progress_params: Default::default(),
        partial_result_params: Default::default(),
        context: None,
    }) {
        CompletionResponse::List(list) => list
            .items
            .into_iter()
            .map(|item| format!("{} -> {}", item.label, item.insert_text.unwrap_or_default()))
            .collect(),
        _ => panic!("list expected"),
    }
}

#[test]
fn completion_after_an_edit_is_ordered_as_after_a_restart() {
    let mut state: HashMap<String, String> = HashMap::new();
    state.insert("index".into(), "# Index\n\n".into());
    // daily notes that all carry the same heading
    for day in 1..=9 {
        state.insert(
            format!("2024-05-0{}", day),
            format!("# Journal\n\nwhat happened on day {}\n", day),
        );
    }

    let mut incremental = server(&state);

    let text = "# Index\n\nsome text\n".to_string();
    incremental.handle_did_change_text_document(DidChangeTextDocumentParams {
        text_document: VersionedTextDocumentIdentifier {
            uri: Url::from_file_path("/basepath/index.md").unwrap(),
            version: 2,
        },
        content_changes: vec![TextDocumentContentChangeEvent {
            range: None,
            range_length: None,
            text: text.clone(),
        }],
    });
    state.insert("index".into(), text);

    let fresh = server(&state);

    assert_eq!(
        completion(&fresh),
        completion(&incremental),
        "completion items: freshly started server (left) vs. server that saw the edit (right)"
    );
}
