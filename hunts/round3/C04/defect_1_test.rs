// Defect 1: workspace/symbol lists two entries that the tie-break of the search does not tell
// apart (same joined text, same target note and line, different path) in arena-id order, so a
// server that saw an edit answers in a different order than a server started on the same texts.
//
// copy to crates/iwes/tests/ and run: cargo test --offline -p iwes --test defect_1_test
use std::collections::HashMap;

use iwes::router::server::Server;
use iwes::router::{LspClient, ServerConfig};
use liwe::model::config::Configuration;
use lsp_types::*;

fn server(state: &HashMap<String, String>) -> Server {
    Server::new(ServerConfig {
        base_path: "/basepath".to_string(),
        state: state.clone(),
        sequential_ids: Some(true),
        configuration: Configuration::default(),
        lsp_client: LspClient::Unknown,
    })
}

fn symbols(server: &Server, query: &str) -> Vec<String> {
    match server.handle_workspace_symbols(WorkspaceSymbolParams {
        query: query.to_string(),
        work_done_progress_params: Default::default(),
        partial_result_params: Default::default(),
    }) {
        WorkspaceSymbolResponse::Flat(symbols) => symbols
            .into_iter()
            .map(|s| format!("{} @ {}:{}", s.name, s.location.uri.path(), s.location.range.start.line))
            .collect(),
        _ => panic!("flat response expected"),
    }
}

#[test]
fn workspace_symbols_after_an_edit_are_ordered_as_after_a_restart() {
    let mut state: HashMap<String, String> = HashMap::new();
    // an area note with a sub-area, and a note that happens to be called like both together
    state.insert("areas".into(), "# Work\n\n[Projects](projects)\n".into());
    state.insert("projects".into(), "# Projects\n\n[Roadmap](roadmap)\n".into());
    state.insert("work-projects".into(), "# Work Projects\n\n[Roadmap](roadmap)\n".into());
    state.insert("roadmap".into(), "# Roadmap\n\nwhat comes next\n".into());

    let mut incremental = server(&state);

    // the user adds a line to the first note (any edit of it will do)
    let text = "# Work\n\n[Projects](projects)\n\nsee also the archive\n".to_string();
    incremental.handle_did_change_text_document(DidChangeTextDocumentParams {
        text_document: VersionedTextDocumentIdentifier {
            uri: Url::from_file_path("/basepath/areas.md").unwrap(),
            version: 2,
        },
        content_changes: vec![TextDocumentContentChangeEvent {
            range: None,
            range_length: None,
            text: text.clone(),
        }],
    });
    state.insert("areas".into(), text);

    let fresh = server(&state);

    for query in ["", "roadmap", "work"] {
        assert_eq!(
            symbols(&fresh, query),
            symbols(&incremental, query),
            "workspace/symbol for query {:?}: freshly started server (left) vs. server that saw the edit (right)",
            query
        );
    }
}
