// Further second-pass differences seen during the hunt; not counted among the three
// defects (incomplete repairs / weaker inputs). Each test fails on the unchanged code.
//
// copy to crates/liwe/tests/ and run
//   cargo test --offline -p liwe --test extra_observations_test -- --nocapture
use std::collections::HashMap;

use liwe::graph::{Graph, GraphContext};
use liwe::model::config::MarkdownOptions;
use liwe::model::Key;

// a small library: the note under test and two notes it may link to
fn library(note: &str) -> HashMap<String, String> {
    let mut state = HashMap::new();
    state.insert("n".to_string(), note.to_string());
    state.insert("b".to_string(), "# Title B\n\ntext\n".to_string());
    state.insert("d/c".to_string(), "# Title C\n\ntext\n".to_string());
    state
}

fn options(refs_extension: &str) -> MarkdownOptions {
    MarkdownOptions {
        refs_extension: refs_extension.to_string(),
    }
}

// what `iwe normalize` does: import the library, export every note
fn format_library(state: &HashMap<String, String>, refs_extension: &str) -> HashMap<String, String> {
    Graph::import(state, options(refs_extension)).export()
}

// what the server does on textDocument/formatting (Server::handle_document_formatting)
fn format_request(graph: &Graph, key: &str) -> String {
    let key: Key = key.into();
    let mut patch = graph.new_patch();
    patch
        .build_key(&key)
        .insert_from_iter(graph.collect(&key).iter());
    patch.export_key(&key).unwrap()
}

// formatting through the library twice: the second pass has to return the first pass
fn assert_library_fixpoint(note: &str) {
    for refs_extension in ["", ".md"] {
        let once = format_library(&library(note), refs_extension);
        let twice = format_library(&once, refs_extension);
        assert_eq!(
            once.get("n").unwrap(),
            twice.get("n").unwrap(),
            "library path, refs_extension {:?}: the second pass changed the text of the first pass\ninput:\n{}",
            refs_extension,
            note
        );
    }
}

// format-on-save: formatting request, the editor sends the result back (didChange, a
// single-key update), formatting request again
fn assert_format_on_save_fixpoint(note: &str) {
    for refs_extension in ["", ".md"] {
        let mut graph = Graph::import(&library(note), options(refs_extension));
        let once = format_request(&graph, "n");
        graph.update_key("n".into(), &once);
        let twice = format_request(&graph, "n");
        assert_eq!(
            once, twice,
            "formatting request, refs_extension {:?}: the second request changed the text of the first\ninput:\n{}",
            refs_extension, note
        );
    }
}

fn assert_library_fixpoint_with(note: &str, refs_extension: &str) {
    let once = format_library(&library(note), refs_extension);
    let twice = format_library(&once, refs_extension);
    assert_eq!(
        once.get("n").unwrap(),
        twice.get("n").unwrap(),
        "refs_extension {:?}, input:\n{}",
        refs_extension,
        note
    );
}

// E1 (KF-empty-rendering-items repaired for list items only): an empty block quote outside
// a list ("> " just typed) is written as blank lines that the next pass removes
#[test]
fn empty_quote_between_paragraphs() {
    assert_library_fixpoint_with("# T\n\ntext\n\n>\n\nmore\n", "");
    assert_format_on_save_fixpoint("# T\n\ntext\n\n>\n\nmore\n");
}

// E1, same: a quote that holds only an html comment
#[test]
fn quote_with_only_a_comment() {
    assert_library_fixpoint_with("# T\n\n> <!-- todo -->\n\nmore\n", "");
}

// E1, same, and the repair's filter `text.trim().is_empty()` drops an item whose text is a
// non-breaking space (Rust's trim takes U+00A0 for white space, Markdown does not): the list
// renders to nothing and leaves blank lines
#[test]
fn list_with_only_a_non_breaking_space_item() {
    assert_library_fixpoint_with("# T\n\ntext\n\n- &nbsp;\n\nmore\n", "");
}

// E2: "**" ("***", "__", "___") as the text of a table cell: "\**" on the first pass,
// "\*\*" on the second (the event writer escapes the first character of the run, the reader
// then delivers two text pieces and each gets its own escape)
#[test]
fn operator_table() {
    assert_library_fixpoint_with("| op | meaning |\n|----|---------|\n| ** | power |\n", "");
}

// E3 (KF-md-md repaired for ".md" only): any other refs_extension is appended once more on
// every pass, for inline links and for block references; never converges
#[test]
fn refs_extension_other_than_md() {
    assert_library_fixpoint_with("see [t](b) and\n\n[t](b)\n", ".markdown");
}

// E4 (KF-md-md): with refs_extension "" a destination b.md.md (what the old defect left in
// notes) loses one ".md" per pass: two passes to converge
#[test]
fn doubled_md_suffix_is_removed_one_per_pass() {
    assert_library_fixpoint_with("see [t](b.md.md) here\n", "");
}
