// Defect 3: a table cell whose text ends in a backslash is written directly in front of the
// cell delimiter ("|C:\Temp\|temp dir|"): backslash + pipe is an escaped pipe, so the next
// pass reads one cell where there were two and writes a different table.
//
// copy to crates/liwe/tests/ and run
//   cargo test --offline -p liwe --test defect_3_test -- --nocapture
use std::collections::HashMap;

use liwe::graph::{Graph, GraphContext};
use liwe::model::config::MarkdownOptions;
use liwe::model::Key;

// a small library: the note under test and two notes it may link to
fn library(note: &str) -> HashMap<String, String> {
    let mut state = HashMap::new();
    state.insert("n".to_string(), note.to_string());
    state.insert("b".to_string(), "# Title B\n\ntext\n".to_string());
    state.insert("d/c".to_string(), "# Title C\n\ntext\n".to_string());
    state
}

fn options(refs_extension: &str) -> MarkdownOptions {
    MarkdownOptions {
        refs_extension: refs_extension.to_string(),
    }
}

// what `iwe normalize` does: import the library, export every note
fn format_library(state: &HashMap<String, String>, refs_extension: &str) -> HashMap<String, String> {
    Graph::import(state, options(refs_extension)).export()
}

// what the server does on textDocument/formatting (Server::handle_document_formatting)
fn format_request(graph: &Graph, key: &str) -> String {
    let key: Key = key.into();
    let mut patch = graph.new_patch();
    patch
        .build_key(&key)
        .insert_from_iter(graph.collect(&key).iter());
    patch.export_key(&key).unwrap()
}

// formatting through the library twice: the second pass has to return the first pass
fn assert_library_fixpoint(note: &str) {
    for refs_extension in ["", ".md"] {
        let once = format_library(&library(note), refs_extension);
        let twice = format_library(&once, refs_extension);
        assert_eq!(
            once.get("n").unwrap(),
            twice.get("n").unwrap(),
            "library path, refs_extension {:?}: the second pass changed the text of the first pass\ninput:\n{}",
            refs_extension,
            note
        );
    }
}

// format-on-save: formatting request, the editor sends the result back (didChange, a
// single-key update), formatting request again
fn assert_format_on_save_fixpoint(note: &str) {
    for refs_extension in ["", ".md"] {
        let mut graph = Graph::import(&library(note), options(refs_extension));
        let once = format_request(&graph, "n");
        graph.update_key("n".into(), &once);
        let twice = format_request(&graph, "n");
        assert_eq!(
            once, twice,
            "formatting request, refs_extension {:?}: the second request changed the text of the first\ninput:\n{}",
            refs_extension, note
        );
    }
}

const PATHS: &str = "\
# Directories

| path | meaning |
|------|---------|
| C:\\Temp\\ | temp dir |
| C:\\Users\\me | home |
";

const CHARACTERS: &str = "\
# Shell characters

| char | meaning |
|------|---------|
| \\ | line continuation |
| & | background |
";

#[test]
fn cell_ending_in_backslash_library() {
    assert_library_fixpoint(PATHS);
}

#[test]
fn cell_ending_in_backslash_format_on_save() {
    assert_format_on_save_fixpoint(PATHS);
}

#[test]
fn cell_that_is_a_backslash_library() {
    assert_library_fixpoint(CHARACTERS);
}
