// Defect 1: an HTML comment that spans two lines inside a list item (or a block quote) is
// re-indented on every formatting pass: formatting never converges.
//
// copy to crates/liwe/tests/ and run
//   cargo test --offline -p liwe --test defect_1_test -- --nocapture
use std::collections::HashMap;

use liwe::graph::{Graph, GraphContext};
use liwe::model::config::MarkdownOptions;
use liwe::model::Key;

// a small library: the note under test and two notes it may link to
fn library(note: &str) -> HashMap<String, String> {
    let mut state = HashMap::new();
    state.insert("n".to_string(), note.to_string());
    state.insert("b".to_string(), "# Title B\n\ntext\n".to_string());
    state.insert("d/c".to_string(), "# Title C\n\ntext\n".to_string());
    state
}

fn options(refs_extension: &str) -> MarkdownOptions {
    MarkdownOptions {
        refs_extension: refs_extension.to_string(),
    }
}

// what `iwe normalize` does: import the library, export every note
fn format_library(state: &HashMap<String, String>, refs_extension: &str) -> HashMap<String, String> {
    Graph::import(state, options(refs_extension)).export()
}

// what the server does on textDocument/formatting (Server::handle_document_formatting)
fn format_request(graph: &Graph, key: &str) -> String {
    let key: Key = key.into();
    let mut patch = graph.new_patch();
    patch
        .build_key(&key)
        .insert_from_iter(graph.collect(&key).iter());
    patch.export_key(&key).unwrap()
}

// formatting through the library twice: the second pass has to return the first pass
fn assert_library_fixpoint(note: &str) {
    for refs_extension in ["", ".md"] {
        let once = format_library(&library(note), refs_extension);
        let twice = format_library(&once, refs_extension);
        assert_eq!(
            once.get("n").unwrap(),
            twice.get("n").unwrap(),
            "library path, refs_extension {:?}: the second pass changed the text of the first pass\ninput:\n{}",
            refs_extension,
            note
        );
    }
}

// format-on-save: formatting request, the editor sends the result back (didChange, a
// single-key update), formatting request again
fn assert_format_on_save_fixpoint(note: &str) {
    for refs_extension in ["", ".md"] {
        let mut graph = Graph::import(&library(note), options(refs_extension));
        let once = format_request(&graph, "n");
        graph.update_key("n".into(), &once);
        let twice = format_request(&graph, "n");
        assert_eq!(
            once, twice,
            "formatting request, refs_extension {:?}: the second request changed the text of the first\ninput:\n{}",
            refs_extension, note
        );
    }
}

const LIST_ITEM: &str = "\
# Shopping

- milk <!-- check the
  fridge first --> and eggs
- bread
";

const QUOTE: &str = "\
# Minutes

> agreed <!-- by all
> but one --> on Friday
";

#[test]
fn comment_over_two_lines_in_list_item_library() {
    assert_library_fixpoint(LIST_ITEM);
}

#[test]
fn comment_over_two_lines_in_list_item_format_on_save() {
    assert_format_on_save_fixpoint(LIST_ITEM);
}

#[test]
fn comment_over_two_lines_in_block_quote_library() {
    assert_library_fixpoint(QUOTE);
}

// the text keeps changing: pass n+1 never equals pass n
#[test]
fn comment_over_two_lines_in_list_item_converges_at_all() {
    let mut state = library(LIST_ITEM);
    let mut texts = vec![];
    for _ in 0..6 {
        state = format_library(&state, "");
        texts.push(state.get("n").unwrap().clone());
    }
    assert!(
        texts.windows(2).any(|pair| pair[0] == pair[1]),
        "six passes, six different texts:\n{}",
        texts.join("-----\n")
    );
}
