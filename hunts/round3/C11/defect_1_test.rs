// Defect 1: every didChange / didSave is dropped when the library is reached through a
// symbolic link (~/notes -> ~/Dropbox/notes): the server names its library after
// getcwd(), which is the resolved path, while the editor names the documents after the
// path it opened.
//
// Run: copy to crates/iwes/tests/ and
//   cargo test --offline -p iwes --test defect_1_test -- --nocapture
//
// The test talks to the real `iwes` binary over stdio (the library path is computed in
// main.rs from the working directory, so main_loop alone does not show it).
use std::io::{BufRead, BufReader, Read, Write};
use std::path::{Path, PathBuf};
use std::process::{Child, ChildStdin, Command, Stdio};
use std::sync::mpsc::{channel, Receiver};
use std::time::Duration;

use serde_json::{json, Value};

struct Server {
    child: Child,
    stdin: ChildStdin,
    rx: Receiver<Value>,
    next_id: i64,
}

fn file_uri(path: &Path) -> String {
    lsp_types::Url::from_file_path(path).unwrap().to_string()
}

impl Server {
    // the editor starts the server in the directory it has open
    fn start(cwd: &Path) -> Server {
        let mut child = Command::new(env!("CARGO_BIN_EXE_iwes"))
            .current_dir(cwd)
            .stdin(Stdio::piped())
            .stdout(Stdio::piped())
            .stderr(Stdio::null())
            .spawn()
            .unwrap();
        let stdin = child.stdin.take().unwrap();
        let stdout = child.stdout.take().unwrap();
        let (tx, rx) = channel();
        std::thread::spawn(move || {
            let mut reader = BufReader::new(stdout);
            loop {
                let mut len = 0usize;
                loop {
                    let mut line = String::new();
                    if reader.read_line(&mut line).unwrap_or(0) == 0 {
                        return;
                    }
                    let line = line.trim();
                    if line.is_empty() {
                        break;
                    }
                    if let Some(v) = line.strip_prefix("Content-Length: ") {
                        len = v.parse().unwrap();
                    }
                }
                let mut buf = vec![0u8; len];
                if reader.read_exact(&mut buf).is_err() {
                    return;
                }
                let _ = tx.send(serde_json::from_slice::<Value>(&buf).unwrap());
            }
        });
        let mut server = Server { child, stdin, rx, next_id: 1 };
        server.request(
            "initialize",
            json!({"processId": null, "rootUri": file_uri(cwd), "capabilities": {}}),
        );
        server.notify("initialized", json!({}));
        server
    }

    fn send(&mut self, value: Value) {
        let body = serde_json::to_string(&value).unwrap();
        write!(self.stdin, "Content-Length: {}\r\n\r\n{}", body.len(), body).unwrap();
        self.stdin.flush().unwrap();
    }

    fn notify(&mut self, method: &str, params: Value) {
        self.send(json!({"jsonrpc": "2.0", "method": method, "params": params}));
    }

    fn request(&mut self, method: &str, params: Value) -> Value {
        let id = self.next_id;
        self.next_id += 1;
        self.send(json!({"jsonrpc": "2.0", "id": id, "method": method, "params": params}));
        loop {
            let msg = self
                .rx
                .recv_timeout(Duration::from_secs(60))
                .expect("a response in time");
            if msg.get("id") == Some(&json!(id)) && msg.get("method").is_none() {
                return msg;
            }
        }
    }

    fn did_change(&mut self, uri: &str, version: i64, text: &str) {
        self.notify(
            "textDocument/didChange",
            json!({"textDocument": {"uri": uri, "version": version},
                   "contentChanges": [{"text": text}]}),
        );
    }

    fn symbol_names(&mut self) -> Vec<String> {
        let r = self.request("workspace/symbol", json!({"query": ""}));
        r["result"]
            .as_array()
            .unwrap()
            .iter()
            .map(|s| s["name"].as_str().unwrap().to_string())
            .collect()
    }

    fn formatted(&mut self, uri: &str) -> Value {
        self.request(
            "textDocument/formatting",
            json!({"textDocument": {"uri": uri}, "options": {"tabSize": 2, "insertSpaces": true}}),
        )
    }

    fn stop(mut self) {
        let _ = self.request("shutdown", Value::Null);
        self.notify("exit", Value::Null);
        let _ = self.child.wait();
    }
}

fn temp_dir(name: &str) -> PathBuf {
    let dir = std::env::temp_dir().join(format!("iwe-hunt3-c11-{}-{}", name, std::process::id()));
    let _ = std::fs::remove_dir_all(&dir);
    std::fs::create_dir_all(&dir).unwrap();
    dir.canonicalize().unwrap()
}

// one edit of note `a`, then two requests issued after it
fn edit_and_ask(opened_as: &Path) -> (Vec<String>, Value) {
    let mut server = Server::start(opened_as);
    let uri = file_uri(&opened_as.join("a.md"));
    server.did_change(&uri, 2, "# New title\n\nnew text\n");
    let names = server.symbol_names();
    let formatted = server.formatted(&uri);
    server.stop();
    (names, formatted)
}

#[test]
fn did_change_reaches_a_library_opened_through_a_symbolic_link() {
    let dir = temp_dir("symlink");
    let real = dir.join("Dropbox").join("notes");
    std::fs::create_dir_all(&real).unwrap();
    std::fs::write(real.join("a.md"), "# Old title\n\nold text\n").unwrap();
    let link = dir.join("notes");
    std::os::unix::fs::symlink(&real, &link).unwrap();

    // control: the same session with the directory opened by its real path
    let (names, formatted) = edit_and_ask(&real);
    assert_eq!(names, vec!["New title".to_string()], "control (real path)");
    assert_eq!(
        formatted["result"][0]["newText"],
        json!("# New title\n\nnew text\n"),
        "control (real path)"
    );

    // the same directory opened as ~/notes (a link): the editor sends file:///.../notes/a.md
    let (names, formatted) = edit_and_ask(&link);
    assert_eq!(
        names,
        vec!["New title".to_string()],
        "the didChange was not applied: the note still has the text read from disk"
    );
    assert_eq!(
        formatted["result"][0]["newText"],
        json!("# New title\n\nnew text\n"),
        "formatting after the didChange: {}",
        formatted
    );
}
