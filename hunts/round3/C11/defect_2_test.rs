// Defect 2: one didChange whose text holds half of a surrogate pair (what a UTF-16 editor
// such as VS Code serialises as the JSON escape "\\ud83d" when the buffer holds a broken
// emoji) ends the server process: the stdio reader thread stops at the first message it
// cannot decode, Router::run sees the inbox close and main returns an error. Every
// notification sent after it is lost together with all state.
//
// Run: copy to crates/iwes/tests/ and
//   cargo test --offline -p iwes --test defect_2_test -- --nocapture
use std::io::{BufRead, BufReader, Read, Write};
use std::path::{Path, PathBuf};
use std::process::{Child, ChildStdin, Command, Stdio};
use std::sync::mpsc::{channel, Receiver};
use std::time::Duration;

use serde_json::{json, Value};

struct Server {
    child: Child,
    stdin: ChildStdin,
    rx: Receiver<Value>,
    next_id: i64,
}

fn file_uri(path: &Path) -> String {
    lsp_types::Url::from_file_path(path).unwrap().to_string()
}

impl Server {
    // the editor starts the server in the directory it has open
    fn start(cwd: &Path) -> Server {
        let mut child = Command::new(env!("CARGO_BIN_EXE_iwes"))
            .current_dir(cwd)
            .stdin(Stdio::piped())
            .stdout(Stdio::piped())
            .stderr(Stdio::null())
            .spawn()
            .unwrap();
        let stdin = child.stdin.take().unwrap();
        let stdout = child.stdout.take().unwrap();
        let (tx, rx) = channel();
        std::thread::spawn(move || {
            let mut reader = BufReader::new(stdout);
            loop {
                let mut len = 0usize;
                loop {
                    let mut line = String::new();
                    if reader.read_line(&mut line).unwrap_or(0) == 0 {
                        return;
                    }
                    let line = line.trim();
                    if line.is_empty() {
                        break;
                    }
                    if let Some(v) = line.strip_prefix("Content-Length: ") {
                        len = v.parse().unwrap();
                    }
                }
                let mut buf = vec![0u8; len];
                if reader.read_exact(&mut buf).is_err() {
                    return;
                }
                let _ = tx.send(serde_json::from_slice::<Value>(&buf).unwrap());
            }
        });
        let mut server = Server { child, stdin, rx, next_id: 1 };
        server.request(
            "initialize",
            json!({"processId": null, "rootUri": file_uri(cwd), "capabilities": {}}),
        );
        server.notify("initialized", json!({}));
        server
    }

    fn send(&mut self, value: Value) {
        let body = serde_json::to_string(&value).unwrap();
        // (a server that has gone away closes the pipe: the missing answer reports it)
        let _ = write!(self.stdin, "Content-Length: {}\r\n\r\n{}", body.len(), body);
        let _ = self.stdin.flush();
    }

    fn notify(&mut self, method: &str, params: Value) {
        self.send(json!({"jsonrpc": "2.0", "method": method, "params": params}));
    }

    fn request(&mut self, method: &str, params: Value) -> Value {
        let id = self.next_id;
        self.next_id += 1;
        self.send(json!({"jsonrpc": "2.0", "id": id, "method": method, "params": params}));
        loop {
            let msg = self
                .rx
                .recv_timeout(Duration::from_secs(60))
                .expect("a response in time");
            if msg.get("id") == Some(&json!(id)) && msg.get("method").is_none() {
                return msg;
            }
        }
    }

    fn did_change(&mut self, uri: &str, version: i64, text: &str) {
        self.notify(
            "textDocument/didChange",
            json!({"textDocument": {"uri": uri, "version": version},
                   "contentChanges": [{"text": text}]}),
        );
    }

    fn symbol_names(&mut self) -> Vec<String> {
        let r = self.request("workspace/symbol", json!({"query": ""}));
        r["result"]
            .as_array()
            .unwrap()
            .iter()
            .map(|s| s["name"].as_str().unwrap().to_string())
            .collect()
    }

    fn formatted(&mut self, uri: &str) -> Value {
        self.request(
            "textDocument/formatting",
            json!({"textDocument": {"uri": uri}, "options": {"tabSize": 2, "insertSpaces": true}}),
        )
    }

    fn stop(mut self) {
        let _ = self.request("shutdown", Value::Null);
        self.notify("exit", Value::Null);
        let _ = self.child.wait();
    }
}

fn temp_dir(name: &str) -> PathBuf {
    let dir = std::env::temp_dir().join(format!("iwe-hunt3-c11-{}-{}", name, std::process::id()));
    let _ = std::fs::remove_dir_all(&dir);
    std::fs::create_dir_all(&dir).unwrap();
    dir.canonicalize().unwrap()
}


impl Server {
    fn send_raw(&mut self, body: &str) {
        let _ = write!(self.stdin, "Content-Length: {}\r\n\r\n{}", body.len(), body);
        let _ = self.stdin.flush();
    }
}

// a didChange as JSON text, `escaped_text` already being the inside of a JSON string
fn did_change_json(uri: &str, version: i64, escaped_text: &str) -> String {
    format!(
        "{{\"jsonrpc\":\"2.0\",\"method\":\"textDocument/didChange\",\"params\":{{\"textDocument\":{{\"uri\":\"{}\",\"version\":{}}},\"contentChanges\":[{{\"text\":\"{}\"}}]}}}}",
        uri, version, escaped_text
    )
}

fn session(first_text_escaped: &str) -> Option<Vec<String>> {
    let dir = temp_dir("surrogate");
    std::fs::write(dir.join("a.md"), "# Old title\n").unwrap();
    let mut server = Server::start(&dir);
    let uri = file_uri(&dir.join("a.md"));

    // the user is half way through replacing an emoji ...
    server.send_raw(&did_change_json(&uri, 2, first_text_escaped));
    // ... and done
    server.did_change(&uri, 3, "# Party \u{1F389}\n");

    // a request issued after both notifications
    let id = server.next_id;
    server.next_id += 1;
    server.send(json!({"jsonrpc": "2.0", "id": id, "method": "workspace/symbol", "params": {"query": ""}}));
    let answer = loop {
        match server.rx.recv_timeout(Duration::from_secs(20)) {
            Ok(msg) if msg.get("id") == Some(&json!(id)) => break Some(msg),
            Ok(_) => continue,
            Err(_) => break None,
        }
    };
    let names = answer.map(|r| {
        r["result"]
            .as_array()
            .unwrap()
            .iter()
            .map(|s| s["name"].as_str().unwrap().to_string())
            .collect::<Vec<_>>()
    });
    if names.is_some() {
        server.stop();
    } else {
        let status = server.child.wait().unwrap();
        println!("the server process is gone: {:?}", status);
    }
    names
}

#[test]
fn a_text_with_a_lone_surrogate_does_not_end_the_server() {
    // control: the same session with a complete pair (U+1F600) in the first text
    assert_eq!(
        session("# Emoji \\ud83d\\ude00\\n"),
        Some(vec!["Party \u{1F389}".to_string()]),
        "control (complete surrogate pair)"
    );

    // half a pair in the first text; the second didChange is well-formed
    assert_eq!(
        session("# Emoji \\ud83d\\n"),
        Some(vec!["Party \u{1F389}".to_string()]),
        "the didChange sent after the undecodable one was never applied (no answer: the server exited)"
    );
}
