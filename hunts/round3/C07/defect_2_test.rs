// Defect 2: a block quote that holds nothing the graph keeps (a bare ">", a quote with only
// an html block such as <img> or a comment, or only a link reference definition) is written
// as an empty line. Two lists of the same kind around it are then separated by blank lines
// only and are read back as ONE list: the marker alternation of the adjacent-lists repair
// (fdbb410) is not applied because the empty quote still sits between them in the block list.
//
// Run: copy into crates/liwe/tests/ and
//   cargo test --offline -p liwe --test defect_2_test -- --nocapture

use liwe::graph::Graph;
use liwe::markdown::MarkdownReader;
use pulldown_cmark::{Event, Options, Parser, Tag, TagEnd};

fn format(text: &str) -> String {
    let mut graph = Graph::new();
    graph.from_markdown("key".into(), text, MarkdownReader::new());
    graph.to_markdown(&"key".into())
}

/// the top-level lists of a document: (ordered?, number of items)
fn lists(text: &str) -> Vec<(bool, usize)> {
    let options = Options::ENABLE_YAML_STYLE_METADATA_BLOCKS
        | Options::ENABLE_WIKILINKS
        | Options::ENABLE_TABLES;
    let mut depth = 0;
    let mut result = vec![];
    for event in Parser::new_ext(text, options) {
        match event {
            Event::Start(Tag::List(start)) => {
                if depth == 0 {
                    result.push((start.is_some(), 0));
                }
                depth += 1;
            }
            Event::End(TagEnd::List(_)) => depth -= 1,
            Event::Start(Tag::Item) if depth == 1 => result.last_mut().unwrap().1 += 1,
            _ => {}
        }
    }
    result
}

// as in the README of yargs: two lists with a quoted screenshot between them
#[test]
fn lists_around_a_quoted_html_image_stay_two_lists() {
    let text = "\
It gives you:

* commands and options
* a generated help menu

> <img width=\"400\" src=\"/screen.png\">

* bash-completion shortcuts
* and tons more
";
    let formatted = format(text);
    println!("{}", formatted);

    assert_eq!(vec![(false, 2), (false, 2)], lists(text));
    // actual: [(false, 4)] - one list of four items
    assert_eq!(lists(text), lists(&formatted));
}

#[test]
fn ordered_lists_around_an_empty_quote_stay_two_lists() {
    // ">" is what is there while a quote is being typed between two lists
    let text = "1. a\n2. b\n\n>\n\n1. c\n2. d\n";
    let formatted = format(text);
    println!("{}", formatted);

    assert_eq!(vec![(true, 2), (true, 2)], lists(text));
    // actual: [(true, 4)] - "c" and "d" become items 3 and 4 of the first list
    assert_eq!(lists(text), lists(&formatted));
}

// control: without the quote the two lists are kept apart (repair fdbb410)
#[test]
fn control_adjacent_lists_are_kept_apart() {
    let text = "- a\n- b\n\n<!-- -->\n\n- c\n- d\n";
    assert_eq!(vec![(false, 2), (false, 2)], lists(text));
    assert_eq!(lists(text), lists(&format(text)));
}
