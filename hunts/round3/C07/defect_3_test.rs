// Defect 3: a code block is always written between backtick fences, with its info string
// behind the opening fence. The info string of a "~~~" block may hold backticks (pandoc
// attributes, captions); behind a backtick fence such a line is no fence at all. The code
// is read back as live Markdown: "# ..." lines of the code become headings of the outline,
// and the closing fence opens a code block that swallows the rest of the note.
//
// Run: copy into crates/liwe/tests/ and
//   cargo test --offline -p liwe --test defect_3_test -- --nocapture

use liwe::graph::Graph;
use liwe::markdown::MarkdownReader;
use pulldown_cmark::{Event, Options, Parser, Tag, TagEnd};

fn format(text: &str) -> String {
    let mut graph = Graph::new();
    graph.from_markdown("key".into(), text, MarkdownReader::new());
    graph.to_markdown(&"key".into())
}

/// the headings of the outline and the number of lists and code blocks
fn outline(text: &str) -> (Vec<(u8, String)>, usize, usize) {
    let options = Options::ENABLE_YAML_STYLE_METADATA_BLOCKS
        | Options::ENABLE_WIKILINKS
        | Options::ENABLE_TABLES;
    let mut headings = vec![];
    let mut lists = 0;
    let mut code_blocks = 0;
    let mut heading: Option<String> = None;
    for event in Parser::new_ext(text, options) {
        match event {
            Event::Start(Tag::Heading { .. }) => heading = Some(String::new()),
            Event::End(TagEnd::Heading(level)) => {
                headings.push((level as u8, heading.take().unwrap()))
            }
            Event::Text(t) | Event::Code(t) => {
                if let Some(text) = heading.as_mut() {
                    text.push_str(&t)
                }
            }
            Event::Start(Tag::List(_)) => lists += 1,
            Event::Start(Tag::CodeBlock(_)) => code_blocks += 1,
            _ => {}
        }
    }
    (headings, lists, code_blocks)
}

#[test]
fn code_with_a_backtick_in_its_info_string_stays_code() {
    let text = "\
# Notes

~~~ {.markdown caption=\"`README` template\"}
# Project name

- first point
~~~

## Next section

text
";
    let formatted = format(text);
    println!("{}", formatted);

    assert_eq!(
        (
            vec![(1, "Notes".to_string()), (2, "Next section".to_string())],
            0,
            1
        ),
        outline(text)
    );
    // actual: headings Notes / Project name, one list, and "## Next section" is inside a
    // code block that the former closing fence opens
    assert_eq!(outline(text), outline(&formatted));
}

// control: the same block without a backtick in the info string is kept
#[test]
fn control_plain_info_string_is_kept() {
    let text = "# Notes\n\n~~~ markdown\n# Project name\n\n- first point\n~~~\n\n## Next section\n";
    assert_eq!(outline(text), outline(&format(text)));
}
