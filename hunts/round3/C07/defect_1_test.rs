// Defect 1: sibling sections are split at the level of the FIRST heading of a range
// (SectionsBuilder::process_blocks_at), not at each section's own level. When the first
// heading of a note (or of a section) is deeper than a later one, every heading after it
// that is at or above that first level becomes a sibling: sub-sections leave their parent.
//
// Run: copy into crates/liwe/tests/ and
//   cargo test --offline -p liwe --test defect_1_test -- --nocapture

use liwe::graph::Graph;
use liwe::markdown::MarkdownReader;
use pulldown_cmark::{Event, Options, Parser, Tag, TagEnd};

fn format(text: &str) -> String {
    let mut graph = Graph::new();
    graph.from_markdown("key".into(), text, MarkdownReader::new());
    graph.to_markdown(&"key".into())
}

/// Every top-level heading and paragraph with the texts of the headings it is under.
/// A heading of level L is under the nearest preceding heading with a level below L
/// (the outline every Markdown reader, table of contents and editor shows).
fn outline(text: &str) -> Vec<(String, Vec<String>)> {
    let options = Options::ENABLE_YAML_STYLE_METADATA_BLOCKS
        | Options::ENABLE_WIKILINKS
        | Options::ENABLE_TABLES;
    let mut open: Vec<(u8, String)> = vec![];
    let mut result = vec![];
    let mut text_of_block = String::new();
    for event in Parser::new_ext(text, options) {
        match event {
            Event::Start(Tag::Heading { .. }) | Event::Start(Tag::Paragraph) => {
                text_of_block.clear()
            }
            Event::Text(t) | Event::Code(t) => text_of_block.push_str(&t),
            Event::SoftBreak | Event::HardBreak => text_of_block.push(' '),
            Event::End(TagEnd::Heading(level)) => {
                let level = level as u8;
                while open.last().map_or(false, |(l, _)| *l >= level) {
                    open.pop();
                }
                result.push((
                    format!("heading {}", text_of_block),
                    open.iter().map(|(_, t)| t.clone()).collect(),
                ));
                open.push((level, text_of_block.clone()));
            }
            Event::End(TagEnd::Paragraph) => result.push((
                format!("paragraph {}", text_of_block),
                open.iter().map(|(_, t)| t.clone()).collect(),
            )),
            _ => {}
        }
    }
    result
}

fn levels(text: &str) -> Vec<u8> {
    Parser::new(text)
        .filter_map(|event| match event {
            Event::Start(Tag::Heading { level, .. }) => Some(level as u8),
            _ => None,
        })
        .collect()
}

fn well_nested(levels: &[u8]) -> bool {
    let mut previous = 0;
    levels.iter().all(|level| {
        let ok = *level <= previous + 1;
        previous = *level;
        ok
    })
}

// the heading structure of a real README (quinn 0.11: the title is an html <h1>, the first
// Markdown heading is "## Features")
const README: &str = "\
## Features

intro

# Getting Started

## Usage Notes

### Buffers

buffer text

## Contribution

thanks
";

#[test]
fn sections_stay_under_their_heading_when_the_first_heading_is_deeper() {
    let formatted = format(README);
    println!("{}", formatted);

    // what the property grants: the result is well-nested, headings keep order and text
    assert!(well_nested(&levels(&formatted)));
    assert_eq!(
        outline(README).iter().map(|(b, _)| b.clone()).collect::<Vec<_>>(),
        outline(&formatted).iter().map(|(b, _)| b.clone()).collect::<Vec<_>>(),
    );

    // what it demands: every block stays under the same heading(s).
    // "Usage Notes" and "Contribution" are sections of "Getting Started", "buffer text" is
    // under Getting Started > Usage Notes > Buffers.
    // Actual output: "# Features / # Getting Started / # Usage Notes / ## Buffers /
    // # Contribution": Usage Notes and Contribution left Getting Started.
    assert_eq!(outline(README), outline(&formatted));
}

// conventional-changelog files: "#" title, "###" patch releases, "##" minor releases
const CHANGELOG: &str = "\
# Change Log

### 1.0.1 (2019-08-12)

- patch

## 1.0.0 (2019-07-15)

### Features

- feature

### Bug Fixes

- fix
";

#[test]
fn a_deeper_first_subsection_does_not_flatten_the_later_ones() {
    let formatted = format(CHANGELOG);
    println!("{}", formatted);

    assert!(well_nested(&levels(&formatted)));
    // "Features" and "Bug Fixes" belong to "1.0.0"; after formatting they are its siblings
    // (all four become "##")
    assert_eq!(outline(CHANGELOG), outline(&formatted));
}

// the same note with the first sub-heading one level up is kept as it is: a single heading
// level decides where unrelated later headings end up
#[test]
fn control_well_nested_variant_is_kept() {
    let text = CHANGELOG.replace("### 1.0.1", "## 1.0.1");
    assert_eq!(outline(&text), outline(&format(&text)));
    assert_eq!(levels(&text), levels(&format(&text)));
}
