// Defect 2: textDocument/didOpen is ignored, so backlinks are computed from the text the server
// read from disk at start-up and not from the text the editor has open.
//
// A note that changed on disk while the server was running (git pull, a sync tool, another
// program) and is then opened in the editor arrives with its current text in didOpen.  The
// router only handles didChange and didSave (crates/iwes/src/router.rs, on_notification), so the
// links of the opened text are missing from find-references / inlay hints - and links the text
// no longer has keep being reported - until the first key stroke in that note.  The same holds
// for a note that did not exist when the server started: opening it does not make it known.
//
// Run: copy to crates/iwes/tests/ and
//   cargo test --offline -p iwes --test defect_2_test -- --nocapture

use lsp_types::notification::DidOpenTextDocument;
use lsp_types::request::{InlayHintRequest, References};
use lsp_types::*;
use serde_json::Value;

use crate::fixture::{uri_from, Fixture};

mod fixture;

fn references(f: &Fixture, key: &str) -> Vec<(String, u64)> {
    let v: Value = f.send_request::<References>(ReferenceParams {
        text_document_position: TextDocumentPositionParams {
            text_document: TextDocumentIdentifier { uri: uri_from(key) },
            position: Position::new(0, 0),
        },
        work_done_progress_params: Default::default(),
        partial_result_params: Default::default(),
        context: ReferenceContext {
            include_declaration: false,
        },
    });
    v.as_array()
        .map(|locations| {
            locations
                .iter()
                .map(|l| {
                    (
                        l["uri"].as_str().unwrap().to_string(),
                        l["range"]["start"]["line"].as_u64().unwrap(),
                    )
                })
                .collect()
        })
        .unwrap_or_default()
}

fn hint_labels(f: &Fixture, key: &str) -> Vec<String> {
    let v: Value = f.send_request::<InlayHintRequest>(InlayHintParams {
        work_done_progress_params: Default::default(),
        text_document: TextDocumentIdentifier { uri: uri_from(key) },
        range: Range::new(Position::new(0, 0), Position::new(1000, 0)),
    });
    v.as_array()
        .map(|hints| {
            hints
                .iter()
                .map(|h| h["label"].as_str().unwrap().to_string())
                .collect()
        })
        .unwrap_or_default()
}

fn open(f: &Fixture, key: &str, text: &str) {
    f.notification::<DidOpenTextDocument>(DidOpenTextDocumentParams {
        text_document: TextDocumentItem {
            uri: uri_from(key),
            language_id: "markdown".to_string(),
            version: 1,
            text: text.to_string(),
        },
    });
}

#[test]
fn links_of_the_opened_text_are_found() {
    // at start-up `journal` does not link to anything
    let f = Fixture::with_documents(vec![
        ("project", "# Project\n"),
        ("journal", "# Journal\n\nnothing yet\n"),
    ]);

    // the file was rewritten on disk (git pull); the editor opens it with its current text
    open(
        &f,
        "journal",
        "# Journal\n\nworked on [the project](project)\n\n[Project](project)\n",
    );

    assert_eq!(
        vec![
            (uri_from("journal").to_string(), 2),
            (uri_from("journal").to_string(), 4),
        ],
        references(&f, "project")
    );
    assert_eq!(
        vec!["↖Journal".to_string(), "‹1›".to_string()],
        hint_labels(&f, "project")
    );
}

#[test]
fn links_the_opened_text_no_longer_has_are_not_reported() {
    let f = Fixture::with_documents(vec![
        ("project", "# Project\n"),
        ("journal", "# Journal\n\nworked on [the project](project)\n"),
    ]);

    open(&f, "journal", "# Journal\n\nnothing about it any more\n");

    assert_eq!(Vec::<(String, u64)>::new(), references(&f, "project"));
}

#[test]
fn a_note_created_after_start_up_is_known_once_it_is_opened() {
    let f = Fixture::with_documents(vec![("project", "# Project\n")]);

    open(&f, "ideas", "# Ideas\n\n[Project](project)\n");

    assert_eq!(
        vec![(uri_from("ideas").to_string(), 2)],
        references(&f, "project")
    );
}
