// Defect 3: a note that has been deleted keeps being reported as a place that links to other
// notes - also when the deletion is the server's own doing.
//
// "Inline section" on the block reference [Chapter](chapter) in `book` answers with a workspace
// edit that deletes chapter.md and rewrites book.md.  The client applies it, sends didChange for
// book.md and - for chapter.md - didClose, workspace/didDeleteFiles and
// workspace/didChangeWatchedFiles(Deleted).  The server handles none of the three (router.rs
// knows didChange and didSave only, and there is no other way to make it forget a note), so the
// graph keeps `chapter` with all its links: find-references on `glossary` still lists
// chapter.md - a file that no longer exists - next to the correct new location in book.md, and
// the inlay hints still count it.  Only a restart clears it.  Rename leaves the same ghost behind
// under the old name.
//
// Run: copy to crates/iwes/tests/ and
//   cargo test --offline -p iwes --test defect_3_test -- --nocapture

use lsp_types::notification::{
    DidChangeWatchedFiles, DidCloseTextDocument, DidDeleteFiles,
};
use lsp_types::request::{CodeActionRequest, InlayHintRequest, References};
use lsp_types::*;
use serde_json::Value;

use crate::fixture::{action_kinds, uri_from, Fixture};

mod fixture;

fn references(f: &Fixture, key: &str) -> Vec<(String, u64)> {
    let v: Value = f.send_request::<References>(ReferenceParams {
        text_document_position: TextDocumentPositionParams {
            text_document: TextDocumentIdentifier { uri: uri_from(key) },
            position: Position::new(0, 0),
        },
        work_done_progress_params: Default::default(),
        partial_result_params: Default::default(),
        context: ReferenceContext {
            include_declaration: false,
        },
    });
    v.as_array()
        .map(|locations| {
            locations
                .iter()
                .map(|l| {
                    (
                        l["uri"].as_str().unwrap().to_string(),
                        l["range"]["start"]["line"].as_u64().unwrap(),
                    )
                })
                .collect()
        })
        .unwrap_or_default()
}

fn hint_labels(f: &Fixture, key: &str) -> Vec<String> {
    let v: Value = f.send_request::<InlayHintRequest>(InlayHintParams {
        work_done_progress_params: Default::default(),
        text_document: TextDocumentIdentifier { uri: uri_from(key) },
        range: Range::new(Position::new(0, 0), Position::new(1000, 0)),
    });
    v.as_array()
        .map(|hints| {
            hints
                .iter()
                .map(|h| h["label"].as_str().unwrap().to_string())
                .collect()
        })
        .unwrap_or_default()
}

// everything a client can tell a server about a file that is gone
fn tell_deleted(f: &Fixture, key: &str) {
    f.notification::<DidCloseTextDocument>(DidCloseTextDocumentParams {
        text_document: TextDocumentIdentifier { uri: uri_from(key) },
    });
    f.notification::<DidDeleteFiles>(DeleteFilesParams {
        files: vec![FileDelete {
            uri: uri_from(key).to_string(),
        }],
    });
    f.notification::<DidChangeWatchedFiles>(DidChangeWatchedFilesParams {
        changes: vec![FileEvent {
            uri: uri_from(key),
            typ: FileChangeType::DELETED,
        }],
    });
}

#[test]
fn a_note_deleted_by_inline_section_is_no_longer_a_backlink_source() {
    let f = Fixture::with_documents(vec![
        ("glossary", "# Glossary\n"),
        ("book", "# Book\n\n[Chapter](chapter)\n"),
        ("chapter", "# Chapter\n\nsee the [glossary](glossary)\n"),
    ]);

    // before: the glossary is linked from the chapter
    assert_eq!(
        vec![(uri_from("chapter").to_string(), 2)],
        references(&f, "glossary")
    );

    // the server's own refactoring: inline the chapter into the book
    let actions: Value = f.send_request::<CodeActionRequest>(CodeActionParams {
        text_document: TextDocumentIdentifier {
            uri: uri_from("book"),
        },
        range: Range::new(Position::new(2, 0), Position::new(2, 0)),
        work_done_progress_params: Default::default(),
        partial_result_params: Default::default(),
        context: CodeActionContext {
            diagnostics: Default::default(),
            only: action_kinds("refactor.inline.reference.section"),
            trigger_kind: Some(CodeActionTriggerKind::INVOKED),
        },
    });
    let action: CodeAction =
        serde_json::from_value(actions.as_array().unwrap().first().unwrap().clone()).unwrap();
    let resolved: Value = f.send_request::<lsp_types::request::CodeActionResolveRequest>(action);
    let operations = resolved["edit"]["documentChanges"].as_array().unwrap().clone();

    // it asks the client to delete chapter.md and to replace the text of book.md
    let deleted = operations
        .iter()
        .find(|op| op["kind"] == "delete")
        .expect("a delete operation");
    assert_eq!(uri_from("chapter").to_string(), deleted["uri"].as_str().unwrap());
    let new_book = operations
        .iter()
        .find(|op| op["textDocument"]["uri"] == uri_from("book").to_string())
        .expect("an edit of book.md")["edits"][0]["newText"]
        .as_str()
        .unwrap()
        .to_string();
    assert_eq!("# Book\n\n## Chapter\n\nsee the [Glossary](glossary)\n", new_book);

    // the client applies the edit and reports what it did
    f.did_change_text_document(DidChangeTextDocumentParams {
        text_document: VersionedTextDocumentIdentifier {
            uri: uri_from("book"),
            version: 2,
        },
        content_changes: vec![TextDocumentContentChangeEvent {
            range: None,
            range_length: None,
            text: new_book,
        }],
    });
    tell_deleted(&f, "chapter");

    // after: the glossary is linked from the book, and from nowhere else
    assert_eq!(
        vec![(uri_from("book").to_string(), 4)],
        references(&f, "glossary")
    );
    assert_eq!(vec!["‹1›".to_string()], hint_labels(&f, "glossary"));
}
