// Defect 1: backlink locations (find-references, block-reference hints) carry wrong lines for a
// note whose lines end in a lone carriage return ("\r": classic Mac files, Neovim buffers with
// fileformat=mac send exactly this text in didChange).
//
// LSP counts "\n", "\r\n" and "\r" as line endings, and so does the Markdown parser (it splits the
// blocks of such a note correctly).  The reader's line table (`line_starts` in
// crates/liwe/src/markdown/reader.rs) only knows "\n", so every block of the note is reported on
// line 0.  The repair of KF-positions-crlf-utf16 covered "\r\n" only.
//
// Run: copy to crates/iwes/tests/ and
//   cargo test --offline -p iwes --test defect_1_test -- --nocapture

use lsp_types::request::{InlayHintRequest, References};
use lsp_types::*;
use serde_json::Value;

use crate::fixture::{uri_from, Fixture};

mod fixture;

fn references(f: &Fixture, key: &str) -> Vec<(String, u64)> {
    let v: Value = f.send_request::<References>(ReferenceParams {
        text_document_position: TextDocumentPositionParams {
            text_document: TextDocumentIdentifier { uri: uri_from(key) },
            position: Position::new(0, 0),
        },
        work_done_progress_params: Default::default(),
        partial_result_params: Default::default(),
        context: ReferenceContext {
            include_declaration: false,
        },
    });
    v.as_array()
        .map(|locations| {
            locations
                .iter()
                .map(|l| {
                    (
                        l["uri"].as_str().unwrap().to_string(),
                        l["range"]["start"]["line"].as_u64().unwrap(),
                    )
                })
                .collect()
        })
        .unwrap_or_default()
}

fn hints(f: &Fixture, key: &str) -> Vec<(String, u64)> {
    let v: Value = f.send_request::<InlayHintRequest>(InlayHintParams {
        work_done_progress_params: Default::default(),
        text_document: TextDocumentIdentifier { uri: uri_from(key) },
        range: Range::new(Position::new(0, 0), Position::new(1000, 0)),
    });
    v.as_array()
        .map(|hints| {
            hints
                .iter()
                .map(|h| {
                    (
                        h["label"].as_str().unwrap().to_string(),
                        h["position"]["line"].as_u64().unwrap(),
                    )
                })
                .collect()
        })
        .unwrap_or_default()
}

// line 0: "# Referrer", line 2: a paragraph that links to `target`, line 4: a block reference
const CR_NOTE: &str = "# Referrer\r\rsee [the target](target) here\r\r[Target](target)\r";

fn expected() -> Vec<(String, u64)> {
    vec![
        (uri_from("referrer").to_string(), 2),
        (uri_from("referrer").to_string(), 4),
    ]
}

#[test]
fn references_in_a_note_with_cr_line_endings_loaded_from_disk() {
    let f = Fixture::with_documents(vec![("target", "# Target\n"), ("referrer", CR_NOTE)]);

    assert_eq!(expected(), references(&f, "target"));
}

#[test]
fn references_in_a_note_with_cr_line_endings_after_an_edit() {
    let f = Fixture::with_documents(vec![("target", "# Target\n"), ("referrer", "# Referrer\n")]);

    f.did_change_text_document(DidChangeTextDocumentParams {
        text_document: VersionedTextDocumentIdentifier {
            uri: uri_from("referrer"),
            version: 2,
        },
        content_changes: vec![TextDocumentContentChangeEvent {
            range: None,
            range_length: None,
            text: CR_NOTE.to_string(),
        }],
    });

    assert_eq!(expected(), references(&f, "target"));
}

#[test]
fn block_reference_hint_in_a_note_with_cr_line_endings() {
    let f = Fixture::with_documents(vec![("target", "# Target\n"), ("referrer", CR_NOTE)]);

    // the counter of the block reference belongs on the line of the block reference
    assert_eq!(vec![("⎘".to_string(), 4)], hints(&f, "referrer"));
}
