// Defect 3: a note file that starts with a UTF-8 byte-order mark (EF BB BF - what Windows
// Notepad's "UTF-8 with BOM", Windows PowerShell's `Out-File -Encoding utf8` and several
// exporters write) is loaded with the mark as the first character of line 0.
//
// Editors do not show the mark and do not count it: VS Code, Vim/Neovim ('bomb'), Helix and Zed
// strip it from the buffer and remember it as an encoding property, so the text their positions
// refer to starts with the first visible character. The server counts the mark as one UTF-16
// unit, so on the first line every column it receives is taken one character to the left:
// the cursor on the opening `[` of a link at the start of the note gets nothing, and the cursor
// on the blank after the link does get its definition. (The same mark also keeps a first-line
// `# Title` from being read as a heading; that is outside this property.)
//
// The test loads the library from disk, as the server does, and sends the positions an editor
// sends for the text it shows.
//
// copy to crates/iwes/tests/ and run:
//   cargo test --offline -p iwes --test defect_3_test -- --nocapture

use std::time::Duration;

use iwes::{main_loop, ServerParams};
use liwe::model::config::Configuration;
use lsp_server::{Connection, Message, Request};
use lsp_types::Url;
use serde_json::{json, Value};

fn request(client: &Connection, id: i32, method: &str, params: Value) -> Value {
    client
        .sender
        .send(Message::Request(Request::new(
            id.into(),
            method.to_string(),
            params,
        )))
        .unwrap();
    loop {
        match client
            .receiver
            .recv_timeout(Duration::from_secs(60))
            .expect("an answer")
        {
            Message::Response(response) if response.id == id.into() => {
                assert!(response.error.is_none(), "{:?}", response.error);
                return response.result.unwrap_or(Value::Null);
            }
            _ => continue,
        }
    }
}

#[test]
fn first_line_of_a_note_with_a_byte_order_mark() {
    let directory = std::env::temp_dir().join(format!("iwe-hunt3-bom-{}", std::process::id()));
    let _ = std::fs::remove_dir_all(&directory);
    std::fs::create_dir_all(&directory).unwrap();

    // what the editor shows (and counts) for both notes
    let shown = "[Home](home) / projects\n\n# Project\n\ntext [again](home)\n";
    std::fs::write(directory.join("plain.md"), shown).unwrap();
    let mut with_mark = vec![0xEF, 0xBB, 0xBF];
    with_mark.extend_from_slice(shown.as_bytes());
    std::fs::write(directory.join("marked.md"), with_mark).unwrap();
    std::fs::write(directory.join("home.md"), "# Home\n").unwrap();

    let (connection, client) = Connection::memory();
    let base_path = directory.to_string_lossy().to_string();
    let server = std::thread::spawn(move || {
        main_loop(
            connection,
            ServerParams {
                state: None,
                sequential_ids: Some(true),
                client_name: None,
                configuration: Configuration::default(),
                base_path,
            },
        )
        .unwrap()
    });

    let home = Url::from_file_path(directory.join("home.md")).unwrap();
    let to_home = json!({
        "uri": home,
        "range": {"start": {"line": 0, "character": 0}, "end": {"line": 0, "character": 0}}
    });

    // `[Home](home)` is columns 0..12 of line 0 in the text the editor shows
    let mut id = 0;
    let mut wrong = vec![];
    for note in ["plain.md", "marked.md"] {
        let uri = Url::from_file_path(directory.join(note)).unwrap();
        for character in 0..15u32 {
            id += 1;
            let answer = request(
                &client,
                id,
                "textDocument/definition",
                json!({
                    "textDocument": {"uri": uri},
                    "position": {"line": 0, "character": character}
                }),
            );
            let expected = if character < 12 { to_home.clone() } else { json!([]) };
            if answer != expected {
                wrong.push(format!(
                    "{} line 0 column {}: expected {} got {}",
                    note, character, expected, answer
                ));
            }
        }
        // a later line is not shifted
        id += 1;
        let answer = request(
            &client,
            id,
            "textDocument/definition",
            json!({"textDocument": {"uri": uri}, "position": {"line": 4, "character": 5}}),
        );
        if answer != to_home {
            wrong.push(format!("{} line 4 column 5: got {}", note, answer));
        }
    }

    id += 1;
    request(&client, id, "shutdown", Value::Null);
    client
        .sender
        .send(Message::Notification(lsp_server::Notification::new(
            "exit".to_string(),
            Value::Null,
        )))
        .unwrap();
    let _ = server.join();
    let _ = std::fs::remove_dir_all(&directory);

    assert!(wrong.is_empty(), "\n{}", wrong.join("\n"));
}
