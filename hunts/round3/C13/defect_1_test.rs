// Defect 1: the closing bracket of a wiki link is not part of the link.
//
// `[[b]]` occupies columns 4..9 of line 2 below, `[[b|text]]` columns 14..24. Go-to-definition,
// prepareRename and rename answer for every column of these spans except the last one (the
// final `]`): a cursor that sits on the last character of a wiki link (block cursor of
// Vim / Neovim / Helix, or a caret between the two closing brackets) gets nothing, while the
// last character of an ordinary link `[t](b)` (its `)`) does answer.
//
// copy to crates/iwes/tests/ and run:
//   cargo test --offline -p iwes --test defect_1_test -- --nocapture

use lsp_types::request::{GotoDefinition, PrepareRenameRequest};
use lsp_types::{
    GotoDefinitionParams, Position, TextDocumentIdentifier, TextDocumentPositionParams,
};
use serde_json::{json, Value};

use fixture::uri_from;

use crate::fixture::Fixture;

mod fixture;

fn definition(fixture: &Fixture, line: u32, character: u32) -> Value {
    fixture.send_request::<GotoDefinition>(GotoDefinitionParams {
        text_document_position_params: TextDocumentPositionParams {
            text_document: TextDocumentIdentifier { uri: uri_from("a") },
            position: Position::new(line, character),
        },
        work_done_progress_params: Default::default(),
        partial_result_params: Default::default(),
    })
}

fn prepare_rename(fixture: &Fixture, line: u32, character: u32) -> Value {
    fixture.send_request::<PrepareRenameRequest>(TextDocumentPositionParams {
        text_document: TextDocumentIdentifier { uri: uri_from("a") },
        position: Position::new(line, character),
    })
}

#[test]
fn every_column_of_a_wiki_link_leads_to_its_note() {
    //                      0         1         2
    //                      0123456789012345678901234567
    let line = "see [[b]] and [[b|text]] x [t](b) y";
    let fixture = Fixture::with_documents(vec![
        ("a", "# A\n\nsee [[b]] and [[b|text]] x [t](b) y\n"),
        ("b", "# B\n"),
    ]);

    let to_b = json!({
        "uri": "file:///basepath/b.md",
        "range": {"start": {"line": 0, "character": 0}, "end": {"line": 0, "character": 0}}
    });

    // the three link spans, as half-open column ranges
    let spans = [(4u32, 9u32, "[[b]]"), (14, 24, "[[b|text]]"), (27, 33, "[t](b)")];
    for (start, end, text) in spans {
        assert_eq!(text, &line[start as usize..end as usize]);
    }

    let mut wrong = vec![];
    for character in 0..line.len() as u32 + 1 {
        let inside = spans
            .iter()
            .find(|(start, end, _)| *start <= character && character < *end);
        let answer = definition(&fixture, 2, character);
        let rename = prepare_rename(&fixture, 2, character);
        match inside {
            Some((_, _, text)) => {
                if answer != to_b {
                    wrong.push(format!(
                        "column {} is inside {} but go-to-definition answers {}",
                        character, text, answer
                    ));
                }
                if rename.is_null() {
                    wrong.push(format!(
                        "column {} is inside {} but prepareRename answers null",
                        character, text
                    ));
                }
            }
            None => {
                if answer != json!([]) {
                    wrong.push(format!(
                        "column {} is outside every link but go-to-definition answers {}",
                        character, answer
                    ));
                }
            }
        }
    }

    assert!(wrong.is_empty(), "\n{}", wrong.join("\n"));
}
