// Defect 2: prepareRename returns an inverted range, or the range of something that is not the
// destination, for every link syntax other than `[text](url)`, `[[key]]` and `<scheme:...>`.
//
// When Parser::url_range_at cannot find the destination after "](" / "[[" / "<" it falls back to
// DocumentInline::key_range, which assumes the shape `[text](url)`:
//     start = link start + length of the plain text + 3,  end = link end - 1
// For a shortcut reference link `[ref]` and a collapsed one `[ref][]` that is start > end (an
// inverted range that points past the link), for a full reference link `[t][ref]` it is the
// label `ref` (the destination `b` is on the line of the definition `[ref]: b`), and for a mail
// autolink `<me@example.com>` (since the repair that prefixes its url with "mailto:") it is
// inverted as well.
//
// The test asks no more than: when prepareRename answers for a position inside a link, the range
// is a range (start <= end) and the text it covers is the placeholder that comes with it, i.e.
// the destination of that link - which is what the answer for `[text](url)` satisfies.
//
// copy to crates/iwes/tests/ and run:
//   cargo test --offline -p iwes --test defect_2_test -- --nocapture

use lsp_types::request::PrepareRenameRequest;
use lsp_types::{Position, TextDocumentIdentifier, TextDocumentPositionParams};
use serde_json::Value;

use fixture::uri_from;

use crate::fixture::Fixture;

mod fixture;

const NOTE: &str = "# A\n\nplain [t](b) x\n\n[ref] and [ref][] and [t][ref] and <me@example.com>\n\n[ref]: b\n";

fn prepare_rename(fixture: &Fixture, line: u32, character: u32) -> Value {
    fixture.send_request::<PrepareRenameRequest>(TextDocumentPositionParams {
        text_document: TextDocumentIdentifier { uri: uri_from("a") },
        position: Position::new(line, character),
    })
}

// the text between two positions of NOTE (all of it is ASCII, so columns are byte offsets)
fn covered(range: &Value) -> Option<String> {
    let lines: Vec<&str> = NOTE.split('\n').collect();
    let start_line = range["start"]["line"].as_u64()? as usize;
    let end_line = range["end"]["line"].as_u64()? as usize;
    let start = range["start"]["character"].as_u64()? as usize;
    let end = range["end"]["character"].as_u64()? as usize;
    if start_line != end_line {
        return None;
    }
    lines.get(start_line)?.get(start..end).map(|s| s.to_string())
}

#[test]
fn rename_range_covers_the_destination() {
    let fixture = Fixture::with_documents(vec![("a", NOTE), ("b", "# B\n")]);

    // (line, column inside the link, what the link looks like)
    let cases = [
        (2u32, 7u32, "[t](b)"),
        (4, 1, "[ref]"),
        (4, 11, "[ref][]"),
        (4, 23, "[t][ref]"),
        (4, 40, "<me@example.com>"),
    ];

    let mut wrong = vec![];
    for (line, character, link) in cases {
        let answer = prepare_rename(&fixture, line, character);
        if answer.is_null() {
            // declining to rename is not a wrong position
            continue;
        }
        let range = &answer["range"];
        let placeholder = answer["placeholder"].as_str().unwrap_or_default().to_string();
        let start = (
            range["start"]["line"].as_u64().unwrap(),
            range["start"]["character"].as_u64().unwrap(),
        );
        let end = (
            range["end"]["line"].as_u64().unwrap(),
            range["end"]["character"].as_u64().unwrap(),
        );

        if start > end {
            wrong.push(format!(
                "{}: inverted range {:?}..{:?} (placeholder {:?})",
                link, start, end, placeholder
            ));
            continue;
        }
        let text = covered(range);
        let destination = placeholder.trim_start_matches("mailto:").to_string();
        if text != Some(placeholder.clone()) && text != Some(destination) {
            wrong.push(format!(
                "{}: range {:?}..{:?} covers {:?}, the destination is {:?}",
                link, start, end, text, placeholder
            ));
        }
    }

    assert!(wrong.is_empty(), "\n{}", wrong.join("\n"));
}
