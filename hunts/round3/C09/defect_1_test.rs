// Defect 1: after "Inline section" / "Inline quote" the server keeps the note it asked the client
// to delete. Every other reference to that note is dangling from then on, but the server still
// offers to inline it and pastes the deleted note's text a second time (and asks to delete a file
// that does not exist any more).
//
// copy to crates/iwes/tests/ and run:
//   cargo test --offline -p iwes --test defect_1_test -- --nocapture
#![allow(dead_code, unused)]
use std::collections::BTreeMap;

use lsp_types::notification::{
    DidChangeTextDocument, DidChangeWatchedFiles, DidCloseTextDocument, DidDeleteFiles,
};
use lsp_types::request::{CodeActionRequest, CodeActionResolveRequest};
use lsp_types::*;
use serde_json::Value;

use crate::fixture::{uri_from, Fixture};

mod fixture;

const INLINE_SECTION: &str = "refactor.inline.reference.section";
const INLINE_QUOTE: &str = "refactor.inline.reference.quote";

fn key_of(uri: &Url) -> String {
    uri.path()
        .trim_start_matches("/basepath/")
        .trim_end_matches(".md")
        .to_string()
}

fn offered(fixture: &Fixture, key: &str, line: u32, kind: &'static str) -> Vec<CodeAction> {
    let actions: Value = fixture.send_request::<CodeActionRequest>(CodeActionParams {
        text_document: TextDocumentIdentifier { uri: uri_from(key) },
        range: Range::new(Position::new(line, 0), Position::new(line, 0)),
        work_done_progress_params: Default::default(),
        partial_result_params: Default::default(),
        context: CodeActionContext {
            diagnostics: Default::default(),
            only: Some(vec![CodeActionKind::new(kind)]),
            trigger_kind: None,
        },
    });
    serde_json::from_value(actions).unwrap()
}

/// resolves the action, applies its edit to `library` the way an editor does, and tells the server
/// about every change through the notifications LSP has for it
fn apply(fixture: &Fixture, library: &mut BTreeMap<String, String>, action: CodeAction) {
    let resolved: Value = fixture.send_request::<CodeActionResolveRequest>(action);
    let resolved: CodeAction = serde_json::from_value(resolved).unwrap();
    let operations = match resolved.edit.unwrap().document_changes.unwrap() {
        DocumentChanges::Operations(operations) => operations,
        _ => panic!("operations expected"),
    };
    for operation in operations {
        match operation {
            DocumentChangeOperation::Op(ResourceOp::Delete(delete)) => {
                assert!(
                    library.remove(&key_of(&delete.uri)).is_some(),
                    "the edit deletes {}, which does not exist",
                    delete.uri
                );
                fixture.notification::<DidCloseTextDocument>(DidCloseTextDocumentParams {
                    text_document: TextDocumentIdentifier {
                        uri: delete.uri.clone(),
                    },
                });
                fixture.notification::<DidDeleteFiles>(DeleteFilesParams {
                    files: vec![FileDelete {
                        uri: delete.uri.to_string(),
                    }],
                });
                fixture.notification::<DidChangeWatchedFiles>(DidChangeWatchedFilesParams {
                    changes: vec![FileEvent {
                        uri: delete.uri.clone(),
                        typ: FileChangeType::DELETED,
                    }],
                });
            }
            DocumentChangeOperation::Edit(edit) => {
                for text_edit in edit.edits {
                    let text = match text_edit {
                        OneOf::Left(text_edit) => text_edit.new_text,
                        _ => panic!("plain edit expected"),
                    };
                    library.insert(key_of(&edit.text_document.uri), text.clone());
                    fixture.notification::<DidChangeTextDocument>(DidChangeTextDocumentParams {
                        text_document: VersionedTextDocumentIdentifier {
                            uri: edit.text_document.uri.clone(),
                            version: 2,
                        },
                        content_changes: vec![TextDocumentContentChangeEvent {
                            range: None,
                            range_length: None,
                            text,
                        }],
                    });
                }
            }
            _ => panic!("unexpected operation"),
        }
    }
}

fn library() -> (Fixture, BTreeMap<String, String>) {
    let documents = vec![
        ("a", "# A\n\n[B](b)\n"),
        ("b", "# B\n\nthe text of b\n"),
        ("c", "# C\n\n[B](b)\n"),
    ];
    (
        Fixture::with_documents(documents.clone()),
        documents
            .into_iter()
            .map(|(k, v)| (k.to_string(), v.to_string()))
            .collect(),
    )
}

fn scenario(kind: &'static str) {
    let (fixture, mut library) = library();

    // 1. inline b into a; the editor applies the edit: b is deleted, a holds its text
    let action = offered(&fixture, "a", 2, kind)
        .into_iter()
        .next()
        .expect("inline is offered on the reference in a");
    apply(&fixture, &mut library, action);
    assert!(!library.contains_key("b"));
    assert_eq!(1, library["a"].matches("the text of b").count());

    // 2. the reference in c is dangling now: nothing can be inlined there
    let again = offered(&fixture, "c", 2, kind);
    if let Some(action) = again.first() {
        // show what the action does before failing
        let resolved: Value = fixture.send_request::<CodeActionResolveRequest>(action.clone());
        println!(
            "offered on a reference to a deleted note; it resolves to:\n{}",
            serde_json::to_string_pretty(&resolved["edit"]).unwrap()
        );
    }
    assert!(
        again.is_empty(),
        "'{}' is still offered on the reference to b, which the previous inline deleted",
        again[0].title
    );
}

#[test]
fn inline_section_after_the_note_was_inlined_elsewhere() {
    scenario(INLINE_SECTION);
}

#[test]
fn inline_quote_after_the_note_was_inlined_elsewhere() {
    scenario(INLINE_QUOTE);
}
