// Defect 2: "Inline section" under a deep section clamps every heading that would need level 7+
// to level 6 (the repair of KF-heading-depth-inline). The text survives, but the written note no
// longer has the inlined content inside the section that held the reference, and the inlined
// note's own section hierarchy is flattened: read back, the sub-sections are siblings.
//
// copy to crates/iwes/tests/ and run:
//   cargo test --offline -p iwes --test defect_2_test -- --nocapture
#![allow(dead_code, unused)]
use std::collections::HashMap;

use lsp_types::request::{CodeActionRequest, CodeActionResolveRequest};
use lsp_types::*;
use serde_json::Value;

use liwe::graph::{Graph, GraphContext};
use liwe::model::config::MarkdownOptions;
use liwe::model::node::Node;
use liwe::model::tree::Tree;
use liwe::model::Key;

use crate::fixture::{uri_from, Fixture};

mod fixture;

fn inline_section(documents: Vec<(&'static str, &'static str)>, key: &str, line: u32) -> String {
    let fixture = Fixture::with_documents(documents);
    let actions: Value = fixture.send_request::<CodeActionRequest>(CodeActionParams {
        text_document: TextDocumentIdentifier { uri: uri_from(key) },
        range: Range::new(Position::new(line, 0), Position::new(line, 0)),
        work_done_progress_params: Default::default(),
        partial_result_params: Default::default(),
        context: CodeActionContext {
            diagnostics: Default::default(),
            only: Some(vec![CodeActionKind::new("refactor.inline.reference.section")]),
            trigger_kind: None,
        },
    });
    let action: CodeAction =
        serde_json::from_value(actions.as_array().unwrap().first().expect("offered").clone())
            .unwrap();
    let resolved: Value = fixture.send_request::<CodeActionResolveRequest>(action);
    let resolved: CodeAction = serde_json::from_value(resolved).unwrap();
    match resolved.edit.unwrap().document_changes.unwrap() {
        DocumentChanges::Operations(operations) => operations
            .into_iter()
            .find_map(|operation| match operation {
                DocumentChangeOperation::Edit(edit) if edit.text_document.uri == uri_from(key) => {
                    match &edit.edits[0] {
                        OneOf::Left(text_edit) => Some(text_edit.new_text.clone()),
                        _ => None,
                    }
                }
                _ => None,
            })
            .expect("the host note is edited"),
        _ => panic!("operations expected"),
    }
}

// the outline of a note as the project reads it: (depth, heading) of every section
fn outline(text: &str) -> Vec<(usize, String)> {
    let state: HashMap<String, String> = vec![("host".to_string(), text.to_string())]
        .into_iter()
        .collect();
    let graph = Graph::import(&state, MarkdownOptions::default());
    let tree = (&graph).collect(&Key::from_file_name("host"));
    let mut result = vec![];
    fn walk(tree: &Tree, depth: usize, result: &mut Vec<(usize, String)>) {
        let is_section = matches!(tree.node, Node::Section(_));
        if is_section {
            result.push((depth, tree.node.plain_text()));
        }
        for child in &tree.children {
            walk(child, if is_section { depth + 1 } else { depth }, result);
        }
    }
    walk(&tree, 0, &mut result);
    result
}

fn depth_of(outline: &Vec<(usize, String)>, heading: &str) -> usize {
    outline
        .iter()
        .find(|(_, text)| text == heading)
        .unwrap_or_else(|| panic!("no section {}", heading))
        .0
}

// a note with three heading levels inlined under a level-4 section: its third level needs level 7
#[test]
fn inlined_hierarchy_is_kept() {
    let text = inline_section(
        vec![
            (
                "host",
                "# Project\n\n## Area\n\n### Topic\n\n#### Details\n\n[Guide](guide)\n",
            ),
            (
                "guide",
                "# Guide\n\nintro\n\n## Install\n\nsteps\n\n### Linux\n\napt\n\n### Mac\n\nbrew\n\n## Usage\n\nrun it\n",
            ),
        ],
        "host",
        8,
    );
    println!("{}", text);
    let outline = outline(&text);
    println!("{:?}", outline);

    // in the referenced note Linux and Mac are sub-sections of Install
    assert!(
        depth_of(&outline, "Linux") > depth_of(&outline, "Install"),
        "'Linux' was a sub-section of 'Install' in the inlined note, now it is its sibling"
    );
}

// a reference held by a level-6 section: the inlined note's sections land outside that section
#[test]
fn inlined_content_stays_in_the_section_that_held_the_reference() {
    let text = inline_section(
        vec![
            (
                "host",
                "# L1\n\n## L2\n\n### L3\n\n#### L4\n\n##### L5\n\n###### L6\n\nown text\n\n[B](b)\n",
            ),
            ("b", "# B\n\nb text\n"),
        ],
        "host",
        14,
    );
    println!("{}", text);
    let outline = outline(&text);
    println!("{:?}", outline);

    assert!(
        depth_of(&outline, "B") > depth_of(&outline, "L6"),
        "the inlined section 'B' is not inside 'L6', the section that held the reference"
    );
}
