// Defect 3: "Extract section" / "Extract sub-sections" title the reference they leave behind with
// the heading's text minus every bare wiki link in it: "## Meeting with [[john]] today" leaves
// "[Meeting with  today](3)". The project itself titles the new note "Meeting with john today"
// (search, hints, and the very next formatting pass rewrites the reference to that).
//
// copy to crates/iwes/tests/ and run:
//   cargo test --offline -p iwes --test defect_3_test -- --nocapture
#![allow(dead_code, unused)]
use std::collections::{BTreeMap, HashMap};

use lsp_types::request::{CodeActionRequest, CodeActionResolveRequest};
use lsp_types::*;
use serde_json::Value;

use liwe::graph::Graph;
use liwe::model::config::MarkdownOptions;

use crate::fixture::{uri_from, Fixture};

mod fixture;

fn key_of(uri: &Url) -> String {
    uri.path()
        .trim_start_matches("/basepath/")
        .trim_end_matches(".md")
        .to_string()
}

/// the library after the action `kind` at `line` of note `key` was applied
fn run(
    documents: Vec<(&'static str, &'static str)>,
    key: &str,
    line: u32,
    kind: &'static str,
) -> BTreeMap<String, String> {
    let mut library: BTreeMap<String, String> = documents
        .iter()
        .map(|(k, v)| (k.to_string(), v.to_string()))
        .collect();
    let fixture = Fixture::with_documents(documents);
    let actions: Value = fixture.send_request::<CodeActionRequest>(CodeActionParams {
        text_document: TextDocumentIdentifier { uri: uri_from(key) },
        range: Range::new(Position::new(line, 0), Position::new(line, 0)),
        work_done_progress_params: Default::default(),
        partial_result_params: Default::default(),
        context: CodeActionContext {
            diagnostics: Default::default(),
            only: Some(vec![CodeActionKind::new(kind)]),
            trigger_kind: None,
        },
    });
    let action: CodeAction =
        serde_json::from_value(actions.as_array().unwrap().first().expect("offered").clone())
            .unwrap();
    let resolved: Value = fixture.send_request::<CodeActionResolveRequest>(action);
    let resolved: CodeAction = serde_json::from_value(resolved).unwrap();
    match resolved.edit.unwrap().document_changes.unwrap() {
        DocumentChanges::Operations(operations) => {
            for operation in operations {
                match operation {
                    DocumentChangeOperation::Op(ResourceOp::Create(create)) => {
                        library.insert(key_of(&create.uri), String::new());
                    }
                    DocumentChangeOperation::Edit(edit) => {
                        if let OneOf::Left(text_edit) = &edit.edits[0] {
                            library
                                .insert(key_of(&edit.text_document.uri), text_edit.new_text.clone());
                        }
                    }
                    _ => panic!("unexpected operation"),
                }
            }
        }
        _ => panic!("operations expected"),
    }
    library
}

fn format(library: &BTreeMap<String, String>) -> BTreeMap<String, String> {
    let state: HashMap<String, String> = library
        .iter()
        .map(|(k, v)| (k.clone(), v.clone()))
        .collect();
    Graph::import(&state, MarkdownOptions::default())
        .export()
        .into_iter()
        .collect()
}

fn documents() -> Vec<(&'static str, &'static str)> {
    vec![
        (
            "1",
            "# Journal\n\n## Meeting with [[john]] today\n\nnotes of the meeting\n",
        ),
        ("john", "# John Doe\n"),
    ]
}

#[test]
fn extract_section_reference_is_titled_with_the_heading() {
    let input: BTreeMap<String, String> = documents()
        .iter()
        .map(|(k, v)| (k.to_string(), v.to_string()))
        .collect();
    // the input is formatted: the heading is written back as it is
    assert_eq!(input, format(&input));

    let after = run(documents(), "1", 2, "refactor.extract.section");
    println!("{}", after["1"]);

    let reference = after["1"]
        .lines()
        .find(|line| line.ends_with("](3)"))
        .expect("a reference to the new note");

    // the heading reads "Meeting with john today" (a bare wiki link shows the name it links to);
    // whichever way the link is spelled out, its place in the title is not empty
    assert_ne!(
        "[Meeting with  today](3)", reference,
        "the reference is titled with the heading minus its wiki link"
    );
}

#[test]
fn extract_section_result_is_formatted() {
    let after = run(documents(), "1", 2, "refactor.extract.section");
    // the new note keeps its heading as it was
    assert_eq!(
        "# Meeting with [[john]] today\n\nnotes of the meeting\n",
        after["3"]
    );
    // the reference carries the title the project gives the new note: formatting the result
    // changes nothing
    assert_eq!(after["1"], format(&after)["1"]);
}

#[test]
fn extract_sub_sections_reference_is_titled_with_the_heading() {
    let after = run(documents(), "1", 0, "refactor.extract.subsections");
    println!("{}", after["1"]);
    assert_eq!(after["1"], format(&after)["1"]);
}
