// Defect 2: Graph::update_key replaces a note's blocks (the old nodes become Empty) and its
// per-note line map, but never removes the old blocks from the global line map
// (Graph.global_nodes_map, read by Graph::node_line_range / GraphContext::node_line_number).
// The line-range map keeps pointing at dead nodes: a removed version is still answered for,
// and the map grows by one entry per block on every edit (full-text sync: every keystroke).
//
// run: copy to crates/liwe/tests/ and
//   cargo test --offline -p liwe --test defect_2_test -- --nocapture

use liwe::graph::{Graph, GraphContext};
use liwe::model::node::NodePointer;
use liwe::model::NodeId;

fn blocks_of(graph: &Graph, key: &str) -> Vec<NodeId> {
    graph
        .maybe_key(&key.into())
        .expect("to have key")
        .get_all_sub_nodes()
}

#[test]
fn line_map_forgets_removed_blocks() {
    let mut graph = Graph::new();
    graph.update_key("a".into(), "# title\n\nfirst paragraph\n\nsecond paragraph\n");

    let first_version = blocks_of(&graph, "a");
    // (the document node itself has no line range)
    assert_eq!(
        3,
        first_version
            .iter()
            .filter(|id| graph.node_line_range(**id).is_some())
            .count()
    );

    // the note is edited: one heading is left
    graph.update_key("a".into(), "# other title\n");

    for id in first_version {
        assert!(
            graph.graph_node(id).is_empty(),
            "block {} of the first version is removed",
            id
        );
        assert_eq!(
            None,
            graph.node_line_range(id),
            "removed block {} still has a line range",
            id
        );
        assert_eq!(None, (&graph).node_line_number(id));
    }
}

#[test]
fn line_map_does_not_grow_with_every_edit() {
    let mut graph = Graph::new();
    let text = "# title\n\nparagraph\n\n- item\n";
    graph.update_key("a".into(), text);

    // a typing session: the same small note arrives a hundred times
    for _ in 0..100 {
        graph.update_key("a".into(), text);
    }

    let live: Vec<NodeId> = blocks_of(&graph, "a");
    let answered = (0..graph.nodes().len() as NodeId)
        .filter(|id| graph.node_line_range(*id).is_some())
        .count();
    let answered_live = live
        .iter()
        .filter(|id| graph.node_line_range(**id).is_some())
        .count();

    assert_eq!(
        answered_live, answered,
        "the line map answers for {} blocks, {} of them live",
        answered, answered_live
    );
}
