// Defect 1: a patch graph built from a tree that holds a Document node below its root (the
// trees the inline actions and the block action build: Tree::append_pre_header / Tree::replace
// with Graph::collect of the inlined note) silently loses every block that follows that
// Document node. GraphBuilder::insert_from_iter / append_from_visitor descend into the
// Document's children and return, never visiting the Document's next siblings, whereas the
// other consumer of the same tree (Projector, i.e. tree.iter().to_markdown()) continues with
// them. The patch graph is a well-formed forest, but walking the note does not visit
// "precisely its blocks": A1 and A2 are gone.
//
// run: copy to crates/liwe/tests/ and
//   cargo test --offline -p liwe --test defect_1_test -- --nocapture

use liwe::graph::{Graph, GraphContext, GraphPatch};
use liwe::model::config::MarkdownOptions;
use liwe::model::node::{Node, NodeIter};
use liwe::model::tree::Tree;
use liwe::model::NodeId;

fn find_reference(tree: &Tree) -> Option<NodeId> {
    if tree.is_reference() {
        return tree.id;
    }
    tree.children.iter().find_map(find_reference)
}

// the blocks of a tree in document order (Document nodes are containers, not blocks)
fn blocks(tree: &Tree, out: &mut Vec<String>) {
    match &tree.node {
        Node::Document(_) => {}
        node => out.push(format!("{:?}", node)),
    }
    tree.children.iter().for_each(|child| blocks(child, out));
}

fn collect(graph: &Graph, key: &str) -> Tree {
    GraphContext::collect(&graph, &key.into())
}

fn library() -> Graph {
    let mut graph = Graph::new();
    graph.update_key(
        "a".into(),
        "# A\n\nintro\n\n[B](b)\n\n## A1\n\ntext a1\n\n## A2\n\ntext a2\n",
    );
    graph.update_key("b".into(), "# B\n\ntext b\n");
    graph
}

// the tree the "Inline section" action builds for the reference [B](b) in note a
fn inline_section_tree(graph: &Graph) -> Tree {
    let a = collect(graph, "a");
    let reference = find_reference(&a).expect("a reference in note a");
    let section = a.get_surrounding_section_id(reference).expect("a section");
    a.remove_node(reference)
        .append_pre_header(section, collect(graph, "b"))
}

#[test]
fn patch_graph_from_inline_section_tree_keeps_every_block() {
    let graph = library();
    let tree = inline_section_tree(&graph);

    let mut expected = vec![];
    blocks(&tree, &mut expected);

    let mut patch = graph.new_patch();
    patch.add_key(&"a".into(), tree.iter());

    let mut actual = vec![];
    blocks(&collect(&patch, "a"), &mut actual);

    assert_eq!(
        expected, actual,
        "walking the note in the patch graph must visit precisely the blocks of the tree it was built from"
    );
}

#[test]
fn patch_graph_and_projector_agree_on_the_same_tree() {
    let graph = library();
    let tree = inline_section_tree(&graph);

    // what the action sends to the editor
    let direct = tree.iter().to_markdown("", &MarkdownOptions::default());
    assert!(direct.contains("## A1") && direct.contains("text a2"));

    let mut patch = graph.new_patch();
    patch.build_key_from_iter(&"a".into(), tree.iter());

    assert_eq!(direct, patch.to_markdown(&"a".into()));
}

// the same with Tree::replace, as "Inline list" and the configured block actions use it
#[test]
fn patch_graph_from_replace_tree_keeps_every_block() {
    let graph = library();
    let a = collect(&graph, "a");
    let reference = find_reference(&a).unwrap();
    let tree = a.replace(reference, &collect(&graph, "b"));

    let mut expected = vec![];
    blocks(&tree, &mut expected);

    let mut patch = graph.new_patch();
    patch.add_key(&"a".into(), tree.iter());

    let mut actual = vec![];
    blocks(&collect(&patch, "a"), &mut actual);

    assert_eq!(expected, actual);
}
