// Defect 3: Arena::delete_branch clears the text of the paragraphs and headings of a removed
// note version (their Line is replaced by an empty one) but not the text of its table cells:
// GraphNode::line_id() is None for a Table, so the header / row lines stay in the arena with
// their words, links included, for as long as the process lives. The removed version of a
// table stays readable through Graph::get_line.
//
// run: copy to crates/liwe/tests/ and
//   cargo test --offline -p liwe --test defect_3_test -- --nocapture

use liwe::graph::Graph;
use liwe::model::node::NodePointer;
use liwe::model::LineId;

fn lines_of_first_version(graph: &Graph) -> (LineId, Vec<LineId>) {
    let ids = graph
        .maybe_key(&"a".into())
        .expect("to have key")
        .get_all_sub_nodes();

    let paragraph = ids
        .iter()
        .find_map(|id| graph.graph_node(*id).line_id())
        .expect("a paragraph");

    let cells = ids
        .iter()
        .filter(|id| graph.graph_node(**id).is_table())
        .flat_map(|id| {
            let node = graph.graph_node(*id);
            node.table_header()
                .unwrap()
                .into_iter()
                .chain(node.table_rows().unwrap().into_iter().flatten())
                .collect::<Vec<_>>()
        })
        .collect::<Vec<_>>();

    (paragraph, cells)
}

#[test]
fn text_of_a_removed_table_is_removed_like_the_text_of_a_removed_paragraph() {
    let mut graph = Graph::new();
    graph.update_key(
        "a".into(),
        "secret paragraph\n\n| secret header |\n|---|\n| secret cell with [a link](b) |\n",
    );

    let (paragraph, cells) = lines_of_first_version(&graph);
    assert_eq!("secret paragraph", graph.get_line(paragraph).to_plain_text());
    assert_eq!(2, cells.len());

    // the user deletes everything
    graph.update_key("a".into(), "");

    // the paragraph of the removed version is gone ...
    assert_eq!("", graph.get_line(paragraph).to_plain_text());

    // ... and so should be the cells
    for cell in cells {
        assert_eq!(
            "",
            graph.get_line(cell).to_plain_text(),
            "line {} of the removed table still holds its text",
            cell
        );
        assert!(graph.get_line(cell).ref_keys().is_empty());
    }
}
