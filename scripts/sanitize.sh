#!/bin/bash
# Sanitizer companions (thorough tier extra; not a verdict for any behavioural clause).
# usage: scripts/sanitize.sh [asan|tsan|miri|all]   — results appended to sanitizers/results.json
ROOT="$(cd "$(dirname "$0")/.." && pwd)"
WHAT="${1:-all}"
export CARGO_NET_OFFLINE=true
SANROOT="$ROOT/harness/target/san-root"
mkdir -p "$SANROOT/evidence" "$ROOT/sanitizers"
cp "$ROOT/known-findings.txt" "$SANROOT/"
OUT="$ROOT/sanitizers/results.json"
[ -f "$OUT" ] || echo '[]' > "$OUT"
record() { # tool workload cases reports wall detail
  python3 - "$OUT" "$@" <<'PY'
import json,sys,time
p=sys.argv[1]; d=json.load(open(p))
d.append({"tool":sys.argv[2],"workload":sys.argv[3],"cases":int(sys.argv[4]),"reports":int(sys.argv[5]),"wall_s":float(sys.argv[6]),"detail":sys.argv[7],"at":time.strftime("%Y-%m-%dT%H:%M:%SZ",time.gmtime())})
json.dump(d,open(p,"w"),indent=1)
PY
}
cd "$ROOT/harness"
TARGET=x86_64-unknown-linux-gnu
if [ "$WHAT" = asan ] || [ "$WHAT" = all ]; then
  T0=$(date +%s)
  RUSTFLAGS="-Zsanitizer=address -Cforce-frame-pointers=yes" cargo +nightly build --release --offline -q --target $TARGET --target-dir target/asan 2>target/asan-build.err || { echo "asan build failed"; tail -5 target/asan-build.err; }
  BIN=target/asan/$TARGET/release/vcheck
  if [ -x "$BIN" ]; then
    for W in "C03 400" "C20 300" "C04 200" "C12 60" "C01 400"; do set -- $W
      LOG="$SANROOT/asan-$1.log"
      VERIF_ROOT="$SANROOT" VERIF_CASES=$2 ASAN_OPTIONS=halt_on_error=1:abort_on_error=1:detect_leaks=0 "$BIN" run $1 quick > "$LOG" 2>&1
      R=$(grep -c "ERROR: AddressSanitizer" "$LOG" "$ROOT"/harness/target/tmp/*.err 2>/dev/null | awk -F: '{s+=$2} END {print s+0}')
      D=$(grep -c "worker died" "$LOG")
      record asan "$1 quick prefix" $2 $R $(( $(date +%s) - T0 )) "$(tail -1 "$LOG" | cut -c1-160); worker deaths: $D"
    done
  fi
fi
if [ "$WHAT" = tsan ] || [ "$WHAT" = all ]; then
  T0=$(date +%s)
  RUSTFLAGS="-Zsanitizer=thread" cargo +nightly build --release --offline -q -Zbuild-std --target $TARGET --target-dir target/tsan 2>target/tsan-build.err || { echo "tsan build failed"; tail -5 target/tsan-build.err; }
  BIN=target/tsan/$TARGET/release/vcheck
  if [ -x "$BIN" ]; then
    for W in "C11 400" "C16 2" "C12 40"; do set -- $W
      LOG="$SANROOT/tsan-$1.log"
      VERIF_ROOT="$SANROOT" VERIF_CASES=$2 TSAN_OPTIONS="halt_on_error=0:log_path=$SANROOT/tsan-report-$1" "$BIN" run $1 quick > "$LOG" 2>&1
      R=$(cat "$SANROOT"/tsan-report-$1.* 2>/dev/null | grep -c "WARNING: ThreadSanitizer")
      record tsan "$1 quick prefix" $2 $R $(( $(date +%s) - T0 )) "$(tail -1 "$LOG" | cut -c1-160)"
    done
  fi
fi
if [ "$WHAT" = miri ] || [ "$WHAT" = all ]; then
  T0=$(date +%s)
  N=0; R=0; U=0
  for C in "C20 2" "C20 5" "C04 3" "C01 1" "C17 4" "C15 0"; do set -- $C
    LOG="$SANROOT/miri-$1-$2.log"
    MIRIFLAGS="-Zmiri-disable-isolation -Zmiri-tree-borrows -Zmiri-ignore-leaks" CARGO_TARGET_DIR=target/miri timeout 3600 cargo +nightly miri run --offline -q -- debug case $1 quick 1 $2 > "$LOG" 2>&1
    # (an "unsupported operation" - Miri cannot spawn processes or cross FFI - is a limit of the tool, not a report)
    N=$((N+1)); grep -q "Undefined Behavior\|Data race detected\|error: memory leaked" "$LOG" && R=$((R+1))
    grep -q "unsupported operation" "$LOG" && U=$((U+1))
  done
  record miri "in-process cases C20x2 C04 C01 C17 C15 (tree borrows)" $N $R $(( $(date +%s) - T0 )) "UB/data-race reports: $R; runs that stopped at an operation Miri does not support: $U"
fi
cat "$OUT" | tail -30
