#!/bin/bash
# usage: mutbench_all.sh [lanes]  — re-runs every seeded change against the checks recorded in its meta.json (quick tier)
# on patched copies of the repository; prints one line per seeded change: CAUGHT / MISSED
LANES="${1:-4}"
cd /verif
# the lanes work from a frozen copy of /verif, so that the harness can be edited while the regression runs
rm -rf /root/verif-snap; rsync -a --exclude harness/target --exclude replay --exclude .git /verif/ /root/verif-snap/
export MUTBENCH_SRC=/root/verif-snap
python3 - <<'PY' > /root/mutbench-all.list
import json,glob
for f in sorted(glob.glob('/verif/seeded/*/meta.json')):
    m=json.load(open(f))
    if not m.get('obsolete_on_head'): print(m['id'])
PY
rm -f /root/mutbench-all.out
lane() {
  L=$1
  awk -v n=$LANES -v l=$L 'NR % n == l' /root/mutbench-all.list | while read ID; do
    P=/root/verif-snap/seeded/$ID/patch.head.diff; [ -f $P ] || P=/root/verif-snap/seeded/$ID/patch.diff
    PROPS=$(python3 -c "import json; m=json.load(open('/root/verif-snap/seeded/$ID/meta.json')); print(' '.join(m.get('caught_by') or [m['property']]))")
    OUT=$(MUTBENCH_DIR=/root/mutbench-lane$L scripts/mutbench.sh $P quick $PROPS 2>&1)
    if echo "$OUT" | grep -q "rc=1"; then echo "CAUGHT $ID [$(echo "$OUT" | grep 'rc=1' | awk '{print $2}' | tr '\n' ' ')]" >> /root/mutbench-all.out
    else echo "MISSED $ID :: $(echo "$OUT" | tr '\n' ' ' | cut -c1-300)" >> /root/mutbench-all.out; fi
  done
}
for L in $(seq 0 $((LANES-1))); do lane $L & done
wait
sort /root/mutbench-all.out
echo "caught: $(grep -c ^CAUGHT /root/mutbench-all.out) / $(wc -l < /root/mutbench-all.list)"
