#!/usr/bin/env python3
import json,sys
d=sys.argv[1]; caught=sys.argv[2].split(','); note=sys.argv[3] if len(sys.argv)>3 else ""
p=f'/verif/seeded/{d}/meta.json'
m=json.load(open(p)); m['caught_by']=[c for c in caught if c]; 
if note: m['detection_note']=note
json.dump(m,open(p,'w'),indent=1)
