#!/usr/bin/env python3
"""Regenerates /verif/DESIGN-tables.md (findings and seeded-change tables) from known-findings.txt and seeded/*/meta.json."""
import json,glob,os
ROOT=os.path.dirname(os.path.dirname(os.path.abspath(__file__)))
rows=[]
for l in open(f'{ROOT}/known-findings.txt'):
    l=l.strip()
    if l.startswith('open:') or l.startswith('fixed:'):
        st,rest=l.split(':',1); toks=rest.split()
        prop=[t for t in toks if t.startswith('property=')][0][9:]
        fid=[t for t in toks if t.startswith('id=')][0][3:]
        commit=toks[1] if st=='fixed' else ''
        what=' '.join(t for t in toks if not t.startswith(('property=','id=','sig=')) and t!=commit)
        rows.append((st,prop,fid,commit,what))
byid={}
for st,prop,fid,commit,what in rows:
    e=byid.setdefault(fid,{'st':st,'props':[],'commit':commit,'what':what})
    if prop not in e['props']: e['props'].append(prop)
out=['# Tables generated from known-findings.txt and seeded/*/meta.json','',
 '## A. Genuine defects found by the checks on the pinned tree','',
 f'{sum(1 for e in byid.values() if e["st"]=="fixed")} repaired by a `fix:` commit in /repo, {sum(1 for e in byid.values() if e["st"]=="open")} recorded as open known findings.','',
 '| finding | properties | disposition | what fails |','|---|---|---|---|']
for fid,e in sorted(byid.items(), key=lambda x:(x[1]['st']!='fixed',x[0])):
    disp = f"fixed in /repo {e['commit']}" if e['st']=='fixed' else 'open — KNOWN-FINDING line, matched by exact signature'
    out.append(f"| {fid} | {' '.join(sorted(e['props']))} | {disp} | {e['what']} |")
out+=['','## B. Seeded changes (independent sub-agents; each compiles, passes the 252 tests, fails its own demonstration)','',
 '| seeded change | property | caught by (quick tier unless noted) | note |','|---|---|---|---|']
for f in sorted(glob.glob(f'{ROOT}/seeded/*/meta.json')):
    m=json.load(open(f))
    out.append(f"| {m['id']} | {m['property']} | {', '.join(m.get('caught_by',[])) or 'NOT CAUGHT'} | {m.get('detection_note','')} |")
open(f'{ROOT}/DESIGN-tables.md','w').write('\n'.join(out)+'\n')
print('wrote DESIGN-tables.md')
