#!/bin/bash
# usage: scripts/check.sh <Cxx> quick|thorough     (honours VERIF_SEED)
# exit 0 = held on everything explored; 1 = VIOLATION printed; 2/3 = the check itself is broken
ROOT="$(cd "$(dirname "$0")/.." && pwd)"
PROP="$1"; TIER="${2:-quick}"
export VERIF_ROOT="$ROOT"
case "$PROP" in
  C19|C03|C14|C12|C15|C17|C18) NEED=bins ;;
  *) NEED= ;;
esac
"$ROOT/scripts/build.sh" $NEED || exit 3
cd "$ROOT"
exec "$ROOT/harness/target/release/vcheck" run "$PROP" "$TIER"
