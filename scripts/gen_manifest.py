#!/usr/bin/env python3
"""Regenerates /verif/MANIFEST.json from the table below (keeps it valid by construction)."""
import json, subprocess, os
ROOT = os.path.dirname(os.path.dirname(os.path.abspath(__file__)))

CHECKS = {
 "C01": dict(tech="runtime monitoring: relational oracle (independent pulldown-cmark atom scanner) over generated libraries formatted by the real code",
   text="Exploration: every generated note is formatted by the real code (import/export, single-note graph, Database update) and its content atoms (words, block kinds, containers, code bodies, link destinations, front matter) are compared with those of the input by an independent scanner. Held on the documents observed; quick ~10^4 notes, thorough ~2*10^5.",
   note="trusts pulldown-cmark's parser (both sides of the comparison); clean-mode grammar of DESIGN.md appendix A plus pinned reproducers for open findings", ref="§3 C01"),
 "C02": dict(tech="runtime monitoring: fixpoint oracle F(F(x)) == F(x) (bytes) on three formatting paths over generated libraries",
   text="Exploration: out1 = F(in), out2 = F(out1) compared byte for byte per note for F in {library import/export, single-note graph, Database::update_document with its own output}, both refs_extension values.",
   note="same workload as C01; held on observed documents only", ref="§3 C02"),
 "C06": dict(tech="runtime monitoring: per-link oracle (kind, destination, resolved target, refreshed title) over generated cross-linked libraries",
   text="Exploration: links of input and formatted output are paired by ordinal; destination (modulo the configured .md), resolved target key, kind and text (== target's title when refreshable, unchanged otherwise) are checked by an independent resolver.",
   note="titles and resolution computed by the harness's own scanner / key algebra", ref="§3 C06"),
 "C07": dict(tech="runtime monitoring: outline oracle (heading order, block->heading assignment, container instances, well-nestedness) + exhaustive heading-level sequences",
   text="Exploration: outline of input vs output per note (heading texts in order, each block's heading ordinal, container chain with list/item/quote ordinals), output levels well-nested per scope, well-nested inputs reproduced exactly.",
   note="conventions of the statement (heading-first items etc.) are not generated in clean mode", ref="§3 C07"),
 "C04": dict(tech="runtime monitoring: differential observation-vector oracle (incremental Database vs from-scratch build) after every step of generated edit histories",
   text="Exploration: after EVERY step of a generated history (update/insert on existing and new keys; edits that remove titles, drop last references, move links behind tables, toggle front matter, revert) the whole observation vector (exports, raw documents, titles, block+inline backlinks with lines, paths, ordered search results, node-at-line) is compared with a freshly built Database. Quick ~1.5k histories, thorough 4*10^4.",
   note="reference = the same code started from scratch; node ids canonicalised away; clean grammar, LF", ref="§3 C04"),
 "C05": dict(tech="runtime monitoring: backlink sets from the Graph API vs an independent link scanner + path resolver over generated libraries",
   text="Exploration: for every note and every link target, block and inline backlink sets (owner, first line of linking block) must equal what an independent scan of all notes finds (resolution from the linking note's directory, one .md stripped, externals excluded). Clauses missing / spurious / wrong-line are separate.",
   note="links in table cells are left undecided; inline links from sub-directories are an open finding (pinned reproducer)", ref="§3 C05"),
 "C15": dict(tech="runtime monitoring: exhaustive enumeration of (key, directory) pairs through the real Key API against an independent path algebra",
   text="Exhaustive over the stated universe (340 keys x 85 directories, depth <= 4, names with dots and spaces, decorated urls): write->resolve round trip, resolve->write equivalence, agreement with the harness's resolver.",
   note="names ending in .md are outside the universe", ref="§3 C15"),
 "C17": dict(tech="runtime monitoring: squash result vs an independent recursive expansion model of the source texts; CPU-time budget from model size",
   text="Exploration: (reference graph, key, depth) cases incl. cycles, self-loops, dangling targets, depth up to 255 on small expansions; multiset of blocks and kept references of the rebuilt squashed note must equal the model's; termination judged on CPU budget proportional to model size.",
   note="expansions above 1500 blocks are skipped (sibling-recursion stack overflow is judged by C03); relative order of references vs other siblings not judged (statement leaves it open)", ref="§3 C17"),
 "C18": dict(tech="runtime monitoring: Graph::paths / global_search vs an outline + reference-edge model from the independent scanner; documented order recomputed with the same fuzzy matcher",
   text="Exploration: completeness (every heading outside lists/quotes ends a path), soundness (every step of every path is a model edge, searched with backtracking over duplicate titles), <=100 results, exact documented order incl. tie-breakers, rank of a title == number of linking blocks.",
   note="acyclic reference graphs in clean mode; self-reference and cycles are pinned open findings", ref="§3 C18"),
 "C20": dict(tech="runtime monitoring: invariant walker over the arena at every quiescent point (hook H2) and after every history step",
   text="Exploration: iterative walker checks disjoint acyclic forest, no orphans, no edge into tombstones, prev/next/child consistency, to_parent/to_document/key_of agreement, line ids in range and unshared, nodes_map liveness, ids never reused, DFS order == source block order; runs on every graph the code builds (incl. handler-local patch graphs).",
   note="walker uses public API + read-only H3 dumps", ref="§3 C20"),
 "C08": dict(tech="runtime monitoring: rename WorkspaceEdit applied to a library copy by an independent edit model, then re-scanned by the independent link resolver",
   text="Exploration: every internal link occurrence as rename site x {free, taken, sub/free, free.md} names, optionally after every note was re-sent (incrementally built index); applied edit judged for: new note present with old content, old gone, all links to old now resolve to new with text preserved/title, other links and unrelated notes untouched, taken name refused.",
   note="libraries with sub-directories carry block references only; links in table cells and piped wiki links excluded from clean mode (open findings)", ref="§3 C08"),
 "C09": dict(tech="runtime monitoring: every offered extract/inline code action at every line resolved over the real LSP loop (disk-backed server, real key generator, H4 forced collisions), edits applied by an independent model, conservation oracles + inverse round trip",
   text="Exploration: fresh key (H4 forces the first candidates to be existing notes), block multiset conserved (+1 reference per extracted section / -1 reference and deleted note per inline), extracted note == subtree with promoted heading, remaining blocks keep order, links resolve to the same notes from the new location, extract(first sub-section) then inline == original bytes.",
   note="starts from formatted text; sub-directory libraries carry block references only", ref="§3 C09"),
 "C10": dict(tech="runtime monitoring: every offered list/section conversion at every line over the real LSP loop, conservation-in-order oracle + inverse-action round trips",
   text="Exploration: block word-runs, links and nested blocks conserved in order, blocks before and after the targeted list / section keep kind, containers and text, other notes untouched, change-list-type twice == original bytes, section-to-list then list-to-sections == original bytes for sections not adjacent to a list.",
   note="the round trip for a section with a preceding sibling section is an open finding (exact signature)", ref="§3 C10"),
 "C11": dict(tech="runtime monitoring: hook-driven scheduler (H1 gates park request workers at started / acquired / computed / exited) enumerating interleavings exhaustively for k<=2 (3 thorough) + hook-free floods; last-writer-wins register oracle at quiescence",
   text="Exhaustive over the hook-distinguishable interleavings for k in-flight requests (k<=2 quick: 148 schedules, k<=3 thorough) x every request method x {didChange, didSave} x {same, other note} x release orders; a worker parked inside its computation (acquired) may delay the edit but not lose it (bounded-progress verdict after release); plus floods of unsynchronised mixed traffic judged on final state; every schedule also issues a request right after the notification and checks it sees the new text.",
   note="interleavings finer than the hook points are only sampled by the OS scheduler in the flood variant", ref="§3 C11"),
 "C12": dict(tech="runtime monitoring: exactly-once response monitor keyed on hook event Exited(id) + liveness probe against an independent model after every adversarial request",
   text="Exploration: random sessions over every method the router handles x hostile parameter classes; outcome decided when the worker exits (never by timeout); liveness probe after each request; loop must end Ok on shutdown/exit.",
   note="in-process server over Connection::memory(); no network path reachable", ref="§3 C12"),
 "C13": dict(tech="runtime monitoring: LSP answers at probed positions vs spans from the independent offset-tracking scan (UTF-16 columns, LF and CRLF)",
   text="Exploration: boundary probes (+-1) around every link, line starts/ends, past EOL/EOF; definition / prepareRename act on link L iff inside its span, rename range == destination span, code actions at a line match the covering block, returned locations (symbols, hints, references) name the right line; four classes {LF,CRLF} x {ASCII, multi-byte/astral}.",
   note="prepareRename ranges for titled / marked-up / wiki links and links on continuation lines of list items are open findings with exact signatures", ref="§3 C13"),
 "C03": dict(tech="runtime monitoring: panic hook on every thread + process exit status + CPU budget + liveness probe while hostile documents are driven through the library API and the real LSP threads in subprocess workers; size ramps in their own child processes",
   text="Exploration: fragment soups, character mutations, hostile-construct documents and size ramps (sibling chains, nesting, long lines, many links) driven through load / update / format / paths / search / link_at and every LSP request at every line on real default-size stacks; any panic on any thread, a dead process (stack overflow, abort), a CPU overrun or an unanswered liveness probe refutes. Sanitizer reruns (Miri / ASan) in the thorough tier are reported separately.",
   note="termination is restated as CPU budgets; stack behaviour judged in a release build up to the sizes listed in the evidence (larger sibling chains / nesting are open findings with exact signatures)", ref="§3 C03"),
 "C14": dict(tech="runtime monitoring: real temp directories + disk-backed server; URI round trips (Url::from_file_path / to_file_path) checked against the files on disk",
   text="Exploration: (base path class x file name class) grid: the URI addresses the loaded note, an edit through the URI updates it without creating a second note, links reach it, response URIs open existing files.",
   note="file names ending in .md.md are an open finding", ref="§3 C14"),
 "C16": dict(tech="runtime monitoring: canonical dumps from separate OS processes (fresh hash seeds) under different rayon pool sizes, load permutations and build modes, compared byte for byte",
   text="Exploration: per library 12 (quick) / 48 (thorough) processes x RAYON_NUM_THREADS {1,2,3,4,8,16} x {import, one-by-one insert} x permutations; all dumps must be identical.",
   note="libraries of 50-400 notes with duplicate titles and equal ranks", ref="§3 C16"),
 "C19": dict(cat="fault_enumeration", tech="fault enumeration: the built `iwe normalize` binary under strace fault injection (SIGKILL / ENOSPC at every write-phase syscall, RLIMIT_FSIZE budgets) with directory snapshots before/after",
   text="Fault enumeration: fault-free run checked for in-place, export-exact rewriting and no collateral changes (snapshot + syscall log); then EVERY file-system syscall the writing thread makes from its first write-mode open on is a crash point (SIGKILL on entry: openat, write, close, rename, copy_file_range, unlink ... whatever the write path uses; ENOSPC on every data-moving one; counted per tracee as strace does) plus file-size limits; a hard link to a note must keep its old content; after each run every note must hold its complete old or new text.",
   note="syscall granularity; power-loss reordering out of reach", ref="§3 C19"),
}




NOT_YET = {






}

def main():
    hooks = subprocess.run(["git","-C","/repo","log","--format=%H","--grep=^verif-hooks"],capture_output=True,text=True).stdout.split()
    checks=[]
    for pid, c in sorted(CHECKS.items()):
        checks.append({
            "property_id": pid,
            "quick_cmd": f"scripts/check.sh {pid} quick",
            "thorough_cmd": f"scripts/check.sh {pid} thorough",
            "evidence_file": f"evidence/{pid}.json",
            "replay_cmd_template": "cat {path}   # replay file holds the exact input/history and the one-line re-run command",
            "engine": "vharness",
            "level_claimed": {"category": c.get("cat","exploration"), "text": c["text"], "design_ref": c["ref"]},
            "level_note": c["note"],
            "technique": c["tech"],
        })
    m = {
        "version": 1,
        "setup_cmd": "scripts/setup.sh",
        "hooks": {
            "guard": "cargo feature `verif-hooks` on crates liwe and iwes (off by default)",
            "enable": "the harness crate (/verif/harness) path-depends on /repo/crates/{liwe,iwes} with features=[\"verif-hooks\"]; scripts/build.sh rebuilds it from /repo's working tree before every check",
            "baseline_off_cmd": "cd /repo && cargo test --workspace --no-fail-fast --offline",
            "source_commits": hooks,
            "add_only": True,
        },
        "engines": [{"name":"vharness","path":"harness","serves_properties":sorted(CHECKS),"kind_free_text":"Rust runtime-monitoring harness: seeded generators, independent reference scanners/models, subprocess worker pool, hook-driven schedulers, evidence writer"}],
        "checks": checks,
        "not_applicable": [{"property_id": k, "reason": v} for k,v in sorted(NOT_YET.items()) if k not in CHECKS],
        "notes": "Technique family: runtime monitoring and sanitizers. Exit 0 = held on everything observed; 1 = VIOLATION line; 2 = the check observed too little / mostly inconclusive (broken, not a verdict). Known findings: /verif/known-findings.txt.",
    }
    json.dump(m, open(os.path.join(ROOT,"MANIFEST.json"),"w"), indent=1)
    print("wrote MANIFEST.json with", len(checks), "checks")
main()
