#!/usr/bin/env python3
"""Regenerates /verif/MANIFEST.json from the table below (keeps it valid by construction)."""
import json, subprocess, os
ROOT = os.path.dirname(os.path.dirname(os.path.abspath(__file__)))

CHECKS = {
 "C01": dict(tech="runtime monitoring: relational oracle (independent pulldown-cmark atom scanner) over generated libraries formatted by the real code",
   text="Exploration: every generated note is formatted by the real code (import/export, single-note graph, Database update) and its content atoms (words, block kinds, containers, code bodies, link destinations, front matter) are compared with those of the input by an independent scanner. Held on the documents observed; quick ~10^4 notes, thorough ~2*10^5.",
   note="trusts pulldown-cmark's parser (both sides of the comparison); clean-mode grammar of DESIGN.md appendix A plus pinned reproducers for open findings", ref="§3 C01"),
 "C02": dict(tech="runtime monitoring: fixpoint oracle F(F(x)) == F(x) (bytes) on three formatting paths over generated libraries",
   text="Exploration: out1 = F(in), out2 = F(out1) compared byte for byte per note for F in {library import/export, single-note graph, Database::update_document with its own output}, both refs_extension values.",
   note="same workload as C01; held on observed documents only", ref="§3 C02"),
 "C06": dict(tech="runtime monitoring: per-link oracle (kind, destination, resolved target, refreshed title) over generated cross-linked libraries",
   text="Exploration: links of input and formatted output are paired by ordinal; destination (modulo the configured .md), resolved target key, kind and text (== target's title when refreshable, unchanged otherwise) are checked by an independent resolver.",
   note="titles and resolution computed by the harness's own scanner / key algebra", ref="§3 C06"),
 "C07": dict(tech="runtime monitoring: outline oracle (heading order, block->heading assignment, container instances, well-nestedness) + exhaustive heading-level sequences",
   text="Exploration: outline of input vs output per note (heading texts in order, each block's heading ordinal, container chain with list/item/quote ordinals), output levels well-nested per scope, well-nested inputs reproduced exactly.",
   note="conventions of the statement (heading-first items etc.) are not generated in clean mode", ref="§3 C07"),
}

NOT_YET = {
 "C03": "check under construction", "C04": "check under construction", "C05": "check under construction",
 "C08": "check under construction", "C09": "check under construction", "C10": "check under construction",
 "C11": "check under construction", "C12": "check under construction", "C13": "check under construction",
 "C14": "check under construction", "C15": "check under construction", "C16": "check under construction",
 "C17": "check under construction", "C18": "check under construction", "C19": "check under construction",
 "C20": "check under construction",
}

def main():
    hooks = subprocess.run(["git","-C","/repo","log","--format=%H","--grep=^verif-hooks"],capture_output=True,text=True).stdout.split()
    checks=[]
    for pid, c in sorted(CHECKS.items()):
        checks.append({
            "property_id": pid,
            "quick_cmd": f"scripts/check.sh {pid} quick",
            "thorough_cmd": f"scripts/check.sh {pid} thorough",
            "evidence_file": f"evidence/{pid}.json",
            "replay_cmd_template": "cat {path}   # replay file holds the exact input/history and the one-line re-run command",
            "engine": "vharness",
            "level_claimed": {"category": c.get("cat","exploration"), "text": c["text"], "design_ref": c["ref"]},
            "level_note": c["note"],
            "technique": c["tech"],
        })
    m = {
        "version": 1,
        "setup_cmd": "scripts/setup.sh",
        "hooks": {
            "guard": "cargo feature `verif-hooks` on crates liwe and iwes (off by default)",
            "enable": "the harness crate (/verif/harness) path-depends on /repo/crates/{liwe,iwes} with features=[\"verif-hooks\"]; scripts/build.sh rebuilds it from /repo's working tree before every check",
            "baseline_off_cmd": "cd /repo && cargo test --workspace --no-fail-fast --offline",
            "source_commits": hooks,
            "add_only": True,
        },
        "engines": [{"name":"vharness","path":"harness","serves_properties":sorted(CHECKS),"kind_free_text":"Rust runtime-monitoring harness: seeded generators, independent reference scanners/models, subprocess worker pool, hook-driven schedulers, evidence writer"}],
        "checks": checks,
        "not_applicable": [{"property_id": k, "reason": v} for k,v in sorted(NOT_YET.items()) if k not in CHECKS],
        "notes": "Technique family: runtime monitoring and sanitizers. Exit 0 = held on everything observed; 1 = VIOLATION line; 2 = the check observed too little / mostly inconclusive (broken, not a verdict). Known findings: /verif/known-findings.txt.",
    }
    json.dump(m, open(os.path.join(ROOT,"MANIFEST.json"),"w"), indent=1)
    print("wrote MANIFEST.json with", len(checks), "checks")
main()
