#!/bin/bash
# usage: verify_seeded.sh <agent worktree> <seeded id> <property>
# Confirms in the agent's scratch worktree: demo passes without the change, full suite passes with it,
# demo fails with it, patch applies to /repo HEAD. Then stores /verif/seeded/<id>/.
WT="$1"; ID="$2"; PROP="$3"
OUT=/verif/seeded/$ID
export CARGO_NET_OFFLINE=true
cd "$WT" || exit 1
mkdir -p "$OUT"
# never use git stash here: the stash is shared by all worktrees of a repository
cp demo/patch.diff "$OUT/patch.diff"
[ -s "$OUT/patch.diff" ] || { echo "empty patch"; exit 1; }
git checkout -q -- crates
bash demo/run.sh > "$OUT/demo_without.log" 2>&1; R0=$?
git apply "$OUT/patch.diff" || { echo "patch does not apply to its own base"; exit 1; }
cargo test --workspace --no-fail-fast --offline > "$OUT/suite_with.log" 2>&1
PASSED=$(grep -E "^test result" "$OUT/suite_with.log" | awk '{p+=$4; f+=$6} END {print p"/"f}')
bash demo/run.sh > "$OUT/demo_with.log" 2>&1; R1=$?
git -C /repo apply --check "$OUT/patch.diff" 2>/dev/null && APPLIES=true || APPLIES=false
cp demo/demo_test.rs demo/run.sh demo/NOTES.md "$OUT/" 2>/dev/null
tail -5 "$OUT/demo_with.log" > "$OUT/demo_with.tail"; tail -3 "$OUT/demo_without.log" > "$OUT/demo_without.tail"
rm -f "$OUT/suite_with.log" "$OUT/demo_with.log" "$OUT/demo_without.log"
cat > "$OUT/meta.json" <<EOM
{"id": "$ID", "property": "$PROP", "base_commit": "$(git rev-parse --short HEAD)",
 "demo_exit_without_change": $R0, "demo_exit_with_change": $R1,
 "suite_with_change_passed_failed": "$PASSED", "applies_to_repo_head": $APPLIES,
 "ran": "git checkout -- crates; demo/run.sh; git apply patch.diff; cargo test --workspace --no-fail-fast --offline; demo/run.sh",
 "needs": "see NOTES.md", "caught_by": []}
EOM
cat "$OUT/meta.json"
