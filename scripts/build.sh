#!/bin/bash
# Build the harness (path-depends on /repo's current working tree, hooks on) and the repo's
# own binaries, offline, into /verif/harness/target. Serialised with a lock so concurrent
# checks do not fight over cargo.
set -e
export CARGO_NET_OFFLINE=true
ROOT="$(cd "$(dirname "$0")/.." && pwd)"
mkdir -p "$ROOT/harness/target"
(
  flock 9
  cd "$ROOT/harness"
  if ! cmp -s /repo/Cargo.lock Cargo.lock.repo 2>/dev/null; then
    cp /repo/Cargo.lock Cargo.lock.repo
  fi
  cargo build --release --offline -q 2>"$ROOT/harness/target/build.err" || { cat "$ROOT/harness/target/build.err"; echo "BUILD-FAILED harness"; exit 3; }
  if [ "$1" = "bins" ]; then
    cargo build --release --offline -q --manifest-path /repo/Cargo.toml -p iwe -p iwes \
      --target-dir "$ROOT/harness/target/repo" 2>"$ROOT/harness/target/build-bins.err" || { cat "$ROOT/harness/target/build-bins.err"; echo "BUILD-FAILED bins"; exit 3; }
  fi
) 9>"$ROOT/harness/target/.build.lock"
