#!/bin/bash
# one-time (idempotent) offline build of everything the checks need
ROOT="$(cd "$(dirname "$0")/.." && pwd)"
"$ROOT/scripts/build.sh" bins
