#!/bin/bash
# usage: repo_commit.sh <commit message file>   — runs the unedited suite (hooks off); commits /repo only on 252/0
cd /repo || exit 1
R=$(cargo test --workspace --no-fail-fast --offline 2>&1 | grep -E "^test result" | awk '{p+=$4; f+=$6} END {print p"/"f}')
echo "suite: $R"
if [ "$R" != "252/0" ]; then echo "NOT COMMITTED"; exit 1; fi
cargo build --offline -q -p iwes --features verif-hooks 2>&1 | grep -E "^error" && { echo "hooks build failed; NOT COMMITTED"; exit 1; }
git commit -q -a -F "$1" && git log --oneline | head -1
