#!/usr/bin/env python3
import json,sys
pid=sys.argv[1]; wt=sys.argv[2]; variant=sys.argv[3] if len(sys.argv)>3 else ""
for l in open('/verif/properties.jsonl'):
    p=json.loads(l)
    if p['id']==pid: break
print(f"""You are helping test a verification effort by seeding a realistic bug. You work ONLY inside the git worktree {wt} (a checkout of the Rust project iwe-org/iwe: a Markdown note-taking LSP server `iwes`, CLI `iwe`, core library `liwe`). Do not read or touch /verif or /repo; do not use the network (it is unavailable; always pass --offline to cargo and set CARGO_NET_OFFLINE=true).

Here is a semantic property that the project is supposed to satisfy:

  Title: {p['title']}
  Statement: {p['statement']}
  Quantified over: {p['quantifier']['text']}

Your task: make ONE small, realistic source change (the kind of regression a developer could plausibly introduce: an off-by-one, a dropped recursion/branch, a wrong variable, a missing sort or guard, a reordered statement, a swapped argument...) to the non-test source code under {wt}/crates that BREAKS this property, while
  (a) the workspace still compiles (`cargo build --offline` in {wt}),
  (b) the ENTIRE existing test suite still passes unchanged: `cd {wt} && cargo test --workspace --no-fail-fast --offline` (252 tests; do not edit, delete or add files under any tests/ directory or any #[cfg(test)] module),
  (c) the breakage needs something specific to manifest — a particular multi-step sequence of operations, an unusual-but-legal input, a particular interleaving or fault point, or two cooperating code sites — rather than something ordinary use would expose at once. {variant}

Do not touch anything guarded by the cargo feature `verif-hooks` and do not change Cargo.toml files.

Then write a demonstration that FAILS with your change and PASSES without it: a new standalone Rust integration test file placed at {wt}/demo/demo_test.rs (NOT under crates/*/tests) together with a shell script {wt}/demo/run.sh that copies it into the appropriate crate's tests/ directory temporarily, runs just that test with `cargo test --offline`, removes the copy again, and exits non-zero iff the demonstration test fails. Verify both directions yourself: run demo/run.sh with your change applied (must fail), then save your source change with `git -C {wt} diff -- crates > {wt}/demo/patch.diff` and revert it with `git -C {wt} checkout -- crates` (keep demo/), run demo/run.sh again (must pass), then re-apply with `git -C {wt} apply demo/patch.diff`. NEVER use `git stash` (the stash is shared with other worktrees of this repository).

Finally produce {wt}/demo/patch.diff with `git -C {wt} diff -- crates > {wt}/demo/patch.diff` (source change only, no demo files) and {wt}/demo/NOTES.md explaining: what you changed, why the existing tests do not notice, and exactly what is needed for the breakage to manifest. Leave the worktree with your change applied. Keep build output inside {wt}/target. Report back a short summary (files changed, what manifests the bug, and the results of the two demo runs and of the full test suite).""")
