#!/bin/bash
# usage: try_mutant.sh <patch.diff> <tier> <prop> [prop...]
# applies the patch to /repo, runs the checks, always restores /repo
PATCH="$(realpath "$1")"; TIER="$2"; shift 2
cd /repo || exit 1
if ! git diff --quiet; then echo "/repo has uncommitted changes"; exit 1; fi
git apply "$PATCH" || git apply -3 "$PATCH" || { echo "patch does not apply"; git checkout -- .; exit 1; }
for P in "$@"; do
  OUT=$(/verif/scripts/check.sh $P $TIER 2>&1); RC=$?
  echo "== $P rc=$RC $(echo "$OUT" | grep -c '^VIOLATION') violation lines"
  echo "$OUT" | grep -E "new-signature|BUILD-FAILED|BROKEN" | head -8
done
git reset -q --hard HEAD; git status --short | head -3
# rebuild harness against the restored tree so later runs are not stale
/verif/scripts/build.sh >/dev/null 2>&1
