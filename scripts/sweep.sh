#!/bin/bash
# usage: sweep.sh <tier> "<seeds>" [props...]  — runs checks over seeds, prints one line per run plus anything alarming
ROOT="$(cd "$(dirname "$0")/.." && pwd)"
TIER="$1"; SEEDS="$2"; shift 2
PROPS="$@"; [ -z "$PROPS" ] && PROPS="C01 C02 C03 C04 C05 C06 C07 C08 C09 C10 C11 C12 C13 C14 C15 C16 C17 C18 C19 C20"
"$ROOT/scripts/build.sh" bins || exit 3
for S in $SEEDS; do for P in $PROPS; do
  OUT=$(VERIF_SEED=$S "$ROOT/scripts/check.sh" $P $TIER 2>&1); RC=$?
  echo "$(echo "$OUT" | grep -E "seed=$S" | tail -1) rc=$RC"
  echo "$OUT" | grep -E "^VIOLATION|new-signature|BROKEN|inconclusive x|BUILD-FAILED" | head -12
done; done
echo SWEEP-DONE
