#!/bin/bash
# usage: mutbench.sh <patch.diff> <tier> <prop> [prop...]
# Runs the checks against a patched COPY of the repository (git worktree under /root/mutbench), so that
# /repo itself and any sweep running against it stay untouched.
PATCH="$(realpath "$1")"; TIER="$2"; shift 2
B=${MUTBENCH_DIR:-/root/mutbench}
mkdir -p $B
if [ ! -d $B/repo ]; then git -C /repo worktree add -q --detach $B/repo HEAD || exit 1; fi
git -C $B/repo reset -q --hard; git -C $B/repo checkout -q --detach "$(git -C /repo rev-parse HEAD)" || exit 1
rsync -a --delete --exclude harness/target --exclude replay --exclude evidence --exclude .git ${MUTBENCH_SRC:-/verif}/ $B/verif/
mkdir -p $B/verif/evidence
sed -i "s|/repo/crates|$B/repo/crates|g" $B/verif/harness/Cargo.toml
sed -i "s|--manifest-path /repo/Cargo.toml|--manifest-path $B/repo/Cargo.toml|; s|/repo/Cargo.lock|$B/repo/Cargo.lock|g" $B/verif/scripts/build.sh
cd $B/repo
git apply "$PATCH" || { echo "patch does not apply"; git reset -q --hard; exit 1; }
for P in "$@"; do
  OUT=$($B/verif/scripts/check.sh $P $TIER 2>&1); RC=$?
  echo "== $P rc=$RC $(echo "$OUT" | grep -c '^VIOLATION') violation lines"
  echo "$OUT" | grep -E "new-signature|BUILD-FAILED|BROKEN" | head -8
done
git reset -q --hard
