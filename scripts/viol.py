#!/usr/bin/env python3
# summarise replay files of a property: count by clause, show first example of each
import json,glob,sys,collections
prop=sys.argv[1]; show=int(sys.argv[2]) if len(sys.argv)>2 else 1
by=collections.defaultdict(list)
for f in sorted(glob.glob(f'/verif/replay/{prop}/*.json')):
    d=json.load(open(f)); by[d['clause']+'|'+d['locus']].append((f,d))
for k,v in by.items():
    print('#####',k,len(v))
    for f,d in v[:show]:
        print(f); print(d['detail'][:600])
        r=d['replay']
        for key in ('input','output','pass1','pass2','after_update'):
            if key in r and r[key] is not None: print('---',key); print(r[key])
