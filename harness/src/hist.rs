//! Edit histories: initial library + steps, where each new version is an edit of the previous
//! one chosen to provoke staleness. Every version carries unique words, so a stale answer names
//! the version it came from.

use crate::gen::{self, Blk, Doc, Inl, LStyle};
use crate::libgen::{self, LibOpts};
use crate::mdscan;
use crate::rng::Rng;
use std::collections::BTreeMap;

#[derive(Clone, Debug)]
pub struct Step {
    pub key: String,
    pub text: String,
    pub what: String,
    /// use Database::insert_document instead of update_document
    pub insert: bool,
}

#[derive(Clone, Debug)]
pub struct History {
    pub initial: BTreeMap<String, String>,
    pub steps: Vec<Step>,
}

fn is_ref_para(b: &Blk) -> bool {
    matches!(b, Blk::Para(v) if v.len() == 1 && matches!(&v[0], Inl::Link{dest, ..} if mdscan::is_internal(dest)))
}

fn has_internal_link(v: &[Inl]) -> bool {
    v.iter().any(|i| match i {
        Inl::Link { dest, .. } => mdscan::is_internal(dest),
        Inl::Emph(x) | Inl::Strong(x) | Inl::Strike(x) => has_internal_link(x),
        _ => false,
    })
}

fn strip_links(v: &mut Vec<Inl>, words: &mut gen::Words, rng: &mut Rng) {
    for i in v.iter_mut() {
        let replace = matches!(i, Inl::Link { dest, .. } if mdscan::is_internal(dest));
        if replace {
            *i = Inl::W(words.next(rng, false));
        } else if let Inl::Emph(x) | Inl::Strong(x) | Inl::Strike(x) = i {
            strip_links(x, words, rng);
        }
    }
}

fn strip_all_links(blocks: &mut Vec<Blk>, words: &mut gen::Words, rng: &mut Rng) {
    for b in blocks.iter_mut() {
        match b {
            Blk::Para(v) | Blk::Heading(_, v, _) => strip_links(v, words, rng),
            Blk::Quote(inner) => strip_all_links(inner, words, rng),
            Blk::List(_, _, _, items) => {
                for it in items.iter_mut() {
                    strip_all_links(it, words, rng);
                }
            }
            Blk::Table(_, head, rows) => {
                for c in head.iter_mut() {
                    strip_links(c, words, rng);
                }
                for r in rows.iter_mut() {
                    for c in r.iter_mut() {
                        strip_links(c, words, rng);
                    }
                }
            }
            _ => {}
        }
    }
}

/// one edit of `doc`; returns a description
pub fn mutate(
    doc: &mut Doc,
    rng: &mut Rng,
    words: &mut gen::Words,
    o: &LibOpts,
    key: &str,
    keys: &[String],
) -> String {
    let dir = mdscan::key_dir(key);
    let r = rng.below(13);
    match r {
        0 => {
            // remove the first heading (title disappears)
            if let Some(p) = doc.blocks.iter().position(|b| matches!(b, Blk::Heading(..))) {
                doc.blocks.remove(p);
                if doc.blocks.is_empty() {
                    doc.blocks.push(Blk::Para(vec![Inl::W(words.next(rng, false))]));
                }
                return "remove-first-heading".into();
            }
            "noop".into()
        }
        1 => {
            // rename the first heading
            for b in doc.blocks.iter_mut() {
                if let Blk::Heading(_, v, _) = b {
                    *v = vec![Inl::W(words.next(rng, false)), Inl::W(words.next(rng, false))];
                    return "rename-first-heading".into();
                }
            }
            "noop".into()
        }
        2 => {
            // add a title
            if !matches!(doc.blocks.first(), Some(Blk::Heading(..))) {
                doc.blocks.insert(
                    0,
                    Blk::Heading(1, vec![Inl::W(words.next(rng, false))], gen::HStyle::Atx),
                );
                return "add-title".into();
            }
            "noop".into()
        }
        3 => {
            // remove every internal link / block reference (last reference to some note goes away)
            doc.blocks.retain(|b| !is_ref_para(b));
            strip_all_links(&mut doc.blocks, words, rng);
            if doc.blocks.is_empty() {
                doc.blocks.push(Blk::Para(vec![Inl::W(words.next(rng, false))]));
            }
            "remove-all-internal-links".into()
        }
        4 => {
            // put a table in front of the last top-level block that holds a link
            if let Some(p) = doc.blocks.iter().rposition(|b| match b {
                Blk::Para(v) => has_internal_link(v),
                _ => false,
            }) {
                let t = Blk::Table(
                    vec!['n'],
                    vec![vec![Inl::W(words.next(rng, false))]],
                    vec![vec![vec![Inl::W(words.next(rng, false))]]],
                );
                doc.blocks.insert(p, t);
                return "table-before-link".into();
            }
            "noop".into()
        }
        5 => {
            // append a block reference (to self, another note or a missing one)
            let target = if rng.chance(1, 4) {
                key.to_string()
            } else if rng.chance(1, 6) || keys.is_empty() {
                format!("missing{}", rng.below(3))
            } else {
                rng.pick(keys).clone()
            };
            let rel = mdscan::relativize(&target, &dir);
            if rel.starts_with("..") && !o.updir {
                return "noop".into();
            }
            doc.blocks.push(Blk::Para(vec![Inl::Link {
                dest: rel,
                text: vec![Inl::W(words.next(rng, false))],
                title: None,
                style: LStyle::Inline,
            }]));
            "append-block-reference".into()
        }
        6 => {
            // append a paragraph with an inline link (root-level notes only unless cross-dir is clean)
            if !(dir.is_empty() || o.cross_dir_inline) || keys.is_empty() {
                return "noop".into();
            }
            let target = rng.pick(keys).clone();
            let rel = mdscan::relativize(&target, &dir);
            doc.blocks.push(Blk::Para(vec![
                Inl::W(words.next(rng, false)),
                Inl::Link {
                    dest: rel,
                    text: vec![Inl::W(words.next(rng, false))],
                    title: None,
                    style: if rng.chance(1, 4) { LStyle::Wiki } else { LStyle::Inline },
                },
            ]));
            "append-inline-link".into()
        }
        7 => {
            // toggle front matter
            if doc.meta.is_some() {
                doc.meta = None;
                "remove-front-matter".into()
            } else {
                doc.meta = Some(vec![format!("title: {}", words.next(rng, false))]);
                "add-front-matter".into()
            }
        }
        8 => {
            // drop a random block
            if doc.blocks.len() > 1 {
                let p = rng.below(doc.blocks.len());
                doc.blocks.remove(p);
                return "drop-block".into();
            }
            "noop".into()
        }
        9 => {
            // move the last block to the front (reorders headings / references)
            if doc.blocks.len() > 1 {
                let b = doc.blocks.pop().unwrap();
                let prev_list = matches!(doc.blocks.first(), Some(Blk::List(..)));
                if matches!(b, Blk::List(..)) && prev_list {
                    doc.blocks.push(b);
                    return "noop".into();
                }
                doc.blocks.insert(0, b);
                return "rotate-blocks".into();
            }
            "noop".into()
        }
        10 => {
            // shrink to a single paragraph
            doc.blocks = vec![Blk::Para(vec![Inl::W(words.next(rng, false))])];
            doc.meta = None;
            "shrink-to-one-paragraph".into()
        }
        _ => "fresh".into(),
    }
}

pub fn gen_history(rng: &mut Rng, o: &LibOpts, max_steps: usize) -> History {
    let n = rng.range(o.min_notes, o.max_notes);
    let mut keys = libgen::gen_keys(rng, n, o.subdirs);
    let mut words = gen::Words::new("");
    let mut docs: BTreeMap<String, Doc> = BTreeMap::new();
    let mut initial = BTreeMap::new();
    for k in &keys {
        let (doc, text, _) = libgen::gen_note(rng, o, k, &keys, &mut words);
        docs.insert(k.clone(), doc);
        initial.insert(k.clone(), text);
    }
    let mut versions: BTreeMap<String, Vec<String>> = initial
        .iter()
        .map(|(k, v)| (k.clone(), vec![v.clone()]))
        .collect();
    let steps_n = rng.range(1, max_steps);
    let mut steps = vec![];
    for _ in 0..steps_n {
        let new_key = keys.is_empty() || rng.chance(1, 7);
        if new_key {
            let k = loop {
                // sometimes the new note takes a name that existing notes already link to (a dangling target comes alive)
                let cand = if o.dangling && rng.chance(1, 3) {
                    format!("missing{}", rng.below(3))
                } else {
                    libgen::gen_keys(rng, 1, o.subdirs)[0].replace("n1", &format!("x{}", keys.len() + 1))
                };
                if !keys.contains(&cand) {
                    break cand;
                }
                if cand.starts_with("missing") && keys.iter().filter(|k| k.starts_with("missing")).count() >= 3 {
                    break format!("x{}", keys.len() + 1);
                }
            };
            keys.push(k.clone());
            let (doc, text, _) = libgen::gen_note(rng, o, &k, &keys, &mut words);
            docs.insert(k.clone(), doc);
            versions.entry(k.clone()).or_default().push(text.clone());
            steps.push(Step {
                key: k,
                text,
                what: "new-note".into(),
                insert: rng.chance(1, 2),
            });
            continue;
        }
        let key = rng.pick(&keys).clone();
        // revert to an earlier version sometimes
        if rng.chance(1, 10) && versions[&key].len() > 1 {
            let text = rng.pick(&versions[&key]).clone();
            steps.push(Step {
                key: key.clone(),
                text,
                what: "revert".into(),
                insert: false,
            });
            // the AST for reverted text is unknown: regenerate from scratch next time
            continue;
        }
        let mut tries = 0;
        loop {
            tries += 1;
            let mut doc = docs[&key].clone();
            let what = mutate(&mut doc, rng, &mut words, o, &key, &keys);
            let (doc, text, what) = if what == "fresh" || what == "noop" || tries > 5 {
                let (d, t, _) = libgen::gen_note(rng, o, &key, &keys, &mut words);
                (d, t, "rewrite".to_string())
            } else {
                let text = gen::render(&doc, rng.next(), o.crlf);
                (doc, text, what)
            };
            if libgen::self_check(&doc, &text) {
                docs.insert(key.clone(), doc);
                versions.get_mut(&key).unwrap().push(text.clone());
                steps.push(Step {
                    key: key.clone(),
                    text,
                    what,
                    insert: false,
                });
                break;
            }
        }
    }
    History { initial, steps }
}
