//! Relational oracles over two scans (input vs. formatted output) of one note inside a library.

use crate::mdscan::{self, AKind, Atom, LKind, LinkOcc, Scan};
use std::collections::BTreeMap;

/// independent view of a library: key -> scan of its text
pub struct LibView {
    pub scans: BTreeMap<String, Scan>,
    pub titles: BTreeMap<String, String>,
}

impl LibView {
    pub fn new(notes: &BTreeMap<String, String>) -> LibView {
        let scans: BTreeMap<String, Scan> = notes
            .iter()
            .map(|(k, v)| (k.clone(), mdscan::scan(v)))
            .collect();
        let titles = scans
            .iter()
            .filter_map(|(k, s)| mdscan::title_of(s).map(|t| (k.clone(), t)))
            .collect();
        LibView { scans, titles }
    }
    pub fn exists(&self, key: &str) -> bool {
        self.scans.contains_key(key)
    }
    pub fn title(&self, key: &str) -> Option<&String> {
        self.titles.get(key)
    }
}

#[derive(Clone, Debug)]
pub struct Diff {
    pub clause: &'static str,
    pub detail: String,
}

fn d(clause: &'static str, detail: String) -> Diff {
    Diff { clause, detail }
}

/// is the visible text of this link legitimately rewritten by formatting?
/// ordinary (inline / reference-style) internal link to an existing note that has a title
pub fn refreshable(l: &LinkOcc, dir: &str, lib: &LibView) -> Option<String> {
    // (a link that shows an image keeps it: a title in its place would delete the image)
    if !matches!(l.kind, LKind::Inline | LKind::Reference) || !mdscan::is_internal(&l.dest) || l.holds_image {
        return None;
    }
    let key = mdscan::resolve(&l.dest, dir)?;
    lib.title(&key).cloned()
}

pub fn masked_words(a: &Atom, scan: &Scan, mask: &dyn Fn(&LinkOcc) -> bool) -> Vec<String> {
    let chars: Vec<char> = a.text.chars().collect();
    let mut out = String::new();
    let mut i = 0;
    let mut spans: Vec<(usize, usize)> = a
        .links
        .iter()
        .map(|&l| &scan.links[l])
        .filter(|l| !l.nested && mask(l))
        .map(|l| l.span)
        .collect();
    spans.sort();
    for (s, e) in spans {
        if s < i {
            continue;
        }
        out.extend(chars[i..s.min(chars.len())].iter());
        out.push_str(" \u{1}LINK\u{1} ");
        i = e.min(chars.len());
    }
    out.extend(chars[i..].iter());
    out.split_whitespace().map(|s| s.to_string()).collect()
}

fn strip_md(s: &str) -> &str {
    s.strip_suffix(".md").unwrap_or(s)
}

pub struct NormCmp {
    pub c01: Vec<Diff>,
    pub c06: Vec<Diff>,
    pub c07: Vec<Diff>,
    pub links_checked: usize,
    pub refreshed: usize,
    pub atoms: usize,
}

/// compare a note before / after formatting. `dir` = directory of the note, `lib` = the library
/// (input texts) it is part of.
pub fn compare_norm(input: &Scan, output: &Scan, dir: &str, lib: &LibView) -> NormCmp {
    let mut r = NormCmp {
        c01: vec![],
        c06: vec![],
        c07: vec![],
        links_checked: 0,
        refreshed: 0,
        atoms: 0,
    };
    // documented drop: raw html blocks
    let ins: Vec<(usize, &Atom)> = input
        .atoms
        .iter()
        .enumerate()
        .filter(|(_, a)| a.kind != AKind::Html)
        .collect();
    let outs: Vec<(usize, &Atom)> = output.atoms.iter().enumerate().collect();
    r.atoms = ins.len();

    // front matter verbatim
    let norm_meta = |m: &Option<String>| m.as_ref().map(|s| s.replace("\r\n", "\n").trim_end().to_string());
    if norm_meta(&input.meta) != norm_meta(&output.meta) {
        r.c01.push(d(
            "front-matter",
            format!("meta {:?} -> {:?}", input.meta, output.meta),
        ));
    }

    let mask_in = |l: &LinkOcc| l.kind == LKind::Wiki || refreshable(l, dir, lib).is_some();
    let mask_out = |l: &LinkOcc| l.kind == LKind::Wiki || refreshable(l, dir, lib).is_some();

    // global word accounting first: it classifies what happened even when the atom
    // sequences are misaligned
    let all_in: Vec<String> = ins
        .iter()
        .filter(|(_, a)| !matches!(a.kind, AKind::Code(_)))
        .flat_map(|(_, a)| masked_words(a, input, &mask_in))
        .collect();
    let all_out: Vec<String> = outs
        .iter()
        .filter(|(_, a)| !matches!(a.kind, AKind::Code(_) | AKind::Html))
        .flat_map(|(_, a)| masked_words(a, output, &mask_out))
        .collect();
    if all_in != all_out {
        let mut cin: BTreeMap<&str, i64> = BTreeMap::new();
        for w in &all_in {
            *cin.entry(w).or_insert(0) += 1;
        }
        for w in &all_out {
            *cin.entry(w).or_insert(0) -= 1;
        }
        let lost: Vec<&str> = cin.iter().filter(|(_, &c)| c > 0).map(|(w, _)| *w).collect();
        let extra: Vec<&str> = cin.iter().filter(|(_, &c)| c < 0).map(|(w, _)| *w).collect();
        let mut merged = vec![];
        for e in &extra {
            for w in all_in.windows(2) {
                if format!("{}{}", w[0], w[1]) == **e {
                    merged.push(e.to_string());
                }
            }
        }
        if !merged.is_empty() {
            r.c01.push(d("words-merged", format!("merged tokens {:?}", merged)));
        } else if !lost.is_empty() && extra.is_empty() {
            r.c01.push(d("word-lost", format!("lost {:?}", lost)));
        } else if lost.is_empty() && !extra.is_empty() {
            r.c01.push(d("word-invented", format!("extra {:?}", extra)));
        } else if lost.is_empty() && extra.is_empty() {
            r.c01.push(d("word-order", format!("same words, different order")));
        } else {
            r.c01.push(d(
                "word-changed",
                format!("lost {:?} extra {:?}", lost, extra),
            ));
        }
    }

    if ins.len() != outs.len() {
        r.c01.push(d(
            "atom-count",
            format!(
                "{} content blocks in, {} out; in kinds [{}] out kinds [{}]",
                ins.len(),
                outs.len(),
                ins.iter().map(|(_, a)| a.kind.name()).collect::<Vec<_>>().join(","),
                outs.iter().map(|(_, a)| a.kind.name()).collect::<Vec<_>>().join(",")
            ),
        ));
        return r;
    }

    for ((_, a), (_, b)) in ins.iter().zip(outs.iter()) {
        // kind (heading level is presentation: C07 judges it)
        let same_kind = match (&a.kind, &b.kind) {
            (AKind::Heading(_), AKind::Heading(_)) => true,
            (x, y) => x == y,
        };
        if !same_kind {
            r.c01.push(d(
                "block-kind-changed",
                format!("{} `{}` -> {} `{}`", a.kind.name(), a.text, b.kind.name(), b.text),
            ));
            continue;
        }
        if a.chain_kinds() != b.chain_kinds() {
            r.c01.push(d(
                "container-changed",
                format!("`{}`: {} -> {}", a.text, a.chain_kinds(), b.chain_kinds()),
            ));
        } else if a.chain_full() != b.chain_full() {
            r.c07.push(d(
                "container-instance-changed",
                format!("`{}`: {} -> {}", a.text, a.chain_full(), b.chain_full()),
            ));
        }
        match &a.kind {
            AKind::Code(_) => {
                let x = a.text.replace("\r\n", "\n");
                let y = b.text.replace("\r\n", "\n");
                if x.trim_matches('\n') != y.trim_matches('\n') {
                    r.c01.push(d("code-body", format!("{:?} -> {:?}", x, y)));
                }
            }
            _ => {
                let x = masked_words(a, input, &mask_in);
                let y = masked_words(b, output, &mask_out);
                if x != y {
                    r.c01.push(d(
                        "moved-to-neighbour",
                        format!("block words {:?} -> {:?}", x, y),
                    ));
                }
            }
        }
        // links, paired by ordinal inside the block
        let la: Vec<&LinkOcc> = a.links.iter().map(|&i| &input.links[i]).collect();
        let lb: Vec<&LinkOcc> = b.links.iter().map(|&i| &output.links[i]).collect();
        if la.len() != lb.len() {
            r.c01.push(d(
                "link-count",
                format!("`{}`: {} links -> {}", a.text, la.len(), lb.len()),
            ));
            // a link that stopped being a link (or a new one) is also a rewritten link: C06
            let mut da: Vec<&str> = la.iter().filter(|l| l.kind != LKind::Image).map(|l| strip_md(&l.dest)).collect();
            let mut db: Vec<&str> = lb.iter().filter(|l| l.kind != LKind::Image).map(|l| strip_md(&l.dest)).collect();
            da.sort();
            db.sort();
            if da != db {
                r.c06.push(d(
                    "link-lost-or-invented",
                    format!("`{}`: link destinations {:?} -> {:?}", a.text, da, db),
                ));
            }
            continue;
        }
        for (x, y) in la.iter().zip(lb.iter()) {
            r.links_checked += 1;
            let kind_ok = match (&x.kind, &y.kind) {
                (LKind::Reference, LKind::Inline) => true,
                (p, q) => p == q,
            };
            if !kind_ok {
                r.c06.push(d(
                    "link-kind",
                    format!("{:?} {} -> {:?} {}", x.kind, x.dest, y.kind, y.dest),
                ));
            }
            let internal = mdscan::is_internal(&x.dest) && x.kind != LKind::Image;
            if !internal {
                if x.dest != y.dest {
                    r.c06.push(d("link-dest", format!("{} -> {}", x.dest, y.dest)));
                }
                if x.text.split_whitespace().collect::<Vec<_>>()
                    != y.text.split_whitespace().collect::<Vec<_>>()
                {
                    r.c06.push(d(
                        "link-text",
                        format!("{} text `{}` -> `{}`", x.dest, x.text, y.text),
                    ));
                }
                continue;
            }
            // internal: same resolved target
            let kx = mdscan::resolve(&x.dest, dir);
            let ky = mdscan::resolve(&y.dest, dir);
            if kx != ky {
                r.c06.push(d(
                    "link-retargeted",
                    format!("{} ({:?}) -> {} ({:?})", x.dest, kx, y.dest, ky),
                ));
            } else if !x.block_ref && (strip_md(&x.dest) != strip_md(&y.dest) || (!mdscan::is_note_like(&x.dest) && x.dest != y.dest)) {
                // the configured extension is presentation of note names only: an anchor, a query or a file of another
                // type keeps its destination to the letter
                r.c06.push(d(
                    "link-dest-rewritten",
                    format!("{} -> {}", x.dest, y.dest),
                ));
            }
            if x.block_ref != y.block_ref {
                r.c06.push(d(
                    "link-kind",
                    format!("block reference {} -> inline or back: {}", x.dest, y.dest),
                ));
            }
            match refreshable(x, dir, lib) {
                Some(title) => {
                    r.refreshed += 1;
                    if y.text.split_whitespace().collect::<Vec<_>>()
                        != title.split_whitespace().collect::<Vec<_>>()
                    {
                        r.c06.push(d(
                            "link-title-not-refreshed",
                            format!("{} text `{}` but target title `{}`", x.dest, y.text, title),
                        ));
                    }
                }
                None => {
                    if x.kind != LKind::Wiki
                        && x.text.split_whitespace().collect::<Vec<_>>()
                            != y.text.split_whitespace().collect::<Vec<_>>()
                    {
                        r.c06.push(d(
                            "link-text",
                            format!("{} text `{}` -> `{}`", x.dest, x.text, y.text),
                        ));
                    }
                }
            }
        }
    }

    // ---- outline (C07)
    let hin: Vec<&Atom> = ins
        .iter()
        .map(|(_, a)| *a)
        .filter(|a| matches!(a.kind, AKind::Heading(_)))
        .collect();
    let hout: Vec<&Atom> = outs
        .iter()
        .map(|(_, a)| *a)
        .filter(|a| matches!(a.kind, AKind::Heading(_)))
        .collect();
    // every block keeps its heading: compare heading ordinals
    let ord = |scan: &Scan, idx: Option<usize>| -> Option<usize> {
        idx.map(|i| {
            scan.atoms[..=i]
                .iter()
                .filter(|a| matches!(a.kind, AKind::Heading(_)))
                .count()
        })
    };
    for ((_, a), (_, b)) in ins.iter().zip(outs.iter()) {
        if ord(input, a.heading) != ord(output, b.heading) {
            r.c07.push(d(
                "block-changed-heading",
                format!(
                    "`{}` under heading #{:?} -> #{:?}",
                    a.text,
                    ord(input, a.heading),
                    ord(output, b.heading)
                ),
            ));
        }
    }
    // levels, per scope (top level, each quote, each item)
    let mut scopes: BTreeMap<String, (Vec<u8>, Vec<u8>)> = BTreeMap::new();
    for a in &hin {
        if let AKind::Heading(l) = a.kind {
            scopes.entry(a.chain_full()).or_default().0.push(l);
        }
    }
    for a in &hout {
        if let AKind::Heading(l) = a.kind {
            scopes.entry(a.chain_full()).or_default().1.push(l);
        }
    }
    for (scope, (li, lo)) in &scopes {
        if !well_nested(lo) {
            r.c07.push(d(
                "not-well-nested",
                format!("scope `{}`: levels {:?} -> {:?}", scope, li, lo),
            ));
        }
        if well_nested(li) && li != lo {
            r.c07.push(d(
                "well-nested-not-reproduced",
                format!("scope `{}`: levels {:?} -> {:?}", scope, li, lo),
            ));
        }
    }
    r
}

pub fn well_nested(levels: &[u8]) -> bool {
    let mut prev = 0u8;
    for (i, &l) in levels.iter().enumerate() {
        if i == 0 && l != 1 {
            return false;
        }
        if l > prev + 1 {
            return false;
        }
        prev = l;
    }
    true
}
