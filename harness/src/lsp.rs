//! In-process LSP driver: the real `iwes::main_loop` with its real worker threads over
//! `lsp_server::Connection::memory()`, observed through hook H1 (event log + gates).

use iwes::router::verif::Event;
use iwes::ServerParams;
use liwe::model::config::{Configuration, MarkdownOptions, Model};
use lsp_server::{Connection, Message, Notification, Request, RequestId};
use serde_json::{json, Value};
use std::collections::{BTreeMap, HashMap, HashSet};
use std::sync::atomic::{AtomicBool, AtomicI32, AtomicU64, Ordering};
use std::sync::{Condvar, Mutex};
use std::time::{Duration, Instant};

// ------------------------------------------------------------------ H1 event log + gates

#[derive(Clone, Debug, PartialEq)]
pub enum Ev {
    Started(i32),
    Acquired(i32),
    Computed(i32),
    Exited(i32, bool),
    /// the loop thread took a notification and is about to ask for exclusive access to the server
    Taken(String),
    Applied(String),
    LoopPanicked(String),
}

#[derive(Clone, Copy, PartialEq, Eq, Hash, Debug)]
pub enum Phase {
    Started,
    /// inside the computation: the worker holds its (shared) handle on the server
    Acquired,
    Computed,
    Exited,
}

struct Log {
    events: Vec<(u64, Ev)>,
    /// (request id, phase) -> held?
    gates: HashSet<(i32, Phase)>,
    /// gate every request at these phases (until released individually)
    gate_all: HashSet<Phase>,
    waiting: HashSet<(i32, Phase)>,
}

static LOG: Mutex<Option<Log>> = Mutex::new(None);
static CV: Condvar = Condvar::new();
static SEQ: AtomicU64 = AtomicU64::new(0);
static INSTALLED: AtomicBool = AtomicBool::new(false);
static NEXT_ID: AtomicI32 = AtomicI32::new(1);

fn id_of(id: &RequestId) -> i32 {
    let s = id.to_string();
    s.trim_matches('"').parse().unwrap_or(-1)
}

fn with_log<T>(f: impl FnOnce(&mut Log) -> T) -> T {
    let mut g = LOG.lock().unwrap_or_else(|e| e.into_inner());
    if g.is_none() {
        *g = Some(Log {
            events: vec![],
            gates: HashSet::new(),
            gate_all: HashSet::new(),
            waiting: HashSet::new(),
        });
    }
    f(g.as_mut().unwrap())
}

pub fn install_router_hook() {
    if INSTALLED.swap(true, Ordering::SeqCst) {
        return;
    }
    iwes::router::verif::set_hook(Box::new(|e: &Event| {
        let (ev, gate) = match e {
            Event::Started(id) => (Ev::Started(id_of(id)), Some((id_of(id), Phase::Started))),
            Event::Acquired(id) => (Ev::Acquired(id_of(id)), Some((id_of(id), Phase::Acquired))),
            Event::Computed(id) => (Ev::Computed(id_of(id)), Some((id_of(id), Phase::Computed))),
            Event::Exited(id, p) => (Ev::Exited(id_of(id), *p), Some((id_of(id), Phase::Exited))),
            Event::NotificationTaken(m) => (Ev::Taken(m.clone()), None),
            Event::NotificationApplied(m) => (Ev::Applied(m.clone()), None),
            Event::MessagePanicked(m) => (Ev::LoopPanicked(m.clone()), None),
        };
        let mut g = LOG.lock().unwrap_or_else(|e| e.into_inner());
        if g.is_none() {
            drop(g);
            with_log(|_| ());
            g = LOG.lock().unwrap_or_else(|e| e.into_inner());
        }
        let seq = SEQ.fetch_add(1, Ordering::SeqCst);
        g.as_mut().unwrap().events.push((seq, ev));
        CV.notify_all();
        if let Some((id, phase)) = gate {
            // block while this (id, phase) is gated; gates lie outside every critical section
            loop {
                let log = g.as_mut().unwrap();
                let held = log.gates.contains(&(id, phase)) || log.gate_all.contains(&phase);
                if !held {
                    log.waiting.remove(&(id, phase));
                    break;
                }
                log.waiting.insert((id, phase));
                CV.notify_all();
                let (ng, _) = CV
                    .wait_timeout(g, Duration::from_millis(200))
                    .unwrap_or_else(|e| e.into_inner());
                g = ng;
            }
        }
    }));
}

pub fn events_since(mark: usize) -> Vec<Ev> {
    with_log(|l| l.events[mark.min(l.events.len())..].iter().map(|e| e.1.clone()).collect())
}

pub fn event_mark() -> usize {
    with_log(|l| l.events.len())
}

pub fn reset_log() {
    with_log(|l| {
        l.events.clear();
        l.gates.clear();
        l.gate_all.clear();
        l.waiting.clear();
    });
    CV.notify_all();
}

pub fn gate(id: i32, phase: Phase) {
    with_log(|l| {
        l.gates.insert((id, phase));
    });
}

pub fn release(id: i32, phase: Phase) {
    with_log(|l| {
        l.gates.remove(&(id, phase));
    });
    CV.notify_all();
}

pub fn release_all() {
    with_log(|l| {
        l.gates.clear();
        l.gate_all.clear();
    });
    CV.notify_all();
}

/// wait (bounded) until `pred` holds on the event log; false on watchdog
pub fn wait_for(pred: impl Fn(&[(u64, Ev)], &HashSet<(i32, Phase)>) -> bool, watchdog: Duration) -> bool {
    let t0 = Instant::now();
    let mut g = LOG.lock().unwrap_or_else(|e| e.into_inner());
    loop {
        if let Some(l) = g.as_ref() {
            if pred(&l.events, &l.waiting) {
                return true;
            }
        }
        if t0.elapsed() > watchdog {
            crate::mon::note_watchdog();
            return false;
        }
        let (ng, _) = CV
            .wait_timeout(g, Duration::from_millis(20))
            .unwrap_or_else(|e| e.into_inner());
        g = ng;
    }
}

/// like `wait_for`, but a stall is reported to the caller only (used for bounded-progress verdicts)
pub fn wait_for_quiet(pred: impl Fn(&[(u64, Ev)], &HashSet<(i32, Phase)>) -> bool, limit: Duration) -> bool {
    let t0 = Instant::now();
    let mut g = LOG.lock().unwrap_or_else(|e| e.into_inner());
    loop {
        if let Some(l) = g.as_ref() {
            if pred(&l.events, &l.waiting) {
                return true;
            }
        }
        if t0.elapsed() > limit {
            return false;
        }
        let (ng, _) = CV
            .wait_timeout(g, Duration::from_millis(20))
            .unwrap_or_else(|e| e.into_inner());
        g = ng;
    }
}

pub fn wait_parked(id: i32, phase: Phase, watchdog: Duration) -> bool {
    wait_for(|_, w| w.contains(&(id, phase)), watchdog)
}

pub fn wait_exited(id: i32, watchdog: Duration) -> bool {
    wait_for(
        |ev, _| ev.iter().any(|e| matches!(e.1, Ev::Exited(i, _) if i == id)),
        watchdog,
    )
}

// ------------------------------------------------------------------ server

#[derive(Clone, Debug)]
pub enum Outcome {
    /// result value (or error-shaped result) of the single response
    Result(Value),
    Error(i32, String),
    /// the worker exited (H1 Exited) without having responded
    NoResponse { panicked: bool },
    /// watchdog: neither response nor Exited observed — inconclusive
    Watchdog,
    /// more than one response for the id
    Duplicate(usize),
}

impl Outcome {
    pub fn result(&self) -> Option<&Value> {
        match self {
            Outcome::Result(v) => Some(v),
            _ => None,
        }
    }
    pub fn answered(&self) -> bool {
        matches!(self, Outcome::Result(_) | Outcome::Error(..))
    }
}

pub struct Server {
    pub client: Connection,
    thread: Option<std::thread::JoinHandle<bool>>,
    pub base: String,
    pub responses: HashMap<i32, Vec<lsp_server::Response>>,
    pub server_requests: Vec<Request>,
    pub sent: u64,
}

pub fn test_configuration(ext: &str) -> Configuration {
    // a `default` model with an empty api_key_env: llm_query returns "" and no network path exists
    let mut models = HashMap::new();
    models.insert("default".to_string(), Model::default());
    Configuration {
        markdown: MarkdownOptions {
            refs_extension: ext.to_string(),
        },
        library: Default::default(),
        models,
        actions: Default::default(),
        prompt_key_prefix: Some("prompt".to_string()),
    }
}

impl Server {
    /// in-memory state (sequential test ids) at base path `/basepath`
    pub fn start_mem(state: &BTreeMap<String, String>, ext: &str) -> Server {
        let st: HashMap<String, String> = state.iter().map(|(k, v)| (k.clone(), v.clone())).collect();
        Self::start(Some(st), "/basepath".to_string(), test_configuration(ext))
    }

    /// disk-backed: the real loader, the real random key generator, real URIs
    pub fn start_disk(dir: &std::path::Path, ext: &str) -> Server {
        Self::start(None, dir.to_string_lossy().to_string(), test_configuration(ext))
    }

    pub fn start(state: Option<HashMap<String, String>>, base: String, configuration: Configuration) -> Server {
        install_router_hook();
        let (connection, client) = Connection::memory();
        let b = base.clone();
        let thread = std::thread::Builder::new()
            .name("iwes main loop".into())
            // the message loop of the shipped binary runs on the main thread (8 MiB)
            .stack_size(8 * 1024 * 1024)
            .spawn(move || {
                iwes::main_loop(
                    connection,
                    ServerParams {
                        state,
                        sequential_ids: None,
                        client_name: None,
                        configuration,
                        base_path: b,
                    },
                )
                .is_ok()
            })
            .unwrap();
        Server {
            client,
            thread: Some(thread),
            base,
            responses: HashMap::new(),
            server_requests: vec![],
            sent: 0,
        }
    }

    pub fn uri(&self, key: &str) -> String {
        lsp_types::Url::from_file_path(format!("{}/{}.md", self.base.trim_end_matches('/'), key))
            .map(|u| u.to_string())
            .unwrap_or_else(|_| format!("file://{}/{}.md", self.base, key))
    }

    /// key of a response uri, by the harness's own mapping (path under base, one .md stripped)
    pub fn key_of_uri(&self, uri: &str) -> Option<String> {
        let url = lsp_types::Url::parse(uri).ok()?;
        let path = url.to_file_path().ok()?;
        let rel = path.strip_prefix(self.base.trim_end_matches('/')).ok()?;
        let s = rel.to_string_lossy().to_string();
        Some(s.strip_suffix(".md").unwrap_or(&s).to_string())
    }

    pub fn notify(&mut self, method: &str, params: Value) {
        self.sent += 1;
        let _ = self.client.sender.send(Message::Notification(Notification {
            method: method.to_string(),
            params,
        }));
    }

    pub fn did_change(&mut self, key: &str, text: &str) {
        let uri = self.uri(key);
        // full-text sync: every third notification carries two changes, the whole text twice over; they apply in order,
        // so the last one is the document
        static CALLS: AtomicU64 = AtomicU64::new(0);
        let changes = if CALLS.fetch_add(1, Ordering::SeqCst) % 3 == 2 {
            json!([{"text": "# a superseded intermediate text\n\n[stale](n1)\n"}, {"text": text}])
        } else {
            json!([{"text": text}])
        };
        self.notify(
            "textDocument/didChange",
            json!({"textDocument": {"uri": uri, "version": 1}, "contentChanges": changes}),
        );
    }

    pub fn did_save(&mut self, key: &str, text: &str) {
        let uri = self.uri(key);
        self.notify(
            "textDocument/didSave",
            json!({"textDocument": {"uri": uri}, "text": text}),
        );
    }

    /// like `send`, but the worker will be held at `phase` (the gate is set before the request exists)
    pub fn send_gated(&mut self, method: &str, params: Value, phase: Phase) -> i32 {
        let id = NEXT_ID.fetch_add(1, Ordering::SeqCst);
        gate(id, phase);
        self.send_with_id(id, method, params)
    }

    /// send without waiting; returns the request id
    pub fn send(&mut self, method: &str, params: Value) -> i32 {
        let id = NEXT_ID.fetch_add(1, Ordering::SeqCst);
        self.send_with_id(id, method, params)
    }

    fn send_with_id(&mut self, id: i32, method: &str, params: Value) -> i32 {
        self.sent += 1;
        let _ = self.client.sender.send(Message::Request(Request {
            id: id.into(),
            method: method.to_string(),
            params,
        }));
        id
    }

    fn pump(&mut self, wait: Duration) {
        let deadline = Instant::now() + wait;
        loop {
            let left = deadline.saturating_duration_since(Instant::now());
            match self.client.receiver.recv_timeout(left) {
                Ok(Message::Response(r)) => {
                    let id = id_of(&r.id);
                    self.responses.entry(id).or_default().push(r);
                    if wait.is_zero() {
                        continue;
                    }
                    return;
                }
                Ok(Message::Request(r)) => self.server_requests.push(r),
                Ok(Message::Notification(_)) => {}
                Err(_) => return,
            }
            if Instant::now() >= deadline {
                return;
            }
        }
    }

    fn drain(&mut self) {
        while let Ok(m) = self.client.receiver.try_recv() {
            match m {
                Message::Response(r) => {
                    let id = id_of(&r.id);
                    self.responses.entry(id).or_default().push(r);
                }
                Message::Request(r) => self.server_requests.push(r),
                Message::Notification(_) => {}
            }
        }
    }

    /// outcome of request `id`, decided on the H1 `Exited` event (never on a timeout)
    pub fn outcome(&mut self, id: i32, watchdog: Duration) -> Outcome {
        let t0 = Instant::now();
        loop {
            self.drain();
            let exited = with_log(|l| {
                l.events.iter().find_map(|e| match e.1 {
                    Ev::Exited(i, p) if i == id => Some(p),
                    _ => None,
                })
            });
            if let Some(panicked) = exited {
                // the response, if any, was sent before the worker exited
                self.drain();
                return match self.responses.get(&id) {
                    Some(v) if v.len() == 1 => {
                        let r = &v[0];
                        if let Some(e) = &r.error {
                            Outcome::Error(e.code, e.message.clone())
                        } else {
                            Outcome::Result(r.result.clone().unwrap_or(Value::Null))
                        }
                    }
                    Some(v) if v.len() > 1 => Outcome::Duplicate(v.len()),
                    _ => Outcome::NoResponse { panicked },
                };
            }
            // the message loop has ended (it returned or died, e.g. while loading the library): nothing will ever answer
            if self.thread.as_ref().map(|t| t.is_finished()).unwrap_or(true) && t0.elapsed() > Duration::from_millis(200) {
                self.drain();
                return Outcome::NoResponse { panicked: true };
            }
            if t0.elapsed() > watchdog {
                crate::mon::note_watchdog();
                return Outcome::Watchdog;
            }
            self.pump(Duration::from_millis(5));
        }
    }

    pub fn request(&mut self, method: &str, params: Value) -> Outcome {
        let id = self.send(method, params);
        self.outcome(id, Duration::from_secs(120))
    }

    pub fn formatting(&mut self, key: &str) -> Outcome {
        let uri = self.uri(key);
        self.request(
            "textDocument/formatting",
            json!({"textDocument": {"uri": uri}, "options": {"tabSize": 2, "insertSpaces": true}}),
        )
    }

    pub fn formatted_text(&mut self, key: &str) -> Option<String> {
        match self.formatting(key) {
            Outcome::Result(v) => v
                .as_array()
                .and_then(|a| a.first())
                .and_then(|e| e.get("newText"))
                .and_then(|t| t.as_str())
                .map(|s| s.to_string()),
            _ => None,
        }
    }

    /// shutdown + exit; true if the loop returned Ok
    pub fn shutdown(mut self) -> bool {
        // like a real client: wait for the shutdown response before sending exit
        let id = self.send("shutdown", Value::Null);
        let _ = self.outcome(id, Duration::from_secs(10));
        self.notify("exit", Value::Null);
        let t = self.thread.take().unwrap();
        let t0 = Instant::now();
        while !t.is_finished() && t0.elapsed() < Duration::from_secs(10) {
            std::thread::sleep(Duration::from_millis(2));
        }
        if t.is_finished() {
            t.join().unwrap_or(false)
        } else {
            false
        }
    }

    /// drop the connection without the shutdown sequence (server thread ends with an error)
    pub fn kill(mut self) {
        release_all();
        let t = self.thread.take();
        drop(self);
        if let Some(t) = t {
            let t0 = Instant::now();
            while !t.is_finished() && t0.elapsed() < Duration::from_secs(5) {
                std::thread::sleep(Duration::from_millis(2));
            }
        }
    }
}

// ------------------------------------------------------------------ workspace edit model

/// applies an LSP WorkspaceEdit (documentChanges operations) to an in-memory library;
/// rejects create-on-existing, delete/edit of missing files and partial ranges
pub fn apply_workspace_edit(
    lib: &BTreeMap<String, String>,
    edit: &Value,
    server: &Server,
) -> Result<BTreeMap<String, String>, String> {
    let mut lib = lib.clone();
    let ops = edit
        .get("documentChanges")
        .and_then(|d| d.as_array())
        .ok_or_else(|| "no documentChanges operations".to_string())?;
    for op in ops {
        if let Some(kind) = op.get("kind").and_then(|k| k.as_str()) {
            let uri = op.get("uri").and_then(|u| u.as_str()).ok_or("op without uri")?;
            let key = server.key_of_uri(uri).ok_or_else(|| format!("uri outside library: {}", uri))?;
            match kind {
                "create" => {
                    if lib.contains_key(&key) {
                        return Err(format!("create of existing note {}", key));
                    }
                    lib.insert(key, String::new());
                }
                "delete" => {
                    if lib.remove(&key).is_none() {
                        return Err(format!("delete of missing note {}", key));
                    }
                }
                other => return Err(format!("unsupported resource op {}", other)),
            }
            continue;
        }
        let uri = op
            .get("textDocument")
            .and_then(|t| t.get("uri"))
            .and_then(|u| u.as_str())
            .ok_or("edit without uri")?;
        let key = server.key_of_uri(uri).ok_or_else(|| format!("uri outside library: {}", uri))?;
        let edits = op.get("edits").and_then(|e| e.as_array()).ok_or("edit without edits")?;
        let cur = lib.get(&key).cloned().ok_or_else(|| format!("edit of missing note {}", key))?;
        if edits.len() != 1 {
            return Err(format!("{} edits for {}", edits.len(), key));
        }
        let e = &edits[0];
        let r = e.get("range").ok_or("edit without range")?;
        let g = |a: &str, b: &str| r.get(a).and_then(|p| p.get(b)).and_then(|v| v.as_u64()).unwrap_or(u64::MAX);
        let (sl, sc, el, ec) = (g("start", "line"), g("start", "character"), g("end", "line"), g("end", "character"));
        let new_text = e.get("newText").and_then(|t| t.as_str()).ok_or("edit without newText")?;
        let lines = cur.lines().count() as u64;
        if sl == 0 && sc == 0 && el >= lines {
            lib.insert(key, new_text.to_string());
        } else if sl == 0 && sc == 0 && el == 0 && ec == 0 {
            lib.insert(key, format!("{}{}", new_text, cur));
        } else {
            return Err(format!("partial range {}:{}-{}:{} on {} ({} lines)", sl, sc, el, ec, key, lines));
        }
    }
    Ok(lib)
}
