//! C20 invariant walker: iterative, uses only the public Graph API plus the read-only H3 dumps.

use liwe::graph::graph_node::GraphNode;
use liwe::graph::{Graph, GraphContext};
use liwe::model::node::NodePointer;
use liwe::model::NodeId;
use std::collections::{HashMap, HashSet};

#[derive(Default, Debug, Clone)]
pub struct WalkStats {
    pub nodes: usize,
    pub live: usize,
    pub tombstones: usize,
    pub keys: usize,
    pub nav_checked: usize,
    pub lines_checked: usize,
}

pub struct WalkResult {
    pub violations: Vec<(String, String)>,
    pub stats: WalkStats,
    /// owner key and DFS pre-order of every live node, per key
    pub order: HashMap<String, Vec<NodeId>>,
}

fn v(out: &mut Vec<(String, String)>, clause: &str, detail: String) {
    if out.len() < 20 {
        out.push((clause.to_string(), detail));
    }
}

pub fn walk(graph: &Graph) -> WalkResult {
    let nodes = graph.nodes();
    let n = nodes.len();
    let keys = graph.verif_keys();
    let mut out = vec![];
    let mut stats = WalkStats {
        nodes: n,
        keys: keys.len(),
        ..Default::default()
    };
    let mut owner: Vec<Option<usize>> = vec![None; n];
    let mut parent: Vec<Option<NodeId>> = vec![None; n];
    let mut order: HashMap<String, Vec<NodeId>> = HashMap::new();
    let mut sorted_keys: Vec<_> = keys.iter().collect();
    sorted_keys.sort();
    let mut roots: Vec<NodeId> = vec![];

    for (ki, (key, &root)) in sorted_keys.iter().enumerate() {
        if root as usize >= n {
            v(&mut out, "root-out-of-range", format!("key {} -> {}", key, root));
            continue;
        }
        match &nodes[root as usize] {
            GraphNode::Document(d) => {
                if d.key() != *key {
                    v(
                        &mut out,
                        "root-key-mismatch",
                        format!("keys[{}] = node {} which carries key {}", key, root, d.key()),
                    );
                }
            }
            other => {
                v(
                    &mut out,
                    "root-not-document",
                    format!("keys[{}] = node {} is {}", key, root, other.to_symbol()),
                );
                continue;
            }
        }
        roots.push(root);
        // iterative DFS: (node, parent-of-node, predecessor sibling)
        let mut stack: Vec<(NodeId, Option<NodeId>, Option<NodeId>)> = vec![(root, None, None)];
        let mut dfs = vec![];
        while let Some((id, par, pred)) = stack.pop() {
            let i = id as usize;
            if i >= n {
                v(&mut out, "edge-out-of-range", format!("edge into node {} (arena {})", id, n));
                continue;
            }
            let node = &nodes[i];
            if node.is_empty() {
                v(
                    &mut out,
                    "edge-into-tombstone",
                    format!("note {}: edge from {:?}/{:?} into tombstone {}", key, par, pred, id),
                );
                continue;
            }
            if let Some(prev_owner) = owner[i] {
                v(
                    &mut out,
                    "node-reached-twice",
                    format!(
                        "node {} reached again in note {} (first owner #{})",
                        id, key, prev_owner
                    ),
                );
                continue;
            }
            owner[i] = Some(ki);
            parent[i] = par;
            dfs.push(id);
            if node.id() != id {
                v(&mut out, "id-mismatch", format!("slot {} holds node id {}", id, node.id()));
            }
            // prev pointer: predecessor sibling if any, else parent
            let expect_prev = pred.or(par);
            if node.prev_id() != expect_prev && !(node.is_document() && expect_prev.is_none()) {
                v(
                    &mut out,
                    "prev-mismatch",
                    format!(
                        "note {} node {}: prev {:?}, expected {:?}",
                        key,
                        id,
                        node.prev_id(),
                        expect_prev
                    ),
                );
            }
            if node.is_document() && par.is_some() {
                v(&mut out, "document-inside-tree", format!("document node {} below {:?}", id, par));
            }
            // push next first so that child is processed first (pre-order)
            if let Some(nx) = node.next_id() {
                stack.push((nx, par, Some(id)));
            }
            if let Some(ch) = node.child_id() {
                stack.push((ch, Some(id), None));
            }
        }
        order.insert(key.to_string(), dfs);
    }

    // no orphans, tombstone count
    for (i, node) in nodes.iter().enumerate() {
        if node.is_empty() {
            stats.tombstones += 1;
            continue;
        }
        stats.live += 1;
        if owner[i].is_none() {
            v(
                &mut out,
                "orphan-live-node",
                format!("live node {} ({}) not reachable from any note root", i, node.to_symbol()),
            );
        }
    }

    // line ids in range and unshared
    let lines_len = graph.verif_lines_len();
    let mut line_owner: HashMap<usize, usize> = HashMap::new();
    for (i, node) in nodes.iter().enumerate() {
        if node.is_empty() {
            continue;
        }
        let mut ids: Vec<usize> = vec![];
        if let Some(l) = node.line_id() {
            ids.push(l);
        }
        if let Some(h) = node.table_header() {
            ids.extend(h);
        }
        if let Some(rows) = node.table_rows() {
            for r in rows {
                ids.extend(r);
            }
        }
        for l in ids {
            stats.lines_checked += 1;
            if l >= lines_len {
                v(&mut out, "line-out-of-range", format!("node {} line {} >= {}", i, l, lines_len));
            }
            if let Some(prev) = line_owner.insert(l, i) {
                if prev != i {
                    v(&mut out, "line-shared", format!("line {} used by nodes {} and {}", l, prev, i));
                }
            }
        }
    }

    // navigation agrees with the DFS-derived parent / owner (sampled on big graphs)
    let step = (stats.live / 400).max(1);
    let key_list: Vec<String> = sorted_keys.iter().map(|(k, _)| k.to_string()).collect();
    let mut seen = 0;
    for (i, node) in nodes.iter().enumerate() {
        if node.is_empty() || owner[i].is_none() {
            continue;
        }
        seen += 1;
        if seen % step != 0 {
            continue;
        }
        stats.nav_checked += 1;
        let id = i as NodeId;
        let ki = owner[i].unwrap();
        let p = graph.node(id);
        let nav_parent = p.to_parent().and_then(|q| q.id());
        if nav_parent != parent[i] {
            v(
                &mut out,
                "to-parent-mismatch",
                format!("node {}: to_parent {:?}, walk says {:?}", id, nav_parent, parent[i]),
            );
        }
        let nav_doc = p.to_document().and_then(|q| q.id());
        if nav_doc != Some(roots_for(&sorted_keys, ki)) {
            v(
                &mut out,
                "to-document-mismatch",
                format!("node {}: to_document {:?}, owner root {}", id, nav_doc, roots_for(&sorted_keys, ki)),
            );
        }
        let k = graph.key_of(id).to_string();
        if k != key_list[ki] {
            v(&mut out, "key-of-mismatch", format!("node {}: key_of {} owner {}", id, k, key_list[ki]));
        }
    }

    // nodes_map[key] names only live nodes of key
    let key_index: HashMap<&String, usize> = key_list.iter().enumerate().map(|(i, k)| (k, i)).collect();
    for (key, map) in graph.verif_nodes_map() {
        let ks = key.to_string();
        let Some(&ki) = key_index.get(&ks) else {
            continue;
        };
        let mut seen_ids = HashSet::new();
        for (id, range) in map {
            let i = id as usize;
            if i >= n || nodes[i].is_empty() {
                v(&mut out, "nodes-map-dead-node", format!("nodes_map[{}] names dead node {}", ks, id));
            } else if owner[i] != Some(ki) {
                v(
                    &mut out,
                    "nodes-map-foreign-node",
                    format!("nodes_map[{}] names node {} owned by #{:?}", ks, id, owner[i]),
                );
            }
            if range.start > range.end {
                v(&mut out, "nodes-map-bad-range", format!("nodes_map[{}] node {} range {:?}", ks, id, range));
            }
            seen_ids.insert(id);
        }
    }

    WalkResult {
        violations: out,
        stats,
        order,
    }
}

fn roots_for(sorted_keys: &[(&liwe::model::Key, &NodeId)], ki: usize) -> NodeId {
    *sorted_keys[ki].1
}

/// texts of a note's text-bearing nodes in DFS order (sections, leaves, references)
pub fn dfs_texts(graph: &Graph, order: &[NodeId]) -> Vec<String> {
    let mut out = vec![];
    for &id in order {
        match graph.graph_node(id) {
            GraphNode::Section(_) | GraphNode::Leaf(_) => {
                let t = graph.get_text(id);
                out.push(t.split_whitespace().collect::<Vec<_>>().join(" "));
            }
            GraphNode::Reference(r) => out.push(format!("ref:{}", r.key())),
            GraphNode::Raw(_) => out.push("code".to_string()),
            GraphNode::HorizontalRule(_) => out.push("rule".to_string()),
            GraphNode::Table(_) => out.push("table".to_string()),
            _ => {}
        }
    }
    out
}
