//! Library generator: notes in 0-2 directory levels with cross links, unique words per library.

use crate::gen::{self, Doc, Gen, Profile, Target, Words};
use crate::mdscan;
use crate::rng::Rng;
use std::collections::BTreeMap;

#[derive(Clone, Debug)]
pub struct Lib {
    pub docs: BTreeMap<String, Doc>,
    pub texts: BTreeMap<String, String>,
    /// cases dropped by the generator <-> scanner self-check
    pub artefacts: usize,
}

#[derive(Clone, Debug)]
pub struct LibOpts {
    pub min_notes: usize,
    pub max_notes: usize,
    /// allow notes in sub-directories
    pub subdirs: bool,
    /// allow inline links whose source or target is in a sub-directory (needs finding 20 fixed)
    pub cross_dir_inline: bool,
    /// allow `..` in urls (needs finding 19 fixed)
    pub updir: bool,
    /// write `.md` on some internal destinations
    pub md_suffix: bool,
    pub crlf: bool,
    pub profile: Profile,
    pub self_links: bool,
    pub dangling: bool,
    /// destinations that are neither notes nor web addresses: attachments, anchors, queries, other schemes, absolute paths
    pub foreign: bool,
    /// internal links inside paragraphs (false: only block references are internal)
    pub inline_internal: bool,
    /// some notes share identical blocks (same line text in several notes)
    pub shared_blocks: bool,
}

impl LibOpts {
    pub fn clean() -> LibOpts {
        LibOpts {
            min_notes: 1,
            max_notes: 6,
            subdirs: true,
            cross_dir_inline: false,
            updir: true,
            md_suffix: true,
            crlf: false,
            profile: Profile::clean(vec![]),
            self_links: true,
            dangling: true,
            foreign: false,
            inline_internal: true,
            shared_blocks: true,
        }
    }
}

pub fn gen_keys(rng: &mut Rng, n: usize, subdirs: bool) -> Vec<String> {
    let mut keys = vec![];
    // (one directory whose name reads like an address: links into it from above begin with "proj:x/")
    let dirs = ["", "", "", "d1", "d2", "d1/e1", "d11", "", "d1", "d2", "proj:x"];
    for i in 0..n {
        let dir = if subdirs { *rng.pick(&dirs) } else { "" };
        // sometimes the same file name exists in two directories (different notes, different titles)
        let name = if subdirs && i > 0 && rng.chance(1, 6) {
            format!("n{}", rng.range(1, i))
        } else if rng.chance(1, 12) {
            // a note name with a space: links to it need their destination in angle brackets
            format!("n {}", i + 1)
        } else if rng.chance(1, 16) {
            // a word, a colon, a space ("Re: budget", "TODO: x"): looks like an address with a scheme and is the name of a note
            format!("Re: n{}", i + 1)
        } else if rng.chance(1, 24) {
            // a time of day in front (digits, a colon, no space): a scheme begins with a letter, so this is a note too
            format!("10:30-n{}", i + 1)
        } else if rng.chance(1, 24) {
            // a name that reads like an address with a scheme (no space after the colon): linked as "./topic:n5" from its
            // own directory
            format!("topic:n{}", i + 1)
        } else if rng.chance(1, 24) {
            // a name with dots: with refs_extension a block reference to it still gets the extension
            format!("node.v{}.js", i + 1)
        } else {
            format!("n{}", i + 1)
        };
        let key = if dir.is_empty() { name } else { format!("{}/{}", dir, name) };
        if keys.contains(&key) {
            keys.push(format!("{}x{}", key, i + 1));
        } else {
            keys.push(key);
        }
    }
    keys
}

/// targets visible from `from` (a key)
fn targets_for(from: &str, keys: &[String], o: &LibOpts, rng: &mut Rng) -> (Vec<Target>, Vec<Target>) {
    let dir = mdscan::key_dir(from);
    let mut inline_targets = vec![];
    let mut block_targets = vec![];
    for k in keys {
        if k == from && !o.self_links {
            continue;
        }
        let rel = mdscan::relativize(k, &dir);
        let up = rel.starts_with("..");
        if up && !o.updir {
            continue;
        }
        let dest = if o.md_suffix && rng.chance(1, 4) {
            format!("{}.md", rel)
        } else {
            rel.clone()
        };
        block_targets.push(Target {
            dest: dest.clone(),
            external: false,
        });
        // inline links are keyed by their raw url: only root-level sources are clean - and only names that need no "./" in
        // front (an inline "./topic:n5" is keyed "./topic:n5", the same raw-url finding)
        if o.inline_internal && (o.cross_dir_inline || dir.is_empty()) && !dest.starts_with("./") {
            inline_targets.push(Target {
                dest,
                external: false,
            });
        }
    }
    if o.dangling {
        let t = Target {
            dest: format!("missing{}", rng.below(3)),
            external: false,
        };
        block_targets.push(t.clone());
        if o.inline_internal && (o.cross_dir_inline || dir.is_empty()) {
            inline_targets.push(t);
        }
    }
    for e in ["https://example.com/page", "http://example.org/a?b=1", "HTTPS://EXAMPLE.COM/UP"] {
        inline_targets.push(Target {
            dest: e.to_string(),
            external: true,
        });
    }
    if o.foreign {
        // (also addresses with a second colon: a port, a colon in the path, a URN)
        for e in ["zotero://select/items/A1", "file:///home/me/scan.pdf", "/assets/handbook.pdf", "tel:+123", "ftp://host/file", "http://localhost:8080/docs", "https://en.wikipedia.org/wiki/Help:Contents", "urn:isbn:0451450523", "s3://my-bucket/notes/backup", "ed2k://server/share/file", "https://example.com/wiki/My Page", "zotero://select/items/My Item", "https://example.com/items?filter[status]=open", "", "assets/", "..", "./"] {
            inline_targets.push(Target { dest: e.to_string(), external: true });
        }
        if o.inline_internal && (o.cross_dir_inline || dir.is_empty()) {
            for e in ["files/paper.pdf", "#summary", "page?x=1", "other.md#details", "files/data.v2.xlsx"] {
                inline_targets.push(Target { dest: e.to_string(), external: false });
            }
        }
    }
    (inline_targets, block_targets)
}

pub fn gen_lib(rng: &mut Rng, o: &LibOpts) -> Lib {
    let n = rng.range(o.min_notes, o.max_notes);
    let keys = gen_keys(rng, n, o.subdirs);
    gen_lib_with_keys(rng, o, &keys)
}

pub fn gen_lib_with_keys(rng: &mut Rng, o: &LibOpts, keys: &[String]) -> Lib {
    let mut lib = Lib {
        docs: BTreeMap::new(),
        texts: BTreeMap::new(),
        artefacts: 0,
    };
    let mut words = Words::new("");
    // a few blocks that several notes share verbatim (same heading, paragraph and list item text)
    let shared: Vec<gen::Blk> = vec![
        gen::Blk::Heading(2, vec![gen::Inl::W("shared".into()), gen::Inl::W("heading".into())], gen::HStyle::Atx),
        gen::Blk::Para(vec![gen::Inl::W("shared".into()), gen::Inl::W("paragraph".into()), gen::Inl::W("text".into())]),
        gen::Blk::List(false, 1, true, vec![vec![gen::Blk::Para(vec![gen::Inl::W("shared".into()), gen::Inl::W("item".into())])]]),
    ];
    for key in keys {
        let (mut doc, mut text, dropped) = gen_note(rng, o, key, keys, &mut words);
        if o.shared_blocks && rng.chance(1, 4) && !doc.blocks.is_empty() {
            let b = rng.pick(&shared).clone();
            let prev_list = matches!(doc.blocks.last(), Some(gen::Blk::List(..)));
            if !(prev_list && matches!(b, gen::Blk::List(..))) {
                let mut d2 = doc.clone();
                d2.blocks.push(b);
                let t2 = gen::render(&d2, rng.next(), o.crlf);
                if self_check(&d2, &t2) {
                    doc = d2;
                    text = t2;
                }
            }
        }
        lib.artefacts += dropped;
        lib.docs.insert(key.clone(), doc);
        lib.texts.insert(key.clone(), text);
    }
    lib
}

/// generate one note that passes the generator <-> scanner self-check
pub fn gen_note(
    rng: &mut Rng,
    o: &LibOpts,
    key: &str,
    keys: &[String],
    words: &mut Words,
) -> (Doc, String, usize) {
    let mut dropped = 0;
    loop {
        let (inl, blk) = targets_for(key, keys, o, rng);
        let mut p = o.profile.clone();
        p.targets = inl;
        p.block_targets = blk;
        p.own_key = Some(key.to_string());
        let doc = {
            let mut g = Gen {
                rng,
                words,
                p: &p,
            };
            g.doc()
        };
        let text = gen::render(&doc, rng.next(), o.crlf);
        if self_check(&doc, &text) {
            return (doc, text, dropped);
        }
        dropped += 1;
        if dropped > 50 {
            // give up on fancy content: a plain paragraph always passes
            let doc = Doc {
                meta: None,
                blocks: vec![gen::Blk::Para(vec![gen::Inl::W(words.next(rng, false))])],
            };
            let text = gen::render(&doc, 1, o.crlf);
            return (doc, text, dropped);
        }
    }
}

pub fn self_check(doc: &Doc, text: &str) -> bool {
    let scan = mdscan::scan(text);
    gen::expected_canon(doc) == gen::scan_canon(&scan)
}

pub fn self_check_diff(doc: &Doc, text: &str) -> Option<(String, String)> {
    let scan = mdscan::scan(text);
    let e = gen::expected_canon(doc);
    let s = gen::scan_canon(&scan);
    for i in 0..e.len().max(s.len()) {
        let a = e.get(i).cloned().unwrap_or_default();
        let b = s.get(i).cloned().unwrap_or_default();
        if a != b {
            return Some((a, b));
        }
    }
    None
}
