//! Small deterministic PRNG (splitmix64 seeding + xoshiro256**), keyed by VERIF_SEED and case id.

#[derive(Clone, Debug)]
pub struct Rng {
    s: [u64; 4],
}

fn splitmix(x: &mut u64) -> u64 {
    *x = x.wrapping_add(0x9E3779B97F4A7C15);
    let mut z = *x;
    z = (z ^ (z >> 30)).wrapping_mul(0xBF58476D1CE4E5B9);
    z = (z ^ (z >> 27)).wrapping_mul(0x94D049BB133111EB);
    z ^ (z >> 31)
}

impl Rng {
    pub fn new(seed: u64) -> Rng {
        let mut x = seed;
        Rng {
            s: [
                splitmix(&mut x),
                splitmix(&mut x),
                splitmix(&mut x),
                splitmix(&mut x),
            ],
        }
    }

    /// independent stream for (seed, stream tag, case id)
    pub fn for_case(seed: u64, tag: &str, case: u64) -> Rng {
        let mut h: u64 = 0xcbf29ce484222325;
        for b in tag.bytes() {
            h ^= b as u64;
            h = h.wrapping_mul(0x100000001b3);
        }
        Rng::new(seed ^ h.rotate_left(17) ^ case.wrapping_mul(0x9E3779B97F4A7C15))
    }

    pub fn next(&mut self) -> u64 {
        let r = self.s[1].wrapping_mul(5).rotate_left(7).wrapping_mul(9);
        let t = self.s[1] << 17;
        self.s[2] ^= self.s[0];
        self.s[3] ^= self.s[1];
        self.s[1] ^= self.s[2];
        self.s[0] ^= self.s[3];
        self.s[2] ^= t;
        self.s[3] = self.s[3].rotate_left(45);
        r
    }

    /// uniform in 0..n (n > 0)
    pub fn below(&mut self, n: usize) -> usize {
        (self.next() % (n as u64)) as usize
    }

    /// uniform in lo..=hi
    pub fn range(&mut self, lo: usize, hi: usize) -> usize {
        lo + self.below(hi - lo + 1)
    }

    pub fn chance(&mut self, num: u32, den: u32) -> bool {
        (self.next() % den as u64) < num as u64
    }

    pub fn pick<'a, T>(&mut self, xs: &'a [T]) -> &'a T {
        &xs[self.below(xs.len())]
    }

    pub fn shuffle<T>(&mut self, xs: &mut [T]) {
        for i in (1..xs.len()).rev() {
            let j = self.below(i + 1);
            xs.swap(i, j);
        }
    }
}

pub fn fnv(s: &str) -> u64 {
    let mut h: u64 = 0xcbf29ce484222325;
    for b in s.bytes() {
        h ^= b as u64;
        h = h.wrapping_mul(0x100000001b3);
    }
    h
}
