//! Seeded generators: Markdown documents as ASTs rendered with randomised presentation,
//! plus the atoms each AST implies (for the generator <-> scanner self-check).

use crate::rng::Rng;
use std::collections::BTreeSet;

#[derive(Clone, Debug, PartialEq)]
pub enum LStyle {
    Inline,
    /// reference-style `[text][label]` + definition at the end of the document
    RefDef,
    Wiki,
    WikiPiped,
    Auto,
}

#[derive(Clone, Debug, PartialEq)]
pub enum Inl {
    W(String),
    Emph(Vec<Inl>),
    Strong(Vec<Inl>),
    Strike(Vec<Inl>),
    Code(String),
    Link {
        dest: String,
        text: Vec<Inl>,
        title: Option<String>,
        style: LStyle,
    },
    Image {
        dest: String,
        alt: Vec<Inl>,
    },
    Html(String),
    /// soft (false) or hard (true) line break            [hostile: breaks]
    Break(bool),
    /// backslash escape of a markup character             [hostile: escapes]
    Escape(char),
    /// entity, (source, decoded)                           [hostile: escapes]
    Entity(String, String),
}

#[derive(Clone, Debug, PartialEq)]
pub enum HStyle {
    Atx,
    AtxClosed,
    Setext,
}

#[derive(Clone, Debug, PartialEq)]
pub enum Blk {
    Para(Vec<Inl>),
    Heading(u8, Vec<Inl>, HStyle),
    /// info, body lines, fence char ('`', '~', or ' ' for indented), fence length
    Code(String, Vec<String>, char, usize),
    Quote(Vec<Blk>),
    /// ordered, start, tight, items
    List(bool, usize, bool, Vec<Vec<Blk>>),
    Rule(usize),
    /// alignments, header cells, rows
    Table(Vec<char>, Vec<Vec<Inl>>, Vec<Vec<Vec<Inl>>>),
    Html(Vec<String>),
}

#[derive(Clone, Debug, PartialEq)]
pub struct Doc {
    pub meta: Option<Vec<String>>,
    pub blocks: Vec<Blk>,
}

/// a link target the generator may point at
#[derive(Clone, Debug)]
pub struct Target {
    /// destination string as written from the document's directory
    pub dest: String,
    pub external: bool,
}

#[derive(Clone, Debug)]
pub struct Profile {
    pub max_blocks: usize,
    pub max_depth: usize,
    pub targets: Vec<Target>,
    /// targets usable for block references
    pub block_targets: Vec<Target>,
    pub hostile: BTreeSet<&'static str>,
    pub headings: bool,
    pub tables: bool,
    pub lists: bool,
    pub quotes: bool,
    pub code: bool,
    pub html_blocks: bool,
    pub block_refs: bool,
    pub meta: bool,
    pub non_ascii: bool,
    /// first block is a level-1 heading (a note title)
    pub force_title: Option<bool>,
    pub links_in_headings: bool,
    /// section headings (level 2+) may hold a bare wiki link ("## Meeting with [[n2]] today")
    pub wiki_in_section_headings: bool,
    /// titles may begin with a tag in square brackets
    pub bracket_titles: bool,
    /// links to notes whose text is an image
    pub image_links: bool,
    /// section headings may begin with a number and a dot / parenthesis, or a bullet character
    pub numbered_headings: bool,
    /// 0 = lists up to 13 items, 1 = also ~100, 2 = also ~1000
    pub long_lists: u8,
    /// internal links inside table cells (C05 leaves cells undecided)
    pub cell_internal_links: bool,
    pub piped_wiki: bool,
    /// list items whose first block is a code block, quote or table ("- ```")
    pub item_block_first: bool,
    /// key of the note being generated: now and then its title is its own name (a link to it then reads like its url)
    pub own_key: Option<String>,
}

impl Profile {
    pub fn clean(targets: Vec<Target>) -> Profile {
        Profile {
            max_blocks: 12,
            max_depth: 3,
            block_targets: targets.clone(),
            targets,
            hostile: BTreeSet::new(),
            headings: true,
            tables: true,
            lists: true,
            quotes: true,
            code: true,
            html_blocks: true,
            block_refs: true,
            meta: true,
            non_ascii: true,
            force_title: None,
            links_in_headings: false,
            wiki_in_section_headings: false,
            bracket_titles: false,
            image_links: false,
            numbered_headings: false,
            long_lists: 1,
            cell_internal_links: true,
            piped_wiki: true,
            item_block_first: true,
            own_key: None,
        }
    }
    pub fn has(&self, c: &str) -> bool {
        self.hostile.contains(c)
    }
}

fn is_ref_para(b: &Blk) -> bool {
    matches!(b, Blk::Para(v) if v.len() == 1 && matches!(&v[0], Inl::Link { dest, .. } if crate::mdscan::is_internal(dest)))
}

pub struct Words {
    pub n: usize,
    pub prefix: String,
}

const STEMS: &[&str] = &[
    "alpha", "beta", "gamma", "delta", "omega", "kappa", "sigma", "theta", "lambda", "zeta",
];
const STEMS_NA: &[&str] = &["über", "naïve", "日本", "слово", "λόγος", "𝒳yz", "café", "😀x"];

impl Words {
    pub fn new(prefix: &str) -> Words {
        Words {
            n: 0,
            prefix: prefix.to_string(),
        }
    }
    pub fn next(&mut self, rng: &mut Rng, non_ascii: bool) -> String {
        self.n += 1;
        let stem = if non_ascii && rng.chance(1, 6) {
            rng.pick(STEMS_NA)
        } else {
            rng.pick(STEMS)
        };
        format!("{}{}{}", stem, self.prefix, self.n)
    }
}

pub struct Gen<'a> {
    pub rng: &'a mut Rng,
    pub words: &'a mut Words,
    pub p: &'a Profile,
}

impl<'a> Gen<'a> {
    fn word(&mut self) -> Inl {
        Inl::W(self.words.next(self.rng, self.p.non_ascii))
    }

    fn plain_words(&mut self, lo: usize, hi: usize) -> Vec<Inl> {
        let n = self.rng.range(lo, hi);
        (0..n).map(|_| self.word()).collect()
    }

    pub fn link(&mut self, in_table: bool) -> Option<Inl> {
        if self.p.targets.is_empty() {
            return None;
        }
        let pool: Vec<Target> = if in_table && !self.p.cell_internal_links {
            self.p.targets.iter().filter(|t| t.external).cloned().collect()
        } else {
            self.p.targets.clone()
        };
        if pool.is_empty() {
            return None;
        }
        let t = self.rng.pick(&pool).clone();
        let mut text = self.plain_words(1, 2);
        // an internal link whose text is its own url (what a link to an untitled or missing note looks like once written
        // by hand): must stay an ordinary link, not become an autolink
        if !t.external && self.rng.chance(1, 10) {
            text = vec![Inl::W(if self.rng.chance(1, 3) { t.dest.to_uppercase() } else { t.dest.clone() })];
        }
        if t.external && !t.dest.contains(':') && !t.dest.is_empty() && self.rng.chance(1, 3) {
            // a path shown as itself ("[/etc/hosts](/etc/hosts)") stays an ordinary link: only an address with a scheme
            // can go between angle brackets
            return Some(Inl::Link { dest: t.dest.clone(), text: vec![Inl::W(t.dest)], title: None, style: LStyle::Inline });
        }
        if t.external {
            // (an absolute path is no autolink: that takes a scheme)
            // (... and no white space)
            let mut style = if t.dest.contains(':') && !t.dest.contains(' ') && self.rng.chance(1, 4) {
                LStyle::Auto
            } else {
                LStyle::Inline
            };
            // rich link text that spells the url itself (a code span, emphasis): must stay what it is, not collapse into <url>
            if self.rng.chance(1, 10) {
                style = LStyle::Inline;
                text = vec![match self.rng.below(3) {
                    0 => Inl::Code(t.dest.clone()),
                    1 => Inl::Emph(vec![Inl::W(t.dest.clone())]),
                    _ => Inl::Strong(vec![Inl::W(t.dest.clone())]),
                }];
            }
            return Some(Inl::Link {
                dest: t.dest,
                text,
                title: None,
                style,
            });
        }
        let style = match self.rng.below(if in_table { 6 } else { 8 }) {
            0..=3 => LStyle::Inline,
            // wiki links are the only other link form that fits into a table cell (a piped one escapes its "|" there)
            4 if in_table => LStyle::Wiki,
            5 if in_table && self.p.piped_wiki => LStyle::WikiPiped,
            5 if in_table => LStyle::Inline,
            4 => LStyle::RefDef,
            5 => LStyle::Wiki,
            _ if self.p.piped_wiki => LStyle::WikiPiped,
            _ => LStyle::Inline,
        };
        // markup in the link's text with a bracket inside it (escaped in the source, and escaped again when written)
        if matches!(style, LStyle::Inline | LStyle::RefDef) && self.rng.chance(1, 14) {
            let (a, b) = (self.word(), self.word());
            let br = Inl::Escape(if self.rng.chance(1, 2) { ']' } else { '[' });
            text = vec![if self.rng.chance(1, 2) { Inl::Strong(vec![a, br, b]) } else { Inl::Emph(vec![a, br, b]) }];
        }
        // a thumbnail that leads to a note: the link's text is an image (and stays one when titles are refreshed)
        if style == LStyle::Inline && self.p.image_links && self.rng.chance(1, 12) {
            let name = self.words.next(self.rng, false);
            let alt = self.plain_words(1, 2);
            text = vec![Inl::Image { dest: format!("img/{}.png", name), alt }];
        }
        let title = if style == LStyle::Inline && self.rng.chance(1, 8) {
            Some(match self.word() {
                Inl::W(w) => w,
                _ => unreachable!(),
            })
        } else {
            None
        };
        Some(Inl::Link {
            dest: t.dest,
            text,
            title,
            style,
        })
    }

    /// one inline run; `rich` allows links / images / code spans
    pub fn inlines(&mut self, lo: usize, hi: usize, rich: bool, in_table: bool) -> Vec<Inl> {
        let n = self.rng.range(lo, hi);
        let mut out = vec![];
        for i in 0..n {
            let r = self.rng.below(if rich { 24 } else { 12 });
            let item = match r {
                0..=7 => self.word(),
                8 => {
                    if rich && self.rng.chance(1, 3) {
                        match self.link(in_table) {
                            Some(l) => Inl::Emph(vec![l]),
                            None => Inl::Emph(self.plain_words(1, 2)),
                        }
                    } else {
                        Inl::Emph(self.plain_words(1, 2))
                    }
                }
                9 => {
                    if rich && self.rng.chance(1, 3) {
                        match self.link(in_table) {
                            Some(l) => {
                                if self.rng.chance(1, 2) {
                                    Inl::Strong(vec![l])
                                } else {
                                    let a = self.word();
                                    Inl::Strong(vec![a, Inl::Emph(vec![l])])
                                }
                            }
                            None => Inl::Strong(self.plain_words(1, 2)),
                        }
                    } else {
                        Inl::Strong(self.plain_words(1, 2))
                    }
                }
                10 => Inl::Emph(self.plain_words(1, 3)),
                11 => {
                    let a = self.word();
                    let b = Inl::Emph(self.plain_words(1, 1));
                    let c = self.word();
                    Inl::Strong(vec![a, b, c])
                }
                12..=14 => {
                    {
                        let a = self.words.next(self.rng, false);
                        let b = self.words.next(self.rng, false);
                        Inl::Code(match self.rng.below(7) {
                            // a space at both ends is part of the code
                            6 => format!(" {} {} ", a, b),
                            4 => format!("{}`{}", a, b),
                            5 => format!("`{}`", a),
                            0 => a,
                            1 => format!("{} {}", a, b),
                            2 => format!("{}({})", a, b),
                            _ => format!("{} * {}", a, b),
                        })
                    }
                }
                15..=19 => self.link(in_table).unwrap_or_else(|| self.word()),
                20 => {
                    {
                        let alt = self.plain_words(1, 2);
                        let name = self.words.next(self.rng, false);
                        Inl::Image {
                            dest: if self.rng.chance(1, 8) { format!("img/my {}.png", name) } else { format!("img/{}.png", name) },
                            alt,
                        }
                    }
                }
                21 => {
                    if in_table && self.rng.chance(1, 2) {
                        // the usual way to break a line inside a cell
                        out.push(self.word());
                        Inl::Html("<br>".into())
                    } else if !in_table && i > 0 && self.rng.chance(1, 3) {
                        // a comment that spans two lines (inside an item or a quote its second line carries the container's prefix)
                        let a = self.words.next(self.rng, false);
                        let b = self.words.next(self.rng, false);
                        Inl::Html(format!("<!-- {}\n{} -->", a, b))
                    } else {
                        // inline html pair around a word
                        out.push(Inl::Html("<b>".into()));
                        out.push(self.word());
                        Inl::Html("</b>".into())
                    }
                }
                22 if i + 1 < n && i > 0 && !in_table => {
                    Inl::Break(self.rng.chance(1, 3))
                }
                23 if !self.p.has("escapes") && !in_table && self.rng.chance(1, 3) => {
                    // entities that decode to characters without any Markdown meaning are presentation only
                    let (s, d) = *self.rng.pick(&[("&copy;", "©"), ("&amp;", "&"), ("&mdash;", "—"), ("&#233;", "é")]);
                    Inl::Entity(s.to_string(), d.to_string())
                }
                23 if self.p.has("escapes") => {
                    if self.rng.chance(1, 2) {
                        Inl::Escape(*self.rng.pick(&['*', '_', '#', '[', '`', '<', '\\']))
                    } else {
                        let (s, d) = *self.rng.pick(&[("&amp;", "&"), ("&lt;", "<"), ("&#42;", "*")]);
                        Inl::Entity(s.to_string(), d.to_string())
                    }
                }
                _ => self.word(),
            };
            // a break may not end or start a run
            out.push(item);
        }
        if matches!(out.last(), Some(Inl::Break(_))) {
            out.pop();
        }
        if out.is_empty() {
            out.push(self.word());
        }
        // a paragraph consisting of exactly one internal link would be a block reference; the
        // caller decides about those explicitly
        out
    }

    fn is_sole_internal_link(v: &[Inl]) -> bool {
        v.len() == 1 && matches!(&v[0], Inl::Link { dest, .. } if crate::mdscan::is_internal(dest))
    }

    pub fn para(&mut self) -> Blk {
        let mut v = self.inlines(1, 7, true, false);
        if Self::is_sole_internal_link(&v) {
            v.push(self.word());
        }
        Blk::Para(v)
    }

    pub fn block_ref(&mut self) -> Option<Blk> {
        let internal: Vec<Target> = self
            .p
            .block_targets
            .iter()
            .filter(|t| !t.external)
            .cloned()
            .collect();
        if internal.is_empty() {
            return None;
        }
        let t = self.rng.pick(&internal).clone();
        let style = match self.rng.below(6) {
            0..=3 => LStyle::Inline,
            4 => LStyle::Wiki,
            _ if self.p.piped_wiki => LStyle::WikiPiped,
            _ => LStyle::Inline,
        };
        let text = self.plain_words(1, 2);
        Some(Blk::Para(vec![Inl::Link {
            dest: t.dest,
            text,
            title: None,
            style,
        }]))
    }

    pub fn heading(&mut self, level: u8) -> Blk {
        let style = match self.rng.below(5) {
            0 if level <= 2 => HStyle::Setext,
            1 => HStyle::AtxClosed,
            _ => HStyle::Atx,
        };
        let rich = self.p.links_in_headings;
        let mut v = if rich {
            self.inlines(1, 3, true, false)
        } else {
            let n = self.rng.range(1, 3);
            (0..n)
                .map(|_| match self.rng.below(6) {
                    0 => Inl::Emph(self.plain_words(1, 1)),
                    1 => {
                        let w = self.words.next(self.rng, false);
                        Inl::Code(w)
                    }
                    _ => self.word(),
                })
                .collect()
        };
        if !rich {
            v.retain(|i| !matches!(i, Inl::Link { .. } | Inl::Image { .. } | Inl::Break(_)));
        } else {
            v.retain(|i| !matches!(i, Inl::Break(_)));
        }
        if v.is_empty() {
            v.push(self.word());
        }
        // a numbered heading ("## 1. Introduction"), or one that begins with another block marker: as the text of a list item
        // (section-to-list) the marker must stay text
        if self.p.numbered_headings && level >= 2 && self.rng.chance(1, 5) {
            v.insert(0, Inl::W(self.rng.pick(&["1.", "2)", "12.", "-", "+", "1986."]).to_string()));
            // (sometimes the marker is all there is: "## 1.")
            if self.rng.chance(1, 4) {
                v.truncate(1);
            }
        }
        // a heading that ends in " #" (spelled setext: in ATX spelling the run would be the closing sequence)
        if style == HStyle::Setext && self.rng.chance(1, 6) {
            v.push(Inl::W(if self.rng.chance(1, 2) { "#".into() } else { "##".into() }));
        }
        // a title that begins with a tag in brackets ("[WIP] Refactor"): links to the note take it as their text
        if self.p.bracket_titles && level == 1 && self.rng.chance(1, 8) {
            v.insert(0, Inl::W(if self.rng.chance(1, 3) { "[WIP]".into() } else { "[Draft".into() }));
            if self.rng.chance(1, 3) {
                v.push(Inl::W("v2]".into()));
            }
        }
        if !rich && self.p.wiki_in_section_headings && level >= 2 && self.rng.chance(1, 4) {
            let internal: Vec<Target> = self.p.targets.iter().filter(|t| !t.external && crate::mdscan::is_note_like(&t.dest)).cloned().collect();
            if !internal.is_empty() {
                let t = self.rng.pick(&internal).clone();
                v.push(Inl::Link { dest: t.dest, text: vec![], title: None, style: LStyle::Wiki });
                v.push(self.word());
            }
        }
        Blk::Heading(level, v, style)
    }

    pub fn code(&mut self, allow_indented: bool) -> Blk {
        let n = self.rng.range(0, 4);
        let mut body = vec![];
        for i in 0..n {
            let w = self.words.next(self.rng, false);
            let w2 = self.words.next(self.rng, false);
            let l = match self.rng.below(10) {
                // lines that end in, or consist of, spaces are part of the code (fenced blocks only: see below)
                8 => format!("{}  ", w),
                9 if i > 0 && i + 1 < n => "  ".to_string(),
                0 => format!("# {}", w),
                1 => format!("- {} {}", w, w2),
                2 => format!("    {}", w),
                3 if i > 0 && i + 1 < n => String::new(),
                4 => format!("{} = *{}*", w, w2),
                5 => format!("> {}", w),
                6 => format!("| {} | {} |", w, w2),
                _ => format!("{} {}", w, w2),
            };
            body.push(l);
        }
        let indented = allow_indented && !body.is_empty() && self.rng.chance(1, 5);
        if indented {
            for l in body.iter_mut() {
                if l.trim().is_empty() {
                    l.clear();
                } else {
                    *l = l.trim_end().to_string();
                }
            }
            // first and last line must be non-blank and the first may not be further indented
            if body[0].is_empty() || body[0].starts_with(' ') {
                body[0] = self.words.next(self.rng, false);
            }
            if body.last().unwrap().is_empty() {
                let w = self.words.next(self.rng, false);
                *body.last_mut().unwrap() = w;
            }
            return Blk::Code(String::new(), body, ' ', 4);
        }
        // fenced bodies may begin / end with blank lines (trimmed by the writer; must be trimmed completely in one pass)
        if self.rng.chance(1, 8) {
            for _ in 0..self.rng.range(1, 3) {
                body.insert(0, String::new());
            }
        }
        if self.rng.chance(1, 8) {
            for _ in 0..self.rng.range(1, 2) {
                body.push(String::new());
            }
        }
        let mut fence = if self.rng.chance(1, 3) { '~' } else { '`' };
        let mut len = self.rng.range(3, 5);
        // a fence inside the code (documentation about Markdown): the outer fence must be longer or of the other kind
        if !body.is_empty() && self.rng.chance(1, 10) {
            let inner = self.rng.range(3, 4);
            let at = self.rng.below(body.len());
            // ... at the margin or indented by up to three spaces (which would still close a fence of that length)
            let pad = |r: &mut Rng| if r.chance(1, 2) { " ".repeat(r.range(1, 3)) } else { String::new() };
            let (p1, p2) = (pad(self.rng), pad(self.rng));
            body.insert(at, format!("{}{}", p1, "`".repeat(inner)));
            body.push(format!("{}{}", p2, "`".repeat(inner)));
            if self.rng.chance(1, 2) {
                fence = '~';
            } else {
                fence = '`';
                len = inner + self.rng.range(1, 2);
            }
        }
        let info = if self.rng.chance(1, 2) {
            self.rng.pick(&["rust", "sh", "text", "python3", "c++"]).to_string()
        } else {
            String::new()
        };
        Blk::Code(info, body, fence, len)
    }

    pub fn table(&mut self) -> Blk {
        let cols = self.rng.range(1, 4);
        let rows = self.rng.range(0, 3);
        let aligns: Vec<char> = (0..cols)
            .map(|_| *self.rng.pick(&['n', 'l', 'c', 'r']))
            .collect();
        let head: Vec<Vec<Inl>> = (0..cols).map(|_| self.inlines(1, 2, true, true)).collect();
        let mut body: Vec<Vec<Vec<Inl>>> = (0..rows)
            .map(|_| (0..cols).map(|_| self.inlines(1, 2, true, true)).collect())
            .collect();
        // text between angle brackets that is no tag (a key, an arrow): stays text, pass after pass
        if self.rng.chance(1, 8) {
            if let Some(cell) = body.last_mut().and_then(|r| r.last_mut()) {
                cell.push(Inl::W(self.rng.pick(&["<Ctrl+C>", "<=>", "<1ms>"]).to_string()));
            }
        }
        // a cell that ends in a backslash (a Windows path): the backslash must not reach the pipe that closes the cell
        if self.rng.chance(1, 8) {
            if let Some(cell) = body.first_mut().and_then(|r| r.first_mut()) {
                let w = self.words.next(self.rng, false);
                if self.rng.chance(1, 2) {
                    cell.push(Inl::W(format!("C:\\{}\\", w)));
                } else {
                    // ... or in two of them (written escaped): "\\|" never ends a cell, however many backslashes come before it
                    cell.push(Inl::Entity(format!("{}\\\\\\\\", w), format!("{}\\\\", w)));
                }
            }
        }
        Blk::Table(aligns, head, body)
    }

    pub fn html(&mut self) -> Blk {
        let w = self.words.next(self.rng, false);
        match self.rng.below(3) {
            0 => Blk::Html(vec!["<div>".into(), w, "</div>".into()]),
            1 => Blk::Html(vec![format!("<!-- {} -->", w)]),
            _ => Blk::Html(vec![format!("<p class=\"x\">{}</p>", w)]),
        }
    }

    pub fn list(&mut self, depth: usize) -> Blk {
        let ordered = self.rng.chance(1, 3);
        // item counts cross the marker-width boundaries 9->10, 99->100 (and 999->1000 when allowed)
        let n = if depth == 1 && self.p.long_lists > 0 && self.rng.chance(1, 40) {
            if self.p.long_lists > 1 && self.rng.chance(1, 4) {
                self.rng.range(998, 1003)
            } else {
                self.rng.range(98, 104)
            }
        } else if self.rng.chance(1, 12) {
            self.rng.range(10, 13)
        } else {
            self.rng.range(1, 4)
        };
        let long = n > 50;
        let mut tight = self.rng.chance(2, 3);
        let mut items = vec![];
        for _ in 0..n {
            let mut item = vec![];
            let mut first = self.inlines(1, 4, true, false);
            if first.is_empty() {
                first.push(self.word());
            }
            // a placeholder item ("--" for "none"): with the bullet "-" it would read as a rule
            if !ordered && !long && self.rng.chance(1, 30) {
                first = vec![Inl::W("--".into())];
            }
            let block_first = self.p.item_block_first && !long && depth < self.p.max_depth && self.rng.chance(1, 12);
            if block_first {
                let b = match self.rng.below(4) {
                    // a rule (spelled with underscores: "- ---" and "* ***" would be rules themselves)
                    3 => {
                        tight = false;
                        Blk::Rule(1)
                    }
                    0 if self.p.quotes => self.quote(depth + 1),
                    1 if self.p.tables => {
                        tight = false;
                        self.table()
                    }
                    _ if self.p.code => self.code(false),
                    _ => Blk::Para(first.clone()),
                };
                item.push(b);
            } else {
                item.push(Blk::Para(first));
                // a comment on a line of its own inside the item's text: an html block (dropped) between two runs of text
                if self.p.html_blocks && !long && self.rng.chance(1, 25) {
                    let w = self.words.next(self.rng, false);
                    item.push(Blk::Html(vec![format!("<!-- {} -->", w)]));
                    // (the text after the comment may begin with emphasis or a link)
                    let mut v = self.plain_words(1, 3);
                    match self.rng.below(3) {
                        0 => {
                            let w = self.plain_words(1, 2);
                            v.insert(0, if self.rng.chance(1, 2) { Inl::Strong(w) } else { Inl::Emph(w) });
                        }
                        1 => {
                            // ... or with an image
                            let name = self.words.next(self.rng, false);
                            let alt = self.plain_words(1, 1);
                            v.insert(0, Inl::Image { dest: format!("img/{}.png", name), alt });
                        }
                        _ => {}
                    }
                    item.push(Blk::Para(v));
                }
            }
            // in long lists only the last items carry more than one block (keeps documents small)
            let multi = if long { items.len() + 6 >= n && self.rng.chance(2, 3) } else { self.rng.chance(1, 3) };
            if depth < self.p.max_depth && multi {
                let k = self.rng.range(1, 2);
                for _ in 0..k {
                    let prev_is_list = matches!(item.last(), Some(Blk::List(..)));
                    let b = match self.rng.below(10) {
                        0..=3 if !prev_is_list || self.rng.chance(1, 3) => self.list(depth + 1),
                        4..=5 => self.para(),
                        6 if self.p.code => self.code(false),
                        7 if self.p.quotes && !item.last().map(is_ref_para).unwrap_or(false) => self.quote(depth + 1),
                        // a block reference next to a quote would, once inlined as a quote, sit next to it
                        8 if self.p.block_refs && !matches!(item.last(), Some(Blk::Quote(_))) => match self.block_ref() {
                            Some(b) => b,
                            None => self.para(),
                        },
                        9 => {
                            if self.rng.chance(1, 2) || !self.p.tables {
                                Blk::Rule(self.rng.below(3))
                            } else {
                                self.table()
                            }
                        }
                        _ => self.para(),
                    };
                    if matches!(b, Blk::Para(_) | Blk::Table(..) | Blk::Rule(_)) {
                        // a second paragraph (or a block that needs a blank line) makes the list loose
                        tight = false;
                    }
                    item.push(b);
                }
            }
            items.push(item);
        }
        let start = if ordered && !tight && self.rng.chance(1, 4) {
            self.rng.range(2, 20)
        } else {
            1
        };
        Blk::List(ordered, start, tight, items)
    }

    pub fn quote(&mut self, depth: usize) -> Blk {
        let n = self.rng.range(1, 3);
        let mut blocks: Vec<Blk> = vec![];
        for _ in 0..n {
            let prev_list = matches!(blocks.last(), Some(Blk::List(..)));
            let b = match self.rng.below(10) {
                // headings inside quotes: levels restart there (a well-nested run of 1, 2)
                4 if self.p.headings && self.rng.chance(1, 2) => {
                    let l = if blocks.iter().any(|b| matches!(b, Blk::Heading(..))) { self.rng.range(1, 2) as u8 } else { 1 };
                    let h = self.heading(l);
                    match h {
                        Blk::Heading(l, v, _) => Blk::Heading(l, v, HStyle::Atx),
                        other => other,
                    }
                }
                0..=4 => self.para(),
                5 if self.p.code => self.code(false),
                6 if self.p.lists && depth < self.p.max_depth && (!prev_list || self.rng.chance(1, 3)) => self.list(depth + 1),
                7 if depth < self.p.max_depth => self.quote(depth + 1),
                8 if !blocks.is_empty() => Blk::Rule(self.rng.below(3)),
                9 if self.p.tables && !blocks.is_empty() => self.table(),
                _ => self.para(),
            };
            // a quote directly inside a quote would merge with it: keep a paragraph first
            if matches!(b, Blk::Quote(_)) && blocks.is_empty() {
                blocks.push(self.para());
            }
            if matches!(b, Blk::Quote(_)) && matches!(blocks.last(), Some(Blk::Quote(_))) {
                continue;
            }
            blocks.push(b);
        }
        Blk::Quote(blocks)
    }

    /// a whole document with a well-formed but arbitrary heading-level sequence
    pub fn doc(&mut self) -> Doc {
        let n = self.rng.range(1, self.p.max_blocks);
        let mut blocks: Vec<Blk> = vec![];
        // now and then an existing note without any block (empty file, or front matter only)
        if self.p.force_title.is_none() && self.rng.chance(1, 30) {
            let meta = if self.p.meta && self.rng.chance(1, 2) {
                Some(vec![format!("title: {}", self.words.next(self.rng, false))])
            } else {
                None
            };
            return Doc { meta, blocks };
        }
        let title = self.p.force_title.unwrap_or_else(|| self.rng.chance(3, 4));
        if title && self.p.headings {
            match self.p.own_key.clone() {
                Some(k) if self.rng.chance(1, 12) => {
                    let base = k.rsplit('/').next().unwrap_or(&k).to_string();
                    let t = if self.rng.chance(1, 2) { base.to_uppercase() } else { base };
                    blocks.push(Blk::Heading(1, vec![Inl::W(t)], HStyle::Atx));
                }
                _ => blocks.push(self.heading(1)),
            }
        }
        while blocks.len() < n {
            let prev_list = matches!(blocks.last(), Some(Blk::List(..)));
            let prev_quote = matches!(blocks.last(), Some(Blk::Quote(..)));
            let prev_html = matches!(blocks.last(), Some(Blk::Html(..)));
            let r = self.rng.below(20);
            let b = match r {
                0..=5 => self.para(),
                6..=8 if self.p.headings => {
                    let l = self.rng.range(1, 6) as u8;
                    self.heading(l)
                }
                9..=10 if self.p.lists && (!prev_list || self.rng.chance(1, 3)) && !prev_html => self.list(1),
                11 if self.p.quotes && !prev_quote => self.quote(1),
                12..=13 if self.p.code => {
                    let prev_ind = matches!(blocks.last(), Some(Blk::Code(_, _, ' ', _)));
                    self.code(!prev_list && !prev_ind)
                }
                14 if self.p.tables => self.table(),
                15 if !blocks.is_empty() => Blk::Rule(self.rng.below(4)),
                16 if self.p.html_blocks && !prev_list => self.html(),
                17..=18 if self.p.block_refs => match self.block_ref() {
                    Some(b) => b,
                    None => self.para(),
                },
                // an empty quote (a bare ">") between two lists: it is written as nothing, and the lists must stay two
                19 if self.p.lists && self.p.quotes && prev_list => {
                    blocks.push(Blk::Quote(vec![]));
                    self.list(1)
                }
                _ => self.para(),
            };
            blocks.push(b);
        }
        let meta = if self.p.meta && self.rng.chance(1, 6) {
            let a = self.words.next(self.rng, false);
            let b = self.words.next(self.rng, false);
            Some(vec![format!("title: {}", a), format!("tags: [{}]", b)])
        } else {
            None
        };
        Doc { meta, blocks }
    }
}

// ------------------------------------------------------------------ rendering

pub struct Style {
    pub crlf: bool,
    pub rng: Rng,
    /// marker (bullet char or number delimiter) of the list rendered last, and the one the next list must not use
    /// (a list that directly follows a list of the same kind needs another marker to be a list of its own)
    pub last_marker: Option<char>,
    pub avoid: Option<char>,
    /// rendering the inlines of a table cell (a piped wiki link escapes its pipe there)
    pub in_cell: bool,
}

fn render_inlines(v: &[Inl], st: &mut Style, defs: &mut Vec<(String, String)>) -> String {
    let mut out = String::new();
    let mut need_space = false;
    for i in v {
        // breaks and closing html attach without an extra space
        let glue = matches!(i, Inl::Break(_));
        if need_space && !glue {
            out.push(' ');
        }
        need_space = true;
        match i {
            Inl::W(w) => out.push_str(w),
            Inl::Emph(x) => {
                let c = if st.rng.chance(1, 2) { '*' } else { '_' };
                out.push(c);
                out.push_str(&render_inlines(x, st, defs));
                out.push(c);
            }
            Inl::Strong(x) => {
                let c = if st.rng.chance(1, 2) { "**" } else { "__" };
                let inner = render_inlines(x, st, defs);
                // `__a _b_ c__` is fine, but keep the inner emphasis on the other character
                let inner = if c == "__" {
                    inner.replace('_', "*")
                } else {
                    inner.replace('*', "_")
                };
                out.push_str(c);
                out.push_str(&inner);
                out.push_str(c);
            }
            Inl::Strike(x) => {
                out.push_str("~~");
                out.push_str(&render_inlines(x, st, defs));
                out.push_str("~~");
            }
            Inl::Code(c) => {
                // delimiter longer than any backtick run inside; padded when the code starts or ends with a backtick
                let longest = c.split(|ch| ch != '`').map(|r| r.len()).max().unwrap_or(0);
                let d = "`".repeat(longest + 1 + if longest > 0 && st.rng.chance(1, 3) { 1 } else { 0 });
                let pad = c.starts_with('`') || c.ends_with('`') || (c.starts_with(' ') && c.ends_with(' ') && !c.trim().is_empty());
                out.push_str(&d);
                if pad {
                    out.push(' ');
                }
                out.push_str(c);
                if pad {
                    out.push(' ');
                }
                out.push_str(&d);
            }
            Inl::Link {
                dest,
                text,
                title,
                style,
            } => {
                let t = render_inlines(text, st, defs);
                match style {
                    LStyle::Inline => {
                        // a destination that holds a space (a note called "n 3") is only a destination in angle brackets
                        let d = if dest.contains(' ') { format!("<{}>", dest) } else { dest.clone() };
                        match title {
                            Some(ti) => out.push_str(&format!("[{}]({} \"{}\")", t, d, ti)),
                            None => out.push_str(&format!("[{}]({})", t, d)),
                        }
                    }
                    LStyle::RefDef => {
                        let label = format!("ref{}", defs.len() + 1);
                        out.push_str(&format!("[{}][{}]", t, label));
                        defs.push((label, dest.clone()));
                    }
                    LStyle::Wiki => out.push_str(&format!("[[{}]]", dest)),
                    LStyle::WikiPiped if st.in_cell => out.push_str(&format!("[[{}\\|{}]]", dest, t)),
                    LStyle::WikiPiped => out.push_str(&format!("[[{}|{}]]", dest, t)),
                    LStyle::Auto => out.push_str(&format!("<{}>", dest)),
                }
            }
            Inl::Image { dest, alt } => {
                out.push_str(&format!("![{}]({})", render_inlines(alt, st, defs), if dest.contains(' ') { format!("<{}>", dest) } else { dest.clone() }));
            }
            Inl::Html(h) => out.push_str(h),
            Inl::Break(hard) => {
                if *hard {
                    out.push_str(if st.rng.chance(1, 2) { "  \n" } else { "\\\n" });
                } else {
                    out.push('\n');
                }
                need_space = false;
            }
            Inl::Escape(c) => {
                out.push('\\');
                out.push(*c);
            }
            Inl::Entity(s, _) => out.push_str(s),
        }
    }
    out
}

fn blank(st: &mut Style) -> Vec<String> {
    if st.rng.chance(1, 6) {
        vec![String::new(), String::new()]
    } else {
        vec![String::new()]
    }
}

fn render_blocks(blocks: &[Blk], st: &mut Style, defs: &mut Vec<(String, String)>, top: bool) -> Vec<String> {
    let mut lines: Vec<String> = vec![];
    for (i, b) in blocks.iter().enumerate() {
        if i > 0 {
            lines.extend(blank(st));
            if let (Blk::List(o1, ..), Blk::List(o2, ..)) = (&blocks[i - 1], b) {
                if o1 == o2 {
                    st.avoid = st.last_marker;
                }
            }
        }
        lines.extend(render_block(b, st, defs, top && i == 0));
    }
    lines
}

fn render_block(b: &Blk, st: &mut Style, defs: &mut Vec<(String, String)>, _first_top: bool) -> Vec<String> {
    match b {
        Blk::Para(v) => {
            let mut t = render_inlines(v, st, defs);
            if st.rng.chance(1, 10) && !t.ends_with('\\') {
                // one trailing space is presentation only
                t.push(' ');
            }
            t.split('\n').map(|s| s.to_string()).collect()
        }
        Blk::Heading(level, v, style) => {
            let t = render_inlines(v, st, defs);
            match style {
                HStyle::Atx => vec![format!("{} {}", "#".repeat(*level as usize), t)],
                HStyle::AtxClosed => vec![format!(
                    "{} {} {}",
                    "#".repeat(*level as usize),
                    t,
                    "#".repeat(st.rng.range(1, 7))
                )],
                HStyle::Setext => vec![
                    t,
                    (if *level == 1 { "=" } else { "-" }).repeat(st.rng.range(3, 8)),
                ],
            }
        }
        Blk::Code(info, body, fence, len) => {
            if *fence == ' ' {
                body.iter()
                    .map(|l| {
                        if l.is_empty() {
                            String::new()
                        } else {
                            format!("    {}", l)
                        }
                    })
                    .collect()
            } else {
                let f = fence.to_string().repeat(*len);
                let mut v = vec![if info.is_empty() {
                    f.clone()
                } else if st.rng.chance(1, 2) {
                    format!("{}{}", f, info)
                } else {
                    format!("{} {}", f, info)
                }];
                v.extend(body.iter().cloned());
                v.push(f);
                v
            }
        }
        Blk::Quote(blocks) if blocks.is_empty() => vec![">".to_string()],
        Blk::Quote(blocks) => render_blocks(blocks, st, defs, false)
            .into_iter()
            .map(|l| {
                if l.is_empty() {
                    ">".to_string()
                } else {
                    format!("> {}", l)
                }
            })
            .collect(),
        Blk::List(ordered, start, tight, items) => {
            let avoid = st.avoid.take();
            let bullets: Vec<char> = ['-', '*', '+'].into_iter().filter(|c| Some(*c) != avoid).collect();
            let delims: Vec<char> = ['.', ')'].into_iter().filter(|c| Some(*c) != avoid).collect();
            let marker_char = *st.rng.pick(&bullets);
            let ord_char = *st.rng.pick(&delims);
            let mut lines = vec![];
            for (n, item) in items.iter().enumerate() {
                if n > 0 && !*tight {
                    lines.push(String::new());
                }
                let marker = if *ordered {
                    format!("{}{}", start + n, ord_char)
                } else {
                    marker_char.to_string()
                };
                let extra = if st.rng.chance(1, 5) { 2 } else { 1 };
                let indent = marker.len() + extra;
                let mut inner: Vec<String> = vec![];
                for (k, b) in item.iter().enumerate() {
                    if k > 0 {
                        // (a comment line interrupts the item's text without a blank line, and text follows it directly)
                        let is_comment = |x: &Blk| matches!(x, Blk::Html(l) if l.len() == 1 && l[0].starts_with("<!--"));
                        let comment_run = is_comment(b) && matches!(item[k - 1], Blk::Para(_)) || is_comment(&item[k - 1]) && matches!(b, Blk::Para(_));
                        let needs_blank = (!*tight && !comment_run)
                            || !(matches!(b, Blk::List(..) | Blk::Code(..) | Blk::Quote(..)) || comment_run)
                            || matches!(b, Blk::List(true, start, _, _) if *start != 1)
                            || (matches!(b, Blk::Quote(..)) && matches!(item[k - 1], Blk::Quote(..)));
                        if needs_blank {
                            inner.push(String::new());
                        }
                    }
                    if k > 0 {
                        if let (Blk::List(o1, ..), Blk::List(o2, ..)) = (&item[k - 1], b) {
                            if o1 == o2 {
                                st.avoid = st.last_marker;
                            }
                        }
                    }
                    inner.extend(render_block(b, st, defs, false));
                }
                for (k, l) in inner.iter().enumerate() {
                    if k == 0 {
                        lines.push(format!("{}{}{}", marker, " ".repeat(extra), l));
                    } else if l.is_empty() {
                        lines.push(String::new());
                    } else {
                        lines.push(format!("{}{}", " ".repeat(indent), l));
                    }
                }
            }
            st.last_marker = Some(if *ordered { ord_char } else { marker_char });
            lines
        }
        Blk::Rule(style) => vec![match style {
            0 => "***".to_string(),
            1 => "___".to_string(),
            2 => "* * *".to_string(),
            _ => "-".repeat(st.rng.range(3, 9)),
        }],
        Blk::Table(aligns, head, rows) => {
            let mut v = vec![];
            let row = |cells: &Vec<Vec<Inl>>, st: &mut Style, defs: &mut Vec<(String, String)>| {
                st.in_cell = true;
                let c: Vec<String> = cells.iter().map(|c| render_inlines(c, st, defs)).collect();
                st.in_cell = false;
                format!("| {} |", c.join(" | "))
            };
            v.push(row(head, st, defs));
            let d: Vec<String> = aligns
                .iter()
                .map(|a| match a {
                    'l' => ":---".to_string(),
                    'c' => ":---:".to_string(),
                    'r' => "---:".to_string(),
                    _ => "---".to_string(),
                })
                .collect();
            v.push(format!("| {} |", d.join(" | ")));
            for r in rows {
                v.push(row(r, st, defs));
            }
            v
        }
        Blk::Html(lines) => lines.clone(),
    }
}

pub fn render(doc: &Doc, seed: u64, crlf: bool) -> String {
    let mut st = Style {
        crlf,
        rng: Rng::new(seed ^ 0x5151),
        last_marker: None,
        avoid: None,
        in_cell: false,
    };
    let mut defs = vec![];
    let mut lines: Vec<String> = vec![];
    if let Some(m) = &doc.meta {
        lines.push("---".into());
        lines.extend(m.iter().cloned());
        lines.push("---".into());
        if st.rng.chance(1, 2) {
            lines.push(String::new());
        }
    }
    lines.extend(render_blocks(&doc.blocks, &mut st, &mut defs, true));
    if !defs.is_empty() {
        lines.push(String::new());
        for (label, dest) in defs {
            lines.push(format!("[{}]: {}", label, if dest.contains(' ') { format!("<{}>", dest) } else { dest.clone() }));
        }
    }
    let nl = if crlf { "\r\n" } else { "\n" };
    let mut out = String::new();
    for l in &lines {
        out.push_str(l);
        out.push_str(nl);
    }
    out
}

// ------------------------------------------------------------------ atoms implied by the AST

fn plain(v: &[Inl], out: &mut String, links: &mut Vec<String>) {
    let mut first = true;
    for i in v {
        let glue = matches!(i, Inl::Break(_));
        if !first && !glue {
            out.push(' ');
        }
        first = false;
        match i {
            Inl::W(w) => out.push_str(w),
            Inl::Emph(x) | Inl::Strong(x) | Inl::Strike(x) => plain(x, out, links),
            Inl::Code(c) => out.push_str(c),
            Inl::Link {
                dest, text, style, ..
            } => {
                let mut t = String::new();
                plain(text, &mut t, links);
                let (kind, vis) = match style {
                    LStyle::Inline => ("Inline", t),
                    LStyle::RefDef => ("Reference", t),
                    LStyle::Wiki => ("Wiki", dest.clone()),
                    LStyle::WikiPiped => ("WikiPiped", t),
                    LStyle::Auto => ("Autolink", dest.clone()),
                };
                out.push_str(&vis);
                links.push(format!("{}:{}:{}", kind, dest, vis.split_whitespace().collect::<Vec<_>>().join(" ")));
            }
            Inl::Image { dest, alt } => {
                let mut t = String::new();
                plain(alt, &mut t, links);
                out.push_str(&t);
                links.push(format!("Image:{}:{}", dest, t.split_whitespace().collect::<Vec<_>>().join(" ")));
            }
            Inl::Html(h) => out.push_str(h),
            Inl::Break(_) => {
                out.push(' ');
                first = true;
            }
            Inl::Escape(c) => out.push(*c),
            Inl::Entity(_, d) => out.push_str(d),
        }
    }
}

fn canon_line(chain: &str, kind: &str, text: &str, links: &[String]) -> String {
    format!(
        "{}|{}|{}|{}",
        chain,
        kind,
        text.split_whitespace().collect::<Vec<_>>().join(" "),
        links.join(";")
    )
}

fn expected_blocks(blocks: &[Blk], chain: &str, out: &mut Vec<String>) {
    let mut quotes = 0;
    let mut lists = 0;
    let sub = |c: &str, s: String| {
        if c.is_empty() {
            s
        } else {
            format!("{}/{}", c, s)
        }
    };
    for b in blocks {
        match b {
            Blk::Para(v) => {
                let mut t = String::new();
                let mut l = vec![];
                plain(v, &mut t, &mut l);
                out.push(canon_line(chain, "p", &t, &l));
            }
            Blk::Heading(_, v, _) => {
                let mut t = String::new();
                let mut l = vec![];
                plain(v, &mut t, &mut l);
                out.push(canon_line(chain, "h", &t, &l));
            }
            Blk::Code(info, body, _, _) => {
                let t = body.join("\n");
                out.push(format!("{}|code[{}]|{}|", chain, info, t.trim_matches('\n')));
            }
            // (an empty quote carries nothing and does not count as an instance)
            Blk::Quote(inner) if inner.is_empty() => {}
            Blk::Quote(inner) => {
                let c = sub(chain, format!("q{}", quotes));
                quotes += 1;
                expected_blocks(inner, &c, out);
            }
            Blk::List(ordered, _, _, items) => {
                for (i, item) in items.iter().enumerate() {
                    let c = sub(
                        chain,
                        format!("{}{}.{}", if *ordered { "ol" } else { "ul" }, lists, i),
                    );
                    expected_blocks(item, &c, out);
                }
                lists += 1;
            }
            Blk::Rule(_) => out.push(format!("{}|rule||", chain)),
            Blk::Table(aligns, head, rows) => {
                out.push(format!(
                    "{}|table[{}]||",
                    chain,
                    aligns.iter().collect::<String>()
                ));
                for (c, cell) in head.iter().enumerate() {
                    let mut t = String::new();
                    let mut l = vec![];
                    plain(cell, &mut t, &mut l);
                    out.push(canon_line(chain, &format!("cell[0,{}]", c), &t, &l));
                }
                for (r, row) in rows.iter().enumerate() {
                    for (c, cell) in row.iter().enumerate() {
                        let mut t = String::new();
                        let mut l = vec![];
                        plain(cell, &mut t, &mut l);
                        out.push(canon_line(chain, &format!("cell[{},{}]", r + 1, c), &t, &l));
                    }
                }
            }
            Blk::Html(lines) => {
                out.push(format!("{}|html|{}|", chain, lines.join(" ").split_whitespace().collect::<Vec<_>>().join(" ")));
            }
        }
    }
}

/// canonical atom lines implied by the AST
pub fn expected_canon(doc: &Doc) -> Vec<String> {
    let mut out = vec![];
    if let Some(m) = &doc.meta {
        out.push(format!("|meta|{}|", m.join("\n")));
    }
    expected_blocks(&doc.blocks, "", &mut out);
    out
}

/// canonical atom lines of a scan (same format)
pub fn scan_canon(scan: &crate::mdscan::Scan) -> Vec<String> {
    use crate::mdscan::{AKind, LKind};
    let mut out = vec![];
    if let Some(m) = &scan.meta {
        out.push(format!("|meta|{}|", m.trim_end_matches(|c| c == '\n' || c == '\r').replace("\r\n", "\n")));
    }
    for a in &scan.atoms {
        let links: Vec<String> = a
            .links
            .iter()
            .map(|&i| {
                let l = &scan.links[i];
                let k = match l.kind {
                    LKind::Inline => "Inline",
                    LKind::Reference => "Reference",
                    LKind::Autolink => "Autolink",
                    LKind::Email => "Email",
                    LKind::Wiki => "Wiki",
                    LKind::WikiPiped => "WikiPiped",
                    LKind::Image => "Image",
                };
                format!(
                    "{}:{}:{}",
                    k,
                    l.dest,
                    l.text.split_whitespace().collect::<Vec<_>>().join(" ")
                )
            })
            .collect();
        match &a.kind {
            AKind::Code(info) => out.push(format!(
                "{}|code[{}]|{}|",
                a.chain_full(),
                info,
                a.text.replace("\r\n", "\n").trim_matches('\n')
            )),
            AKind::Html => out.push(format!(
                "{}|html|{}|",
                a.chain_full(),
                a.text.split_whitespace().collect::<Vec<_>>().join(" ")
            )),
            k => out.push(canon_line(&a.chain_full(), &k.name(), &a.text, &links)),
        }
    }
    out
}
