//! Verdicts, case reports, the subprocess worker pool, known findings and evidence.

use serde::{Deserialize, Serialize};
use serde_json::{json, Value};
use std::collections::{BTreeMap, BTreeSet, HashSet};
use std::io::{BufRead, BufReader, Write};
use std::process::{Child, Command, Stdio};
use std::sync::atomic::{AtomicU64, Ordering};
use std::sync::{Arc, Mutex};
use std::time::{Duration, Instant};

#[derive(Clone, Copy, PartialEq, Eq, Debug)]
pub enum Tier {
    Quick,
    Thorough,
}

impl Tier {
    pub fn name(&self) -> &'static str {
        match self {
            Tier::Quick => "quick",
            Tier::Thorough => "thorough",
        }
    }
    pub fn parse(s: &str) -> Tier {
        if s == "thorough" {
            Tier::Thorough
        } else {
            Tier::Quick
        }
    }
    pub fn pick<T>(&self, quick: T, thorough: T) -> T {
        match self {
            Tier::Quick => quick,
            Tier::Thorough => thorough,
        }
    }
}

#[derive(Serialize, Deserialize, Clone, Debug, Default)]
pub struct Violation {
    /// which oracle clause failed (fine grained)
    pub clause: String,
    /// where: panic site, construct, pinned reproducer id …
    pub locus: String,
    pub detail: String,
    /// everything needed to re-run just this case
    pub replay: Value,
}

impl Violation {
    pub fn new(clause: &str, locus: &str, detail: String, replay: Value) -> Violation {
        Violation {
            clause: clause.to_string(),
            locus: locus.to_string(),
            detail,
            replay,
        }
    }
    pub fn signature(&self) -> String {
        format!("{}|{}", self.clause, self.locus)
    }
}

#[derive(Serialize, Deserialize, Clone, Debug, Default)]
pub struct CaseReport {
    pub case: u64,
    pub violations: Vec<Violation>,
    /// hashes of the distinct non-trivial things this case exercised (shapes, interleavings, crash points)
    pub shapes: Vec<u64>,
    pub sample: Option<Value>,
    pub counters: BTreeMap<String, u64>,
    pub inconclusive: Vec<String>,
}

impl CaseReport {
    pub fn new(case: u64) -> CaseReport {
        CaseReport {
            case,
            ..Default::default()
        }
    }
    pub fn count(&mut self, key: &str, n: u64) {
        *self.counters.entry(key.to_string()).or_insert(0) += n;
    }
    pub fn shape(&mut self, h: u64) {
        self.shapes.push(h);
    }
    pub fn violate(&mut self, clause: &str, locus: &str, detail: String, replay: Value) {
        if self.violations.len() < 20 {
            self.violations
                .push(Violation::new(clause, locus, detail, replay));
        }
    }
}

pub struct Plan {
    pub cases: u64,
    pub procs: usize,
    /// wall-clock watchdog per case; firing is *inconclusive*
    pub wall_s: u64,
    /// CPU budget per case (seconds); None = not judged
    pub cpu_s: Option<f64>,
}

pub trait Check: Sync {
    fn id(&self) -> &'static str;
    fn level(&self) -> &'static str {
        "exploration"
    }
    fn rule(&self) -> String;
    fn assumptions(&self) -> Vec<String>;
    fn plan(&self, tier: Tier, seed: u64) -> Plan;
    /// runs in a worker subprocess
    fn run_case(&self, tier: Tier, seed: u64, case: u64) -> CaseReport;
    /// minimum number of useful events (sum of counter `events`) below which the run is broken
    fn min_events(&self, _tier: Tier) -> u64 {
        1
    }
    /// whether a dead worker process is a violation of this property (C03) or only inconclusive
    fn death_is_violation(&self) -> bool {
        false
    }
    /// extra parent-side work (e.g. cross-process comparison); may add violations / counters
    fn finish(&self, _tier: Tier, _seed: u64, _reports: &mut Vec<CaseReport>) {}
}

// ---------------------------------------------------------------- worker side

pub fn worker_main(check: &dyn Check, tier: Tier, seed: u64) {
    install_panic_recorder();
    let stdin = std::io::stdin();
    let stdout = std::io::stdout();
    for line in stdin.lock().lines() {
        let line = match line {
            Ok(l) => l,
            Err(_) => break,
        };
        let case: u64 = match line.trim().parse() {
            Ok(c) => c,
            Err(_) => continue,
        };
        {
            let mut o = stdout.lock();
            let _ = writeln!(o, "BEGIN {}", case);
            let _ = o.flush();
        }
        let t0 = Instant::now();
        WATCHDOG_FIRED.store(false, Ordering::SeqCst);
        let mut report = check.run_case(tier, seed, case);
        if WATCHDOG_FIRED.load(Ordering::SeqCst) {
            // a wall-clock watchdog fired somewhere in this case (loaded machine): nothing it concluded
            // afterwards can be trusted as a verdict — three-valued: inconclusive, never a violation
            let n = report.violations.len();
            report.violations.clear();
            report.inconclusive.push(format!("wall-clock watchdog fired during the case ({} provisional findings dropped)", n));
        }
        let ms = t0.elapsed().as_millis() as u64;
        if ms > 10_000 {
            report.count(&format!("slow_case_ms:{}", case), ms);
        }
        let mut o = stdout.lock();
        let _ = writeln!(o, "RESULT {}", serde_json::to_string(&report).unwrap());
        let _ = o.flush();
    }
}

// ---- panic recording (per thread), message + location; nothing printed

thread_local! {
    static LAST_PANIC: std::cell::RefCell<Option<PanicSite>> = std::cell::RefCell::new(None);
}
static ANY_THREAD_PANICS: Mutex<Vec<PanicSite>> = Mutex::new(Vec::new());
static WATCHDOG_FIRED: std::sync::atomic::AtomicBool = std::sync::atomic::AtomicBool::new(false);

/// called by drivers when a generous wall-clock watchdog fires
pub fn note_watchdog() {
    WATCHDOG_FIRED.store(true, Ordering::SeqCst);
}

#[derive(Clone, Debug, Serialize, Deserialize)]
pub struct PanicSite {
    pub file: String,
    pub line: u32,
    pub message: String,
    pub thread: String,
}

impl PanicSite {
    /// stable signature: file + message prefix with digits and quoted payloads stripped
    pub fn signature(&self) -> String {
        let mut msg: String = self.message.chars().take(60).collect();
        if let Some(i) = msg.find(|c: char| c == ':' || c == '{' || c == ',') {
            msg.truncate(i);
        }
        let msg: String = msg
            .chars()
            .map(|c| if c.is_ascii_digit() { '#' } else { c })
            .collect();
        let file = self
            .file
            .rsplit("crates/")
            .next()
            .unwrap_or(&self.file)
            .to_string();
        format!("{}:{}", file, msg.trim())
    }
}

pub fn install_panic_recorder() {
    std::panic::set_hook(Box::new(|info| {
        let message = if let Some(s) = info.payload().downcast_ref::<&str>() {
            s.to_string()
        } else if let Some(s) = info.payload().downcast_ref::<String>() {
            s.clone()
        } else {
            "<non-string panic>".to_string()
        };
        let (file, line) = info
            .location()
            .map(|l| (l.file().to_string(), l.line()))
            .unwrap_or_default();
        let site = PanicSite {
            file,
            line,
            message,
            thread: std::thread::current()
                .name()
                .unwrap_or("<unnamed>")
                .to_string(),
        };
        if std::env::var("VERIF_PANIC_PRINT").is_ok() {
            eprintln!("PANIC thread={} at {}:{}: {}", site.thread, site.file, site.line, site.message.chars().take(300).collect::<String>());
        }
        LAST_PANIC.with(|p| *p.borrow_mut() = Some(site.clone()));
        if let Ok(mut v) = ANY_THREAD_PANICS.lock() {
            if v.len() < 1000 {
                v.push(site);
            }
        }
    }));
}

/// run `f`, catching a panic on this thread; returns the recorded site on panic
pub fn catch<T>(f: impl FnOnce() -> T) -> Result<T, PanicSite> {
    LAST_PANIC.with(|p| *p.borrow_mut() = None);
    match std::panic::catch_unwind(std::panic::AssertUnwindSafe(f)) {
        Ok(v) => Ok(v),
        Err(_) => Err(LAST_PANIC
            .with(|p| p.borrow_mut().take())
            // a panic on a rayon / worker thread is re-raised here: take the most recent record
            .or_else(|| ANY_THREAD_PANICS.lock().ok().and_then(|v| v.last().cloned()))
            .unwrap_or(PanicSite {
            file: "?".into(),
            line: 0,
            message: "?".into(),
            thread: "?".into(),
        })),
    }
}

/// panics recorded on any thread since the last drain (worker threads of the server)
pub fn drain_thread_panics() -> Vec<PanicSite> {
    std::mem::take(&mut *ANY_THREAD_PANICS.lock().unwrap())
}

pub fn thread_cpu_s() -> f64 {
    let mut ts = libc::timespec {
        tv_sec: 0,
        tv_nsec: 0,
    };
    unsafe {
        libc::clock_gettime(libc::CLOCK_THREAD_CPUTIME_ID, &mut ts);
    }
    ts.tv_sec as f64 + ts.tv_nsec as f64 * 1e-9
}

pub fn process_cpu_s() -> f64 {
    let mut ts = libc::timespec {
        tv_sec: 0,
        tv_nsec: 0,
    };
    unsafe {
        libc::clock_gettime(libc::CLOCK_PROCESS_CPUTIME_ID, &mut ts);
    }
    ts.tv_sec as f64 + ts.tv_nsec as f64 * 1e-9
}

// ---------------------------------------------------------------- parent side

pub fn verif_root() -> std::path::PathBuf {
    std::env::var("VERIF_ROOT")
        .map(std::path::PathBuf::from)
        .unwrap_or_else(|_| std::path::PathBuf::from("/verif"))
}

pub fn tmp_root() -> std::path::PathBuf {
    let p = verif_root().join("harness/target/tmp");
    let _ = std::fs::create_dir_all(&p);
    p
}

static TMP_SEQ: AtomicU64 = AtomicU64::new(0);

/// fresh scratch directory under harness/target/tmp (never /tmp)
pub fn scratch_dir(tag: &str) -> std::path::PathBuf {
    let p = tmp_root().join(format!(
        "{}-{}-{}",
        tag,
        std::process::id(),
        TMP_SEQ.fetch_add(1, Ordering::SeqCst)
    ));
    let _ = std::fs::remove_dir_all(&p);
    std::fs::create_dir_all(&p).unwrap();
    p
}

struct Death {
    case: u64,
    status: String,
    stderr_tail: String,
}

fn proc_cpu_s(pid: u32) -> Option<f64> {
    let s = std::fs::read_to_string(format!("/proc/{}/stat", pid)).ok()?;
    let after = s.rsplit(')').next()?;
    let f: Vec<&str> = after.split_whitespace().collect();
    // after the ")" field: state is f[0]; utime = field 14 overall → index 11 here, stime index 12
    let ut: f64 = f.get(11)?.parse().ok()?;
    let st: f64 = f.get(12)?.parse().ok()?;
    let hz = unsafe { libc::sysconf(libc::_SC_CLK_TCK) } as f64;
    Some((ut + st) / hz)
}

fn spawn_worker(check_id: &str, tier: Tier, seed: u64, errfile: &std::path::Path) -> Child {
    let exe = std::env::current_exe().unwrap();
    let err = std::fs::File::create(errfile).unwrap();
    Command::new(exe)
        .arg("worker")
        .arg(check_id)
        .arg(tier.name())
        .arg(seed.to_string())
        .stdin(Stdio::piped())
        .stdout(Stdio::piped())
        .stderr(Stdio::from(err))
        .env("RUST_BACKTRACE", "0")
        .spawn()
        .expect("spawn worker")
}

fn tail(path: &std::path::Path, n: usize) -> String {
    let s = std::fs::read(path).unwrap_or_default();
    let s = String::from_utf8_lossy(&s);
    let lines: Vec<&str> = s.lines().collect();
    lines[lines.len().saturating_sub(n)..].join("\n")
}

pub struct RunOutcome {
    pub reports: Vec<CaseReport>,
}

/// distribute case ids over worker subprocesses; a dead or overrunning worker costs one case
pub fn run_pool(check: &dyn Check, tier: Tier, seed: u64, plan: &Plan) -> RunOutcome {
    let next = Arc::new(AtomicU64::new(0));
    let reports: Arc<Mutex<Vec<CaseReport>>> = Arc::new(Mutex::new(Vec::new()));
    let procs = plan.procs.max(1).min(plan.cases.max(1) as usize);
    let check_id = check.id();
    let wall = Duration::from_secs(plan.wall_s);
    let cpu_budget = plan.cpu_s;
    let death_violation = check.death_is_violation();
    std::thread::scope(|scope| {
        for w in 0..procs {
            let next = next.clone();
            let reports = reports.clone();
            let total = plan.cases;
            scope.spawn(move || {
                let errfile = tmp_root().join(format!(
                    "worker-{}-{}-{}.err",
                    check_id,
                    std::process::id(),
                    w
                ));
                'respawn: loop {
                    let mut child = spawn_worker(check_id, tier, seed, &errfile);
                    let pid = child.id();
                    let mut stdin = child.stdin.take().unwrap();
                    let stdout = child.stdout.take().unwrap();
                    let (tx, rx) = crossbeam_channel::unbounded::<String>();
                    let reader = std::thread::spawn(move || {
                        for line in BufReader::new(stdout).lines() {
                            match line {
                                Ok(l) => {
                                    if tx.send(l).is_err() {
                                        break;
                                    }
                                }
                                Err(_) => break,
                            }
                        }
                    });
                    loop {
                        let case = next.fetch_add(1, Ordering::SeqCst);
                        if case >= total {
                            drop(stdin);
                            let _ = child.wait();
                            let _ = reader.join();
                            let _ = std::fs::remove_file(&errfile);
                            break 'respawn;
                        }
                        let cpu0 = proc_cpu_s(pid).unwrap_or(0.0);
                        let t0 = Instant::now();
                        if writeln!(stdin, "{}", case).is_err() {
                            // child already dead before taking the case: blame nothing, retry the case
                            next.fetch_sub(0, Ordering::SeqCst);
                        }
                        let _ = stdin.flush();
                        let mut outcome: Option<CaseReport> = None;
                        let mut death: Option<Death> = None;
                        let mut overrun: Option<String> = None;
                        loop {
                            match rx.recv_timeout(Duration::from_millis(500)) {
                                Ok(l) => {
                                    if let Some(rest) = l.strip_prefix("RESULT ") {
                                        match serde_json::from_str::<CaseReport>(rest) {
                                            Ok(r) => outcome = Some(r),
                                            Err(e) => {
                                                let mut r = CaseReport::new(case);
                                                r.inconclusive
                                                    .push(format!("unparsable worker result: {}", e));
                                                outcome = Some(r);
                                            }
                                        }
                                        break;
                                    }
                                }
                                Err(crossbeam_channel::RecvTimeoutError::Timeout) => {
                                    if let Some(budget) = cpu_budget {
                                        let used = proc_cpu_s(pid).unwrap_or(cpu0) - cpu0;
                                        if used > budget {
                                            overrun = Some(format!(
                                                "cpu {:.1}s > budget {:.1}s",
                                                used, budget
                                            ));
                                        }
                                    }
                                    if overrun.is_none() && t0.elapsed() > wall {
                                        overrun = Some(format!(
                                            "wall-clock watchdog {}s (inconclusive)",
                                            wall.as_secs()
                                        ));
                                    }
                                    if overrun.is_some() {
                                        let _ = child.kill();
                                        let _ = child.wait();
                                        break;
                                    }
                                }
                                Err(crossbeam_channel::RecvTimeoutError::Disconnected) => {
                                    let status = child
                                        .wait()
                                        .map(|s| format!("{:?}", s))
                                        .unwrap_or_else(|e| format!("wait failed: {}", e));
                                    death = Some(Death {
                                        case,
                                        status,
                                        stderr_tail: tail(&errfile, 6),
                                    });
                                    break;
                                }
                            }
                        }
                        if let Some(r) = outcome {
                            reports.lock().unwrap().push(r);
                            continue;
                        }
                        let mut r = CaseReport::new(case);
                        if let Some(d) = death {
                            let sig = death_signature(&d.status, &d.stderr_tail);
                            if death_violation {
                                r.violate(
                                    "process-death",
                                    &sig,
                                    format!("worker died on case {}: {} / {}", d.case, d.status, d.stderr_tail),
                                    json!({"case": case}),
                                );
                            } else {
                                r.inconclusive.push(format!("worker died: {} (case {})", sig, case));
                            }
                        } else if let Some(o) = overrun {
                            if o.starts_with("cpu") && death_violation {
                                r.violate("cpu-budget", "overrun", o, json!({"case": case}));
                            } else {
                                r.inconclusive.push(o);
                            }
                        }
                        reports.lock().unwrap().push(r);
                        let _ = reader.join();
                        continue 'respawn;
                    }
                }
            });
        }
    });
    let mut reports = Arc::try_unwrap(reports).unwrap().into_inner().unwrap();
    reports.sort_by_key(|r| r.case);
    RunOutcome { reports }
}

fn death_signature(status: &str, stderr: &str) -> String {
    if stderr.contains("has overflowed its stack") {
        return "stack-overflow".to_string();
    }
    if stderr.contains("memory allocation of") {
        return "alloc-failure".to_string();
    }
    format!("died({})", status)
}

// ---------------------------------------------------------------- known findings

#[derive(Clone, Debug)]
pub struct KnownFinding {
    pub status: String, // open | fixed
    pub property: String,
    pub id: String,
    pub signature: String,
    pub what: String,
}

/// line format:
///   open: property=C02 id=KF-x sig=<clause|locus> <what fails>
///   fixed: property=C02 <commit> id=KF-x sig=<clause|locus> <what failed>
pub fn load_known_findings() -> Vec<KnownFinding> {
    let path = verif_root().join("known-findings.txt");
    let text = std::fs::read_to_string(path).unwrap_or_default();
    let mut out = vec![];
    for line in text.lines() {
        let line = line.trim();
        if line.is_empty() || line.starts_with('#') {
            continue;
        }
        let (status, rest) = match line.split_once(':') {
            Some((s, r)) if s == "open" || s == "fixed" => (s.to_string(), r.trim()),
            _ => continue,
        };
        let mut property = String::new();
        let mut id = String::new();
        let mut signature = String::new();
        let mut what = vec![];
        for tok in rest.split(' ') {
            if let Some(v) = tok.strip_prefix("property=") {
                property = v.to_string();
            } else if let Some(v) = tok.strip_prefix("id=") {
                id = v.to_string();
            } else if let Some(v) = tok.strip_prefix("sig=") {
                signature = v.replace('\u{a0}', " ").replace("%20", " ");
            } else {
                what.push(tok);
            }
        }
        out.push(KnownFinding {
            status,
            property,
            id,
            signature,
            what: what.join(" "),
        });
    }
    out
}

// ---------------------------------------------------------------- driver

pub fn run_check(check: &dyn Check, tier: Tier, seed: u64) -> i32 {
    let t0 = Instant::now();
    let mut plan = check.plan(tier, seed);
    // sanitizer companions run a prefix of the same seeded workload (slower builds)
    if let Some(n) = std::env::var("VERIF_CASES").ok().and_then(|s| s.parse::<u64>().ok()) {
        plan.cases = plan.cases.min(n);
    }
    let outcome = run_pool(check, tier, seed, &plan);
    let mut reports = outcome.reports;
    check.finish(tier, seed, &mut reports);

    let findings = load_known_findings();
    let open: Vec<&KnownFinding> = findings
        .iter()
        .filter(|f| f.status == "open" && f.property == check.id())
        .collect();

    let mut counters: BTreeMap<String, u64> = BTreeMap::new();
    let mut shapes: HashSet<u64> = HashSet::new();
    let mut samples: Vec<Value> = vec![];
    let mut inconclusive: BTreeMap<String, u64> = BTreeMap::new();
    let mut new_violations: Vec<Violation> = vec![];
    let mut known_hits: BTreeMap<String, u64> = BTreeMap::new();
    for r in &reports {
        for (k, v) in &r.counters {
            *counters.entry(k.clone()).or_insert(0) += v;
        }
        for s in &r.shapes {
            shapes.insert(*s);
        }
        if let Some(s) = &r.sample {
            if samples.len() < 6 {
                samples.push(s.clone());
            }
        }
        for i in &r.inconclusive {
            let key: String = i.chars().take(80).collect();
            *inconclusive.entry(key).or_insert(0) += 1;
        }
        for v in &r.violations {
            let sig = v.signature();
            let wild = format!("*|{}", v.locus);
            let wild_locus = format!("{}|*", v.clause);
            if let Some(f) = open.iter().find(|f| f.signature == sig || f.signature == wild || f.signature == wild_locus) {
                *known_hits.entry(f.id.clone()).or_insert(0) += 1;
            } else {
                new_violations.push(v.clone());
            }
        }
    }

    let evaluations = reports.len() as u64;
    let events = counters.get("events").cloned().unwrap_or(0);
    let inconclusive_total: u64 = inconclusive.values().sum();

    // replay files for new violations
    let mut replay_paths = vec![];
    let mut seen: BTreeMap<String, u64> = BTreeMap::new();
    for (i, v) in new_violations.iter().enumerate() {
        let n = seen.entry(v.signature()).or_insert(0);
        *n += 1;
        if *n > 1 || replay_paths.len() >= 40 {
            continue;
        }
        let dir = verif_root().join("replay").join(check.id());
        let _ = std::fs::create_dir_all(&dir);
        let path = dir.join(format!("{}-{}-{}.json", tier.name(), seed, i));
        let body = json!({
            "property": check.id(), "tier": tier.name(), "seed": seed,
            "clause": v.clause, "locus": v.locus, "detail": v.detail, "replay": v.replay,
            "rerun": format!("VERIF_SEED={} scripts/check.sh {} {}", seed, check.id(), tier.name()),
        });
        let _ = std::fs::write(&path, serde_json::to_string_pretty(&body).unwrap());
        replay_paths.push((v.clone(), path));
    }

    for f in &open {
        if let Some(n) = known_hits.get(&f.id) {
            println!(
                "KNOWN-FINDING: property={} {} [{}; sig={}; hits={}]",
                check.id(),
                f.what,
                f.id,
                f.signature,
                n
            );
        }
    }
    for (v, path) in &replay_paths {
        println!(
            "VIOLATION property={} replay={}",
            check.id(),
            path.display()
        );
        println!(
            "  clause={} locus={} detail={}",
            v.clause,
            v.locus,
            v.detail.chars().take(400).collect::<String>()
        );
    }

    for (sig, n) in &seen {
        println!("  new-signature x{}: {}", n, sig);
    }

    let capped = std::env::var("VERIF_CASES").is_ok();
    let broken = (!capped && events < check.min_events(tier))
        || (evaluations > 0 && inconclusive_total * 2 > evaluations);

    let evidence = json!({
        "property_id": check.id(),
        "tier": tier.name(),
        "seed": seed,
        "level": check.level(),
        "coverage": {
            "evaluations": evaluations,
            "distinct_nontrivial": shapes.len(),
            "rule": check.rule(),
            "samples": samples,
            "events_observed": events,
            "counters": counters,
            "inconclusive": inconclusive,
            "known_findings_hit": known_hits,
            "new_violations": new_violations.len(),
            "build_profile": if cfg!(debug_assertions) { "debug" } else { "release" },
            "worker_processes": plan.procs,
        },
        "assumptions": check.assumptions(),
        "wall_s": t0.elapsed().as_secs_f64(),
        "violations": new_violations.len(),
    });
    let evdir = verif_root().join("evidence");
    let _ = std::fs::create_dir_all(&evdir);
    let evpath = evdir.join(format!("{}.json", check.id()));
    std::fs::write(&evpath, serde_json::to_string_pretty(&evidence).unwrap()).unwrap();

    println!(
        "{} {} seed={} cases={} events={} distinct={} known-hit={} inconclusive={} new-violations={} wall={:.1}s",
        check.id(),
        tier.name(),
        seed,
        evaluations,
        events,
        shapes.len(),
        known_hits.values().sum::<u64>(),
        inconclusive_total,
        new_violations.len(),
        t0.elapsed().as_secs_f64()
    );
    for (k, v) in &inconclusive {
        println!("  inconclusive x{}: {}", v, k);
    }
    if !new_violations.is_empty() {
        return 1;
    }
    if broken {
        println!(
            "BROKEN-CHECK property={} too few events ({}) or too many inconclusive cases ({}/{})",
            check.id(),
            events,
            inconclusive_total,
            evaluations
        );
        return 2;
    }
    0
}
