//! Independent Markdown scanner: a fold over pulldown-cmark's offset iterator with the same
//! three extensions iwe enables. Never calls liwe. Yields content atoms, link occurrences,
//! the outline and a byte -> (line, UTF-16 column) map.

use pulldown_cmark::{CodeBlockKind, Event, LinkType, Options, Parser, Tag, TagEnd};
use std::ops::Range;

#[derive(Clone, Debug, PartialEq, Eq, Hash)]
pub enum Cont {
    /// k-th quote among the quotes of its parent
    Quote(usize),
    /// (ordered, k-th list among the lists of its parent, item index)
    Item(bool, usize, usize),
}

impl Cont {
    pub fn kind(&self) -> &'static str {
        match self {
            Cont::Quote(_) => "q",
            Cont::Item(true, _, _) => "ol",
            Cont::Item(false, _, _) => "ul",
        }
    }
}

#[derive(Clone, Debug, PartialEq, Eq, Hash)]
pub enum AKind {
    Para,
    Heading(u8),
    Code(String),
    Table(String),
    Cell(usize, usize),
    Rule,
    Html,
}

impl AKind {
    pub fn name(&self) -> String {
        match self {
            AKind::Para => "p".into(),
            AKind::Heading(_) => "h".into(),
            AKind::Code(i) => format!("code[{}]", i),
            AKind::Table(a) => format!("table[{}]", a),
            AKind::Cell(r, c) => format!("cell[{},{}]", r, c),
            AKind::Rule => "rule".into(),
            AKind::Html => "html".into(),
        }
    }
}

#[derive(Clone, Debug, PartialEq, Eq)]
pub enum LKind {
    Inline,
    Reference,
    Autolink,
    Email,
    Wiki,
    WikiPiped,
    Image,
}

#[derive(Clone, Debug)]
pub struct LinkOcc {
    pub kind: LKind,
    pub dest: String,
    pub title: String,
    /// plain visible text
    pub text: String,
    pub range: Range<usize>,
    pub atom: usize,
    /// sole inline of a paragraph that is not the first block of a list item, internal destination
    pub block_ref: bool,
    /// nested inside another link's / image's text
    pub nested: bool,
    /// a top-level inline of its block (not inside emphasis etc.)
    pub top: bool,
    /// char span of the visible text inside the atom's `text`
    pub span: (usize, usize),
    /// the link's text shows an image (a thumbnail that leads somewhere)
    pub holds_image: bool,
}

#[derive(Clone, Debug)]
pub struct Atom {
    pub chain: Vec<Cont>,
    pub kind: AKind,
    /// visible text: Text / Code / InlineHtml concatenated, breaks as one space (code blocks: verbatim body)
    pub text: String,
    pub links: Vec<usize>,
    pub range: Range<usize>,
    pub line: usize,
    /// index (into `atoms`) of the heading atom this atom sits under, innermost scope first
    pub heading: Option<usize>,
    /// first block of a list item
    pub first_in_item: bool,
    /// number of inline children at top level of the block (links count as one)
    pub top_inlines: usize,
    pub soft_breaks: usize,
    pub hard_breaks: usize,
}

impl Atom {
    pub fn words(&self) -> Vec<&str> {
        self.text.split_whitespace().collect()
    }
    pub fn chain_kinds(&self) -> String {
        self.chain
            .iter()
            .map(|c| c.kind())
            .collect::<Vec<_>>()
            .join("/")
    }
    pub fn chain_full(&self) -> String {
        self.chain
            .iter()
            .map(|c| match c {
                Cont::Quote(k) => format!("q{}", k),
                Cont::Item(o, k, i) => format!("{}{}.{}", if *o { "ol" } else { "ul" }, k, i),
            })
            .collect::<Vec<_>>()
            .join("/")
    }
}

#[derive(Clone, Debug, Default)]
pub struct Scan {
    pub atoms: Vec<Atom>,
    pub links: Vec<LinkOcc>,
    pub meta: Option<String>,
    pub line_starts: Vec<usize>,
    pub src_len: usize,
}

pub fn options() -> Options {
    Options::ENABLE_YAML_STYLE_METADATA_BLOCKS | Options::ENABLE_WIKILINKS | Options::ENABLE_TABLES
}

struct Open {
    atom: Atom,
    implicit: bool,
}

struct Frame {
    cont: Option<Cont>, // None for a list frame (between List start and its items)
    list: Option<(bool, usize)>,
    item_count: usize,
    quotes: usize,
    lists: usize,
    heading: Option<usize>,
    blocks_in_item: usize,
    /// number of atoms recorded when the frame was opened: a quote or list that ends without having added any carries
    /// nothing and does not count as an instance
    atoms_at_start: usize,
}

pub fn line_starts(src: &str) -> Vec<usize> {
    let mut v = vec![0];
    for (i, b) in src.bytes().enumerate() {
        if b == b'\n' {
            v.push(i + 1);
        }
    }
    v
}

impl Scan {
    pub fn line_of(&self, byte: usize) -> usize {
        match self.line_starts.binary_search(&byte) {
            Ok(i) => i,
            Err(i) => i - 1,
        }
    }
}

/// byte offset -> (line, UTF-16 column) as the LSP specifies
pub fn position(src: &str, starts: &[usize], byte: usize) -> (usize, usize) {
    let line = match starts.binary_search(&byte) {
        Ok(i) => i,
        Err(i) => i - 1,
    };
    let col = src
        .get(starts[line]..byte)
        .map(|t| t.encode_utf16().count())
        .unwrap_or(0);
    (line, col)
}

pub fn scan(src: &str) -> Scan {
    let mut out = Scan {
        line_starts: line_starts(src),
        src_len: src.len(),
        ..Default::default()
    };
    let mut frames: Vec<Frame> = vec![Frame {
        cont: None,
        list: None,
        item_count: 0,
        quotes: 0,
        lists: 0,
        heading: None,
        blocks_in_item: 0,
        atoms_at_start: 0,
    }];
    let mut open: Option<Open> = None;
    // stack of open link/image indices
    let mut link_stack: Vec<usize> = vec![];
    let mut in_meta = false;
    let mut in_html = false;
    let mut table: Option<(usize, usize, bool)> = None; // (row, col, in_head)
    let mut inline_depth = 0usize;

    fn chain_of(frames: &[Frame]) -> Vec<Cont> {
        frames.iter().filter_map(|f| f.cont.clone()).collect()
    }
    fn heading_of(frames: &[Frame]) -> Option<usize> {
        frames.iter().rev().find_map(|f| f.heading)
    }
    fn in_item(frames: &[Frame]) -> bool {
        matches!(frames.last().and_then(|f| f.cont.as_ref()), Some(Cont::Item(..)))
    }

    macro_rules! new_atom {
        ($kind:expr, $range:expr) => {{
            let first = in_item(&frames) && frames.last().unwrap().blocks_in_item == 0;
            frames.last_mut().unwrap().blocks_in_item += 1;
            Atom {
                chain: chain_of(&frames),
                kind: $kind,
                text: String::new(),
                links: vec![],
                range: $range.clone(),
                line: out.line_of($range.start),
                heading: heading_of(&frames),
                first_in_item: first,
                top_inlines: 0,
                soft_breaks: 0,
                hard_breaks: 0,
            }
        }};
    }
    macro_rules! close {
        () => {{
            if let Some(o) = open.take() {
                let idx = out.atoms.len();
                let mut atom = o.atom;
                for l in atom.links.iter() {
                    out.links[*l].atom = idx;
                }
                // block reference: sole top-level inline, a link, internal, para, not first in item
                if atom.kind == AKind::Para && atom.top_inlines == 1 && !atom.first_in_item {
                    if let Some(&l0) = atom.links.first() {
                        let l = &mut out.links[l0];
                        if !l.nested && l.top && l.kind != LKind::Image && is_internal(&l.dest) {
                            // the link must cover the whole paragraph content
                            l.block_ref = true;
                        }
                    }
                }
                if let AKind::Heading(_) = atom.kind {
                    frames.last_mut().unwrap().heading = Some(idx);
                    atom.heading = Some(idx);
                }
                out.atoms.push(atom);
            }
        }};
    }
    macro_rules! ensure_inline_block {
        ($range:expr) => {{
            if open.is_none() {
                // text directly inside a (tight) list item or a quote: implicit paragraph
                let a = new_atom!(AKind::Para, $range);
                open = Some(Open {
                    atom: a,
                    implicit: true,
                });
            }
        }};
    }

    // the parser itself panics on rare inputs (its wiki-link handling on "![[a]|b](c)]]"): collect the events first, fall back
    // to parsing without wiki links, then to nothing (the scanner must never take a worker down)
    let events: Vec<(Event<'_>, Range<usize>)> = std::panic::catch_unwind(|| Parser::new_ext(src, options()).into_offset_iter().collect::<Vec<_>>())
        .or_else(|_| std::panic::catch_unwind(|| Parser::new_ext(src, Options::ENABLE_YAML_STYLE_METADATA_BLOCKS | Options::ENABLE_TABLES).into_offset_iter().collect::<Vec<_>>()))
        .unwrap_or_default();
    for (ev, range) in events {
        if in_meta {
            match ev {
                // the block may arrive in several text events (one per line with CRLF line endings)
                Event::Text(t) => out.meta = Some(format!("{}{}", out.meta.clone().unwrap_or_default(), t)),
                Event::End(TagEnd::MetadataBlock(_)) => in_meta = false,
                _ => {}
            }
            continue;
        }
        match ev {
            Event::Start(tag) => match tag {
                Tag::MetadataBlock(_) => in_meta = true,
                Tag::Paragraph => {
                    close!();
                    let a = new_atom!(AKind::Para, range);
                    open = Some(Open {
                        atom: a,
                        implicit: false,
                    });
                }
                Tag::Heading { level, .. } => {
                    close!();
                    let a = new_atom!(AKind::Heading(level as u8), range);
                    open = Some(Open {
                        atom: a,
                        implicit: false,
                    });
                }
                Tag::CodeBlock(kind) => {
                    close!();
                    let info = match kind {
                        CodeBlockKind::Fenced(i) => i.trim().to_string(),
                        CodeBlockKind::Indented => String::new(),
                    };
                    let a = new_atom!(AKind::Code(info), range);
                    open = Some(Open {
                        atom: a,
                        implicit: false,
                    });
                }
                Tag::HtmlBlock => {
                    close!();
                    let a = new_atom!(AKind::Html, range);
                    open = Some(Open {
                        atom: a,
                        implicit: false,
                    });
                    in_html = true;
                }
                Tag::BlockQuote(_) => {
                    close!();
                    frames.last_mut().unwrap().blocks_in_item += 1;
                    let k = frames.last().unwrap().quotes;
                    frames.last_mut().unwrap().quotes += 1;
                    frames.push(Frame {
                        cont: Some(Cont::Quote(k)),
                        list: None,
                        item_count: 0,
                        quotes: 0,
                        lists: 0,
                        heading: None,
                        blocks_in_item: 0,
                        atoms_at_start: out.atoms.len(),
                    });
                }
                Tag::List(start) => {
                    close!();
                    frames.last_mut().unwrap().blocks_in_item += 1;
                    let k = frames.last().unwrap().lists;
                    frames.last_mut().unwrap().lists += 1;
                    frames.push(Frame {
                        cont: None,
                        list: Some((start.is_some(), k)),
                        item_count: 0,
                        quotes: 0,
                        lists: 0,
                        heading: None,
                        blocks_in_item: 0,
                        atoms_at_start: out.atoms.len(),
                    });
                }
                Tag::Item => {
                    close!();
                    let (ordered, k) = frames.last().unwrap().list.unwrap_or((false, 0));
                    let i = frames.last().unwrap().item_count;
                    frames.last_mut().unwrap().item_count += 1;
                    frames.push(Frame {
                        cont: Some(Cont::Item(ordered, k, i)),
                        list: None,
                        item_count: 0,
                        quotes: 0,
                        lists: 0,
                        heading: None,
                        blocks_in_item: 0,
                        atoms_at_start: out.atoms.len(),
                    });
                }
                Tag::Table(aligns) => {
                    close!();
                    let a: String = aligns
                        .iter()
                        .map(|a| match a {
                            pulldown_cmark::Alignment::None => 'n',
                            pulldown_cmark::Alignment::Left => 'l',
                            pulldown_cmark::Alignment::Center => 'c',
                            pulldown_cmark::Alignment::Right => 'r',
                        })
                        .collect();
                    let atom = new_atom!(AKind::Table(a), range);
                    out.atoms.push(atom);
                    table = Some((0, 0, false));
                }
                Tag::TableHead => {
                    if let Some(t) = table.as_mut() {
                        t.2 = true;
                        t.1 = 0;
                    }
                }
                Tag::TableRow => {
                    if let Some(t) = table.as_mut() {
                        t.0 += 1;
                        t.1 = 0;
                        t.2 = false;
                    }
                }
                Tag::TableCell => {
                    close!();
                    let (r, c, _) = table.unwrap_or((0, 0, false));
                    let mut a = new_atom!(AKind::Cell(r, c), range);
                    a.first_in_item = false;
                    open = Some(Open {
                        atom: a,
                        implicit: false,
                    });
                }
                Tag::Emphasis | Tag::Strong | Tag::Strikethrough | Tag::Superscript | Tag::Subscript => {
                    ensure_inline_block!(range);
                    if inline_depth == 0 {
                        open.as_mut().unwrap().atom.top_inlines += 1;
                    }
                    inline_depth += 1;
                }
                Tag::Link {
                    link_type,
                    dest_url,
                    title,
                    ..
                } => {
                    ensure_inline_block!(range);
                    if inline_depth == 0 {
                        open.as_mut().unwrap().atom.top_inlines += 1;
                    }
                    inline_depth += 1;
                    let kind = match link_type {
                        LinkType::Inline => LKind::Inline,
                        LinkType::Autolink => LKind::Autolink,
                        LinkType::Email => LKind::Email,
                        LinkType::WikiLink { has_pothole: true } => LKind::WikiPiped,
                        LinkType::WikiLink { has_pothole: false } => LKind::Wiki,
                        _ => LKind::Reference,
                    };
                    let o = open.as_mut().unwrap();
                    let idx = out.links.len();
                    let at = o.atom.text.chars().count();
                    // the parser reports "[[note]]" one byte short: the source span of the link ends after the second "]"
                    let range = if matches!(kind, LKind::Wiki | LKind::WikiPiped) && src.as_bytes().get(range.end) == Some(&b']') { range.start..range.end + 1 } else { range.clone() };
                    out.links.push(LinkOcc {
                        // "[[note\|text]]" in a table cell: the parser leaves the backslash that escapes the pipe on the name
                        dest: if kind == LKind::WikiPiped { dest_url.trim_end_matches('\\').to_string() } else { dest_url.to_string() },
                        kind,
                        title: title.to_string(),
                        text: String::new(),
                        range: range.clone(),
                        atom: 0,
                        block_ref: false,
                        holds_image: false,
                        nested: !link_stack.is_empty(),
                        top: inline_depth == 1,
                        span: (at, at),
                    });
                    o.atom.links.push(idx);
                    link_stack.push(idx);
                }
                Tag::Image {
                    dest_url, title, link_type, ..
                } => {
                    // ("![[image.png\|200]]" in a table cell: the backslash that escapes the pipe is no part of the name)
                    let dest_url = if matches!(link_type, LinkType::WikiLink { has_pothole: true }) { dest_url.trim_end_matches('\\').to_string() } else { dest_url.to_string() };
                    ensure_inline_block!(range);
                    if inline_depth == 0 {
                        open.as_mut().unwrap().atom.top_inlines += 1;
                    }
                    inline_depth += 1;
                    let o = open.as_mut().unwrap();
                    let idx = out.links.len();
                    let at = o.atom.text.chars().count();
                    for &enclosing in &link_stack {
                        out.links[enclosing].holds_image = true;
                    }
                    out.links.push(LinkOcc {
                        kind: LKind::Image,
                        dest: dest_url.to_string(),
                        title: title.to_string(),
                        text: String::new(),
                        range: range.clone(),
                        atom: 0,
                        block_ref: false,
                        holds_image: false,
                        nested: !link_stack.is_empty(),
                        top: inline_depth == 1,
                        span: (at, at),
                    });
                    o.atom.links.push(idx);
                    link_stack.push(idx);
                }
                _ => {}
            },
            Event::End(tag) => match tag {
                TagEnd::Paragraph | TagEnd::Heading(_) | TagEnd::CodeBlock | TagEnd::TableCell => {
                    close!();
                    if let (TagEnd::TableCell, Some(t)) = (tag, table.as_mut()) {
                        t.1 += 1;
                    }
                }
                TagEnd::HtmlBlock => {
                    in_html = false;
                    close!();
                }
                TagEnd::BlockQuote(_) => {
                    close!();
                    let f = frames.pop().unwrap();
                    if out.atoms.len() == f.atoms_at_start {
                        let p = frames.last_mut().unwrap();
                        p.quotes = p.quotes.saturating_sub(1);
                    }
                }
                TagEnd::Item => {
                    close!();
                    // (an item that ends without having added a block carries nothing and does not count)
                    let f = frames.pop().unwrap();
                    if out.atoms.len() == f.atoms_at_start {
                        let p = frames.last_mut().unwrap();
                        p.item_count = p.item_count.saturating_sub(1);
                    }
                }
                TagEnd::List(_) => {
                    close!();
                    let f = frames.pop().unwrap();
                    if out.atoms.len() == f.atoms_at_start {
                        let p = frames.last_mut().unwrap();
                        p.lists = p.lists.saturating_sub(1);
                    }
                }
                TagEnd::Table => {
                    close!();
                    table = None;
                }
                TagEnd::Emphasis
                | TagEnd::Strong
                | TagEnd::Strikethrough
                | TagEnd::Superscript
                | TagEnd::Subscript => {
                    inline_depth = inline_depth.saturating_sub(1);
                }
                TagEnd::Link | TagEnd::Image => {
                    inline_depth = inline_depth.saturating_sub(1);
                    if let (Some(idx), Some(o)) = (link_stack.pop(), open.as_ref()) {
                        let end = o.atom.text.chars().count();
                        let l = &mut out.links[idx];
                        l.span.1 = end;
                        l.text = o.atom.text.chars().skip(l.span.0).take(end - l.span.0).collect();
                    }
                }
                _ => {}
            },
            Event::Text(t) => {
                if let Some(o) = open.as_mut() {
                    if matches!(o.atom.kind, AKind::Code(_) | AKind::Html) {
                        o.atom.text.push_str(&t);
                        continue;
                    }
                }
                ensure_inline_block!(range);
                let o = open.as_mut().unwrap();
                if inline_depth == 0 {
                    o.atom.top_inlines += 1;
                }
                o.atom.text.push_str(&t);
            }
            Event::InlineHtml(t) => {
                ensure_inline_block!(range);
                let o = open.as_mut().unwrap();
                if inline_depth == 0 {
                    o.atom.top_inlines += 1;
                }
                // a tag or comment that spans lines is handed out as the raw source slice: its continuation lines start
                // with the indentation / quote markers of the container, which are not part of the text
                for (n, line) in t.lines().enumerate() {
                    if n > 0 {
                        o.atom.text.push('\n');
                    }
                    o.atom.text.push_str(if n == 0 { line } else { line.trim_start_matches(|c| c == ' ' || c == '\t' || c == '>') });
                }
            }
            Event::Code(t) | Event::InlineMath(t) | Event::DisplayMath(t) => {
                ensure_inline_block!(range);
                let o = open.as_mut().unwrap();
                if inline_depth == 0 {
                    o.atom.top_inlines += 1;
                }
                o.atom.text.push_str(&t);
            }
            Event::Html(t) => {
                if in_html {
                    if let Some(o) = open.as_mut() {
                        o.atom.text.push_str(&t);
                    }
                }
            }
            Event::SoftBreak => {
                if let Some(o) = open.as_mut() {
                    o.atom.text.push(' ');
                    o.atom.soft_breaks += 1;
                }
            }
            Event::HardBreak => {
                if let Some(o) = open.as_mut() {
                    o.atom.text.push(' ');
                    o.atom.hard_breaks += 1;
                }
            }
            Event::Rule => {
                close!();
                let a = new_atom!(AKind::Rule, range);
                out.atoms.push(a);
            }
            Event::FootnoteReference(_) | Event::TaskListMarker(_) => {}
        }
        let _ = open.as_ref().map(|o| o.implicit);
    }
    if let Some(o) = open.take() {
        out.atoms.push(o.atom);
    }
    out
}

/// a link destination as it has to be written: between angle brackets when it holds a space
pub fn dest(d: &str) -> String {
    if d.contains(' ') {
        format!("<{}>", d)
    } else {
        d.to_string()
    }
}

/// a destination inside the library: no scheme ("https:", "mailto:", "file:", "zotero:" ...) and not an absolute path
pub fn is_internal(dest: &str) -> bool {
    // (nor one that names no file at all: nothing, a directory, or just the way to one)
    // (nor a place inside the note itself: "#summary")
    if dest.starts_with('/') || dest.ends_with('/') || dest.chars().all(|c| c == '.' || c == '/') || dest.starts_with('#') || dest.starts_with('?') {
        return false;
    }
    match dest.find(':') {
        // (a colon directly followed by white space, or by nothing, belongs to a name: "Re: budget"; an address may hold a
        // space further on and is then written between angle brackets)
        Some(n) if n > 1 && dest[n + 1..].chars().next().map(|c| !c.is_whitespace()).unwrap_or(false) => {
            let scheme = &dest[..n];
            let first = scheme.chars().next().unwrap();
            !(first.is_ascii_alphabetic() && scheme.chars().all(|c| c.is_ascii_alphanumeric() || c == '+' || c == '-' || c == '.'))
        }
        _ => true,
    }
}

/// does this internal destination spell the name of a note (as opposed to an anchor, a query, or a file of another type)?
pub fn is_note_like(dest: &str) -> bool {
    if dest.ends_with(".md") {
        return true;
    }
    let last = dest.rsplit('/').next().unwrap_or(dest);
    !(dest.is_empty() || dest.contains('#') || dest.contains('?') || last.contains('.'))
}

/// independent key algebra: directory of a key
pub fn key_dir(key: &str) -> String {
    match key.rfind('/') {
        Some(i) => key[..i].to_string(),
        None => String::new(),
    }
}

/// resolve a link destination from the directory `dir` of the linking note: strip one `.md`,
/// fold `.` and `..`; None if it escapes the library root or is empty
pub fn resolve(dest: &str, dir: &str) -> Option<String> {
    let d = dest.strip_suffix(".md").unwrap_or(dest);
    let mut parts: Vec<&str> = if dir.is_empty() {
        vec![]
    } else {
        dir.split('/').collect()
    };
    for seg in d.split('/') {
        match seg {
            "" | "." => {}
            ".." => {
                parts.pop()?;
            }
            s => parts.push(s),
        }
    }
    if parts.is_empty() {
        None
    } else {
        Some(parts.join("/"))
    }
}

/// relative link from directory `dir` to key `key`
pub fn relativize(key: &str, dir: &str) -> String {
    let k: Vec<&str> = key.split('/').collect();
    let d: Vec<&str> = if dir.is_empty() {
        vec![]
    } else {
        dir.split('/').collect()
    };
    let mut common = 0;
    let limit = d.len().min(k.len().saturating_sub(1));
    while common < limit && d[common] == k[common] {
        common += 1;
    }
    let mut out: Vec<String> = vec![];
    for _ in common..d.len() {
        out.push("..".to_string());
    }
    for s in &k[common..] {
        out.push(s.to_string());
    }
    let url = out.join("/");
    // a name that reads like an address or an anchor ("topic:n5", "#inbox"), linked from its own directory: "./" in front
    // keeps it the name of a note
    if !url.is_empty() && !is_internal(&url) {
        return format!("./{}", url);
    }
    url
}

/// plain title of a note: text of its first block iff that block is a heading
pub fn title_of(scan: &Scan) -> Option<String> {
    // raw html blocks are dropped by formatting (documented), so they do not count as a first block
    scan.atoms.iter().find(|a| a.kind != AKind::Html).and_then(|a| match a.kind {
        AKind::Heading(_) if a.chain.is_empty() => Some(a.text.clone()),
        _ => None,
    })
}
