//! C08: rename moves a note and keeps every link pointing at it.

use crate::checks::refactor::refactor_lib_opts;
use crate::lsp::{self, Outcome, Server};
use crate::mdscan::{self, AKind, LKind, LinkOcc, Scan};
use crate::mon::{self, CaseReport, Check, Plan, Tier};
use crate::rng::{fnv, Rng};
use serde_json::{json, Value};
use std::collections::BTreeMap;

pub struct C08;

fn internal_links(scan: &Scan) -> Vec<&LinkOcc> {
    scan.links
        .iter()
        .filter(|l| l.kind != LKind::Image && mdscan::is_internal(&l.dest) && !l.nested)
        .collect()
}

fn words(s: &str) -> String {
    s.split_whitespace().collect::<Vec<_>>().join(" ")
}

impl Check for C08 {
    fn id(&self) -> &'static str {
        "C08"
    }
    fn rule(&self) -> String {
        "case = one generated (formatted) library served by the real LSP loop (half of the sessions after an edit of every note, a third starting from an earlier version whose front matter differs); every internal link occurrence (block reference or inline, any note, incl. links of a note to itself) is used as rename site x new names {free, taken, sub/free, free.md, a name that leads out of the library}; the returned WorkspaceEdit is applied to a copy by the harness's own model and the copy re-scanned: new note present with the old note's blocks, old name gone, every link that resolved to the old name now resolves to the new one with text preserved or equal to the title, every other link and every unrelated note untouched, taken name and a name outside of the library refused without edits; distinct = (site kind, linking dir, target dir, name class) combinations".into()
    }
    fn assumptions(&self) -> Vec<String> {
        vec![
            "new names are interpreted relative to the directory of the note the rename is issued from (that is what prepareRename offers as placeholder)".into(),
            "libraries with sub-directories carry block references only (inline links from sub-directories are an open finding)".into(),
        ]
    }
    fn plan(&self, tier: Tier, _seed: u64) -> Plan {
        Plan {
            cases: tier.pick(700, 10000),
            procs: 16,
            wall_s: 600,
            cpu_s: None,
        }
    }
    fn min_events(&self, tier: Tier) -> u64 {
        tier.pick(1000, 20000)
    }
    fn run_case(&self, tier: Tier, seed: u64, case: u64) -> CaseReport {
        let mut rep = CaseReport::new(case);
        let mut rng = Rng::for_case(seed, "c08", case);
        let sub = rng.chance(1, 2);
        // links inside table cells are not followed by rename (pinned open finding)
        let lib = refactor_lib_opts(&mut rng, tier, sub, false);
        // optionally the server has seen an edit of every note before the rename (index built incrementally)
        let resend = rng.chance(1, 2);
        // hook H2: the invariant walker sees every graph the handlers build (patch graphs included)
        crate::hooks::install_graph_hook();
        crate::hooks::graph_hook_reset();
        lsp::reset_log();
        mon::drain_thread_panics();
        // a third of the sessions start from an earlier version of the library in which the front matter differs (notes
        // that have none had some, notes that have some had none): the edits that follow bring every note to its
        // current text, and what rename moves must be the current text
        let earlier = rng.chance(1, 3);
        let mut s = if earlier {
            let lib0: BTreeMap<String, String> = lib.iter().map(|(k, t)| (k.clone(), other_front_matter(t))).collect();
            rep.count("sessions_from_earlier_front_matter", 1);
            Server::start_mem(&lib0, "")
        } else {
            Server::start_mem(&lib, "")
        };
        if resend || earlier {
            for (k, t) in &lib {
                s.did_change(k, t);
            }
        }
        let scans: BTreeMap<String, Scan> = lib.iter().map(|(k, v)| (k.clone(), mdscan::scan(v))).collect();
        let titles: BTreeMap<String, String> = scans.iter().filter_map(|(k, s)| mdscan::title_of(s).map(|t| (k.clone(), t))).collect();
        let mut sites = 0;
        'outer: for (key, text) in &lib {
            let scan = &scans[key];
            let dir = mdscan::key_dir(key);
            for l in internal_links(scan) {
                if !matches!(scan.atoms[l.atom].kind, AKind::Para | AKind::Heading(_)) {
                    continue;
                }
                let Some(old) = mdscan::resolve(&l.dest, &dir) else { continue };
                if !lib.contains_key(&old) {
                    continue; // dangling site: answered (C12), nothing to move
                }
                sites += 1;
                if sites > tier.pick(12, 30) {
                    break 'outer;
                }
                let (line, col) = mdscan::position(text, &scan.line_starts, l.range.start + 1);
                let taken = lib.keys().find(|k| mdscan::key_dir(k) == dir && **k != old).cloned();
                let mut names: Vec<(String, &str)> = vec![(format!("renamed{}", sites), "free"), (format!("sub{}/fresh", sites), "sub/free"), (format!("dotmd{}.md", sites), "free.md")];
                if let Some(t) = taken {
                    names.push((mdscan::relativize(&t, &dir), "taken"));
                }
                // a name that leads out of the library (too many "../"): refused like a taken one
                names.push((format!("../../../out{}", sites), "outside"));
                // ... and what is no name of a note at all: an anchor, a directory
                names.push((if sites % 2 == 0 { "#anchor".to_string() } else { "sub/".to_string() }, "outside"));
                let (name, class) = names[rng.below(names.len())].clone();
                let new_key = match mdscan::resolve(&name, &dir) {
                    Some(k) => k,
                    None if class == "outside" => String::new(),
                    None => continue,
                };
                rep.count("events", 1);
                rep.count(&format!("name:{}", class), 1);
                rep.shape(fnv(&format!("{}|{}|{}|{}|{}", l.block_ref, dir, mdscan::key_dir(&old), class, old == *key)));
                let uri = s.uri(key);
                let replay = json!({"library": lib, "site": {"key": key, "line": line, "character": col, "link": l.dest}, "new_name": name, "resent": resend});
                let out = s.request("textDocument/rename", json!({"textDocument": {"uri": uri}, "position": {"line": line, "character": col}, "newName": name}));
                let value = match out {
                    Outcome::Result(v) => v,
                    Outcome::Error(code, msg) => {
                        if class == "taken" || class == "outside" {
                            continue; // an error response is a refusal
                        }
                        let panics = mon::drain_thread_panics();
                        let site = panics.last().map(|p| p.signature()).unwrap_or_default();
                        rep.violate("rename-failed", &format!("{}:{}", class_locus(class, &dir), site), format!("rename of {} via {} line {} to `{}` answered error {} {}", old, key, line, name, code, msg), replay);
                        continue;
                    }
                    o => {
                        rep.violate("rename-unanswered", "clean", format!("{:?}", o), replay);
                        continue;
                    }
                };
                let has_ops = value.get("documentChanges").and_then(|d| d.as_array()).map(|a| !a.is_empty()).unwrap_or(false);
                if class == "outside" {
                    if has_ops {
                        rep.violate("rename-out-of-library-not-refused", &class_locus(class, &dir), format!("rename of {} to `{}`, which leads out of the library, returned edits: {}", old, name, value.to_string().chars().take(200).collect::<String>()), replay);
                    }
                    continue;
                }
                if class == "taken" {
                    if has_ops {
                        rep.violate("rename-onto-existing-not-refused", &class_locus(class, &dir), format!("rename of {} to existing {} returned edits", old, new_key), replay);
                    }
                    continue;
                }
                if !has_ops {
                    rep.violate("rename-returned-nothing", &class_locus(class, &dir), format!("rename of {} to free name `{}` returned {}", old, name, value.to_string().chars().take(120).collect::<String>()), replay);
                    continue;
                }
                let after = match lsp::apply_workspace_edit(&lib, &value, &s) {
                    Ok(a) => a,
                    Err(e) => {
                        rep.violate("edit-not-applicable", &class_locus(class, &dir), e, replay);
                        continue;
                    }
                };
                for (clause, detail) in judge(&lib, &after, &scans, &titles, &old, &new_key).into_iter().take(2) {
                    let mut r = replay.clone();
                    r["after"] = json!(after);
                    rep.violate(&clause, &class_locus(class, &dir), format!("rename {} -> {} (site {} line {}): {}", old, new_key, key, line, detail), r);
                }
            }
        }
        let (h2_graphs, h2_viol) = crate::hooks::graph_hook_take();
        rep.count("h2_graphs_walked", h2_graphs);
        for (c, d) in h2_viol.into_iter().take(2) {
            rep.violate(&format!("forest-{}", c), "h2", d, json!({"case": case}));
        }
        if !s.shutdown() {
            rep.inconclusive.push("unclean shutdown".into());
        }
        if case < 2 {
            rep.sample = Some(json!({"keys": lib.keys().collect::<Vec<_>>(), "sites": sites}));
        }
        rep
    }
}

/// the same note with its front matter removed, or with one added if it has none
fn other_front_matter(text: &str) -> String {
    let nl = if text.contains("\r\n") { "\r\n" } else { "\n" };
    let lines: Vec<&str> = text.split_inclusive('\n').collect();
    if lines.first().map(|l| l.trim_end() == "---").unwrap_or(false) {
        if let Some(end) = lines.iter().skip(1).position(|l| l.trim_end() == "---" || l.trim_end() == "...") {
            let rest: String = lines[end + 2..].concat();
            let rest = rest.trim_start_matches(|c| c == '\n' || c == '\r').to_string();
            if !rest.trim().is_empty() {
                return rest;
            }
        }
        return text.to_string();
    }
    format!("---{nl}status: draft{nl}---{nl}{nl}{}", text, nl = nl)
}

fn class_locus(class: &str, dir: &str) -> String {
    format!("{}@{}", class, if dir.is_empty() { "root" } else { "subdir" })
}

fn judge(
    before: &BTreeMap<String, String>,
    after: &BTreeMap<String, String>,
    scans: &BTreeMap<String, Scan>,
    titles: &BTreeMap<String, String>,
    old: &str,
    new: &str,
) -> Vec<(String, String)> {
    let mut v = vec![];
    if after.contains_key(old) {
        v.push(("old-name-still-exists".into(), format!("{} still present", old)));
    }
    if !after.contains_key(new) {
        v.push(("new-name-missing".into(), format!("{} not created; keys {:?}", new, after.keys().collect::<Vec<_>>())));
        return v;
    }
    let extra: Vec<&String> = after.keys().filter(|k| *k != new && !before.contains_key(*k)).collect();
    if !extra.is_empty() {
        v.push(("unexpected-note-created".into(), format!("{:?}", extra)));
    }
    for (k, t) in before {
        let k_after = if k == old { new.to_string() } else { k.clone() };
        let Some(ta) = after.get(&k_after) else {
            if k != old {
                v.push(("unrelated-note-deleted".into(), k.clone()));
            }
            continue;
        };
        let sb = &scans[k];
        let dir_b = mdscan::key_dir(k);
        let dir_a = mdscan::key_dir(&k_after);
        let links_b = internal_links(sb);
        let linked_old = links_b.iter().any(|l| mdscan::resolve(&l.dest, &dir_b).as_deref() == Some(old));
        if !linked_old && k != old {
            if t != ta {
                v.push(("unrelated-note-edited".into(), format!("{} does not link to {} but was changed", k, old)));
            }
            continue;
        }
        let sa = mdscan::scan(ta);
        // front matter goes with the note (also to its new name)
        if sb.meta.as_ref().map(|m| m.trim_end().to_string()) != sa.meta.as_ref().map(|m| m.trim_end().to_string()) {
            v.push(("front-matter-lost".into(), format!("{} -> {}: front matter {:?} -> {:?}", k, k_after, sb.meta, sa.meta)));
            continue;
        }
        // content unchanged: same block texts outside link texts
        let mask = |l: &LinkOcc| mdscan::is_internal(&l.dest) && l.kind != LKind::Image;
        let wb: Vec<Vec<String>> = sb.atoms.iter().map(|a| crate::oracle::masked_words(a, sb, &mask)).collect();
        let wa: Vec<Vec<String>> = sa.atoms.iter().map(|a| crate::oracle::masked_words(a, &sa, &mask)).collect();
        if wb != wa {
            let i = wb.iter().zip(wa.iter()).position(|(x, y)| x != y).unwrap_or(wb.len().min(wa.len()));
            v.push(("note-content-changed".into(), format!("{}: block {}: {:?} -> {:?}", k, i, wb.get(i), wa.get(i))));
            continue;
        }
        let links_a = internal_links(&sa);
        if links_a.len() != links_b.len() {
            v.push(("link-count-changed".into(), format!("{}: {} -> {} internal links", k, links_b.len(), links_a.len())));
            continue;
        }
        for (lb, la) in links_b.iter().zip(links_a.iter()) {
            let tb = mdscan::resolve(&lb.dest, &dir_b);
            let ta_ = mdscan::resolve(&la.dest, &dir_a);
            if tb.as_deref() == Some(old) {
                if ta_.as_deref() != Some(new) {
                    v.push(("link-not-following-rename".into(), format!("{}: `{}` -> `{}` resolves to {:?}, expected {}", k, lb.dest, la.dest, ta_, new)));
                }
                // visible text preserved or refreshed to the note's title (wiki links show their target)
                let title = titles.get(old).map(|t| words(t));
                let ok = lb.kind == LKind::Wiki || words(&la.text) == words(&lb.text) || Some(words(&la.text)) == title;
                if !ok {
                    v.push(("link-text-lost".into(), format!("{}: text `{}` -> `{}` (title {:?})", k, lb.text, la.text, title)));
                }
                if la.kind != lb.kind && !(lb.kind == LKind::Reference && la.kind == LKind::Inline) {
                    v.push(("link-kind-changed".into(), format!("{}: {:?} -> {:?}", k, lb.kind, la.kind)));
                }
            } else if tb != ta_ {
                v.push(("other-link-retargeted".into(), format!("{}: `{}` ({:?}) -> `{}` ({:?})", k, lb.dest, tb, la.dest, ta_)));
            }
        }
    }
    let _: Option<Value> = None;
    v
}
