//! C14: a file on disk, its URI and its note key always name the same note.

use crate::lsp::{self, Outcome, Server};
use crate::mon::{self, CaseReport, Check, Plan, Tier};
use crate::rng::{fnv, Rng};
use serde_json::json;
use std::collections::BTreeMap;

pub struct C14;

const NAMES: &[(&str, &str)] = &[
    ("plain", "ascii"),
    ("with space", "space"),
    ("ünï-日本", "non-ascii"),
    ("100%", "percent"),
    ("50%25", "percent-escape-lookalike"),
    ("a#b", "hash"),
    ("q?x", "question"),
    ("plus+plus", "plus"),
    ("[br]", "brackets"),
    ("dots.v1.2", "dots"),
    (".hidden", "leading-dot"),
    ("x.md", "md-md"),
    ("semi;colon&amp", "punct"),
    // a word, a colon, a space: reads like an address with a scheme, and is not one
    ("Re: plan", "colon-space"),
];

const BASES: &[(&str, &str)] = &[
    ("plain", "ascii"),
    ("with space", "space"),
    ("ünï", "non-ascii"),
    ("pct%41", "percent"),
    ("trail", "trailing-slash"),
    ("ha#sh", "hash"),
    ("qu?ery", "question"),
    ("dotted", "dot-segment"),
    ("updir", "dotdot-segment"),
    // directory names may begin or end with a space (the library itself or a directory above it)
    ("notes ", "trailing-space"),
    (" archive/notes", "leading-space-parent"),
];

impl Check for C14 {
    fn id(&self) -> &'static str {
        "C14"
    }
    fn rule(&self) -> String {
        "case = one library written to a real temp directory (file names with spaces, non-ASCII, %, #, ?, +, brackets, dots, leading dot, nested directories) under a base path variant (plain, space, non-ASCII, %-sequence, trailing slash, #, ?, '.' and '..' segments, directory names that end or begin with a space), loaded by the disk-backed server (state=None); per file, URI = Url::from_file_path(abs): formatting(URI) must return the loaded note, didChange(URI, marker) then formatting(URI) must return the marker with the note count (completion list) unchanged, references(URI) must report the linker note, and every URI in responses (symbols, references, definition) must map through Url::to_file_path to the existing file that was meant; distinct = (base class, name class) pairs".into()
    }
    fn assumptions(&self) -> Vec<String> {
        vec!["the editor builds URIs like url::Url::from_file_path (percent-encoding per RFC 3986)".into()]
    }
    fn plan(&self, tier: Tier, _seed: u64) -> Plan {
        Plan {
            cases: tier.pick(300, 6000),
            procs: 16,
            wall_s: 600,
            cpu_s: None,
        }
    }
    fn min_events(&self, tier: Tier) -> u64 {
        tier.pick(3000, 60000)
    }
    fn run_case(&self, _tier: Tier, seed: u64, case: u64) -> CaseReport {
        let mut rep = CaseReport::new(case);
        let mut rng = Rng::for_case(seed, "c14", case);
        let (bname, bclass) = BASES[(case as usize) % BASES.len()];
        let root = mon::scratch_dir("c14");
        let mut base = root.join(bname);
        std::fs::create_dir_all(&base).unwrap();
        // files: each name at top level or in a nested directory
        let mut files: BTreeMap<String, (String, String)> = BTreeMap::new(); // rel path (no .md) -> (title, class)
        let mut picks: Vec<usize> = (0..NAMES.len()).collect();
        rng.shuffle(&mut picks);
        for &i in picks.iter().take(rng.range(4, 8)) {
            let (n, class) = NAMES[i];
            // directory names: plain, with a space, nested, with dots (a dotted directory is not an extension),
            // named like a note file, hidden, non-ASCII
            let (rel, dclass) = match rng.below(9) {
                0 => (format!("sub dir/{}", n), ""),
                1 => (format!("d1/e1/{}", n), ""),
                2 => (format!("rel-1.0/{}", n), "+dir:dotted"),
                3 => (format!("2024.01/w.x/{}", n), "+dir:dotted"),
                4 => (format!("arch.md/{}", n), "+dir:md"),
                5 => (format!("ünï dir/{}", n), "+dir:non-ascii"),
                // only ".iwe" itself holds the tool's files: a directory whose name merely begins like it holds notes
                6 => (format!(".iwe-archive/{}", n), "+dir:iwe-prefix"),
                _ => (n.to_string(), ""),
            };
            files.insert(rel, (format!("Title{}", i), format!("{}{}", class, dclass)));
        }
        let mut linker = String::from("# Linker\n\n");
        for (rel, (title, _)) in &files {
            let p = base.join(format!("{}.md", rel));
            std::fs::create_dir_all(p.parent().unwrap()).unwrap();
            std::fs::write(&p, format!("# {}\n\nbody of {}\n", title, title)).unwrap();
            linker.push_str(&format!("[x](<{}>)\n\n", rel));
        }
        std::fs::write(base.join("linker.md"), &linker).unwrap();
        // a directory the loader cannot name (not valid UTF-8) and one it cannot list: neither holds notes, neither may
        // keep the rest of the library from being served
        {
            use std::os::unix::ffi::OsStrExt;
            use std::os::unix::fs::PermissionsExt;
            let odd = base.join(std::ffi::OsStr::from_bytes(b"caf\xe9"));
            let _ = std::fs::create_dir_all(&odd);
            let _ = std::fs::write(odd.join("readme.txt"), b"not a note");
            let closed = base.join("no-entry");
            let _ = std::fs::create_dir_all(&closed);
            let _ = std::fs::set_permissions(&closed, std::fs::Permissions::from_mode(0o000));
        }
        let n_notes = files.len() + 1;
        let base_arg = match bclass {
            "trailing-slash" => format!("{}/", base.to_string_lossy()),
            // the library path as a configuration gives it: with "." and ".." segments
            "dot-segment" => format!("{}/./{}", root.to_string_lossy(), bname),
            "dotdot-segment" => {
                let _ = std::fs::create_dir_all(root.join("zz"));
                format!("{}/zz/../{}", root.to_string_lossy(), bname)
            }
            _ => base.to_string_lossy().to_string(),
        };
        lsp::reset_log();
        mon::drain_thread_panics();
        let mut s = Server::start(None, base_arg.clone(), lsp::test_configuration(""));
        s.base = base.to_string_lossy().to_string();
        base = std::path::PathBuf::from(&s.base);
        let replay = json!({"base": base_arg, "files": files.keys().collect::<Vec<_>>()});
        let count_notes = |s: &mut Server| -> Option<usize> {
            let uri = s.uri("linker");
            match s.request("textDocument/completion", json!({"textDocument": {"uri": uri}, "position": {"line": 0, "character": 0}})) {
                Outcome::Result(v) => v["items"].as_array().map(|a| a.len()),
                _ => None,
            }
        };
        let n0 = count_notes(&mut s);
        rep.count("events", 1);
        if n0 != Some(n_notes) {
            rep.violate("loaded-note-count", &format!("base:{}", bclass), format!("{} files on disk, server lists {:?} notes", n_notes, n0), replay.clone());
        }
        for (rel, (title, class)) in &files {
            let abs = base.join(format!("{}.md", rel));
            let uri = lsp_types::Url::from_file_path(&abs).unwrap().to_string();
            let locus = if class.starts_with("md-md") { "name:md-md".to_string() } else { format!("base:{}+name:{}", bclass, class) };
            rep.shape(fnv(&locus));
            // (a) the URI addresses the loaded note
            rep.count("events", 1);
            let fmt = |s: &mut Server, uri: &str| -> Option<String> {
                match s.request("textDocument/formatting", json!({"textDocument": {"uri": uri}, "options": {"tabSize": 2, "insertSpaces": true}})) {
                    Outcome::Result(v) => v[0]["newText"].as_str().map(|x| x.to_string()),
                    _ => None,
                }
            };
            let got = fmt(&mut s, &uri);
            let want = format!("# {}\n\nbody of {}\n", title, title);
            if got.as_deref() != Some(want.as_str()) {
                rep.violate("uri-does-not-address-loaded-note", &locus, format!("formatting({}) = {:?}, file holds {:?}", uri, got, want), replay.clone());
                continue;
            }
            // (b) an edit through the URI updates that note instead of creating a second one
            let marker = format!("# {}\n\nmarker {}\n", title, fnv(rel));
            s.notify("textDocument/didChange", json!({"textDocument": {"uri": uri, "version": 2}, "contentChanges": [{"text": marker}]}));
            rep.count("events", 1);
            let got = fmt(&mut s, &uri);
            if got.as_deref() != Some(marker.as_str()) {
                rep.violate("edit-not-visible-through-uri", &locus, format!("after didChange, formatting({}) = {:?}", uri, got), replay.clone());
            }
            let n1 = count_notes(&mut s);
            if n1 != Some(n_notes) {
                rep.violate("edit-created-second-note", &locus, format!("note count {:?} after editing {} ({} files)", n1, rel, n_notes), replay.clone());
                continue;
            }
            // (c) the note other notes reach by linking to <path> is this one
            rep.count("events", 1);
            if let Outcome::Result(v) = s.request("textDocument/references", json!({"textDocument": {"uri": uri}, "position": {"line": 0, "character": 0}, "context": {"includeDeclaration": false}})) {
                let from_linker = v.as_array().cloned().unwrap_or_default().iter().any(|l| {
                    l["uri"].as_str().and_then(|u| lsp_types::Url::parse(u).ok()).and_then(|u| u.to_file_path().ok()) == Some(base.join("linker.md"))
                });
                if !from_linker {
                    rep.violate("link-does-not-reach-note", &locus, format!("references({}) = {} does not name the linker note", uri, v), replay.clone());
                }
            }
            // (d) go-to-definition from the linker opens this file
            let line = linker.lines().position(|l| l == format!("[x](<{}>)", rel)).unwrap_or(0);
            let luri = s.uri("linker");
            rep.count("events", 1);
            if let Outcome::Result(v) = s.request("textDocument/definition", json!({"textDocument": {"uri": luri}, "position": {"line": line, "character": 2}})) {
                let target = v["uri"].as_str().and_then(|u| lsp_types::Url::parse(u).ok()).and_then(|u| u.to_file_path().ok());
                if target.as_deref() != Some(abs.as_path()) {
                    rep.violate("definition-opens-wrong-file", &locus, format!("definition of <{}> returned {:?}, file is {:?}", rel, v["uri"], abs), replay.clone());
                }
            }
        }
        // (e) every URI in workspace symbols opens an existing file with that title
        rep.count("events", 1);
        if let Outcome::Result(v) = s.request("workspace/symbol", json!({"query": ""})) {
            for sym in v.as_array().cloned().unwrap_or_default() {
                let name = sym["name"].as_str().unwrap_or("").to_string();
                let path = sym["location"]["uri"].as_str().and_then(|u| lsp_types::Url::parse(u).ok()).and_then(|u| u.to_file_path().ok());
                let ok = path.as_ref().map(|p| p.is_file()).unwrap_or(false);
                if !ok {
                    let class = files.iter().find(|(_, (t, _))| name.ends_with(t.as_str())).map(|(_, (_, c))| c.clone()).unwrap_or_else(|| "linker".into());
                    let locus = if class.starts_with("md-md") { "name:md-md".to_string() } else { format!("base:{}+name:{}", bclass, class) };
                    rep.violate("response-uri-not-a-file", &locus, format!("symbol `{}` has uri {} -> {:?} which is not an existing file", name, sym["location"]["uri"], path), replay.clone());
                }
            }
        }
        let _ = s.shutdown();
        {
            use std::os::unix::fs::PermissionsExt;
            let _ = std::fs::set_permissions(base.join("no-entry"), std::fs::Permissions::from_mode(0o755));
        }
        let _ = std::fs::remove_dir_all(&root);
        if case < 3 {
            rep.sample = Some(replay);
        }
        rep
    }
}
