use crate::mon::Check;

pub mod hist;
pub mod norm;

pub fn all() -> Vec<Box<dyn Check>> {
    let mut v: Vec<Box<dyn Check>> = vec![];
    for p in ["C01", "C02", "C06", "C07"] {
        v.push(Box::new(norm::NormCheck { prop: p }));
    }
    for p in ["C04", "C20"] {
        v.push(Box::new(hist::HistCheck { prop: p }));
    }
    v
}

pub fn find(id: &str) -> Option<Box<dyn Check>> {
    all().into_iter().find(|c| c.id() == id)
}

pub fn debug(args: &[String]) {
    match args.first().map(|s| s.as_str()) {
        Some("gen") => norm::debug_gen(args),
        Some("fmt") => norm::debug_fmt(args),
        _ => eprintln!("debug what?"),
    }
}
