use crate::mon::Check;

pub mod crash03;
pub mod det16;
pub mod fs19;
pub mod hist;
pub mod libq;
pub mod lsp11;
pub mod lsp12;
pub mod lsp13;
pub mod lsp14;
pub mod norm;
pub mod refactor;
pub mod rename;

pub fn all() -> Vec<Box<dyn Check>> {
    let mut v: Vec<Box<dyn Check>> = vec![];
    for p in ["C01", "C02", "C06", "C07"] {
        v.push(Box::new(norm::NormCheck { prop: p }));
    }
    for p in ["C05", "C15", "C17", "C18"] {
        v.push(Box::new(libq::LibQ { prop: p }));
    }
    for p in ["C09", "C10"] {
        v.push(Box::new(refactor::Refactor { prop: p }));
    }
    v.push(Box::new(rename::C08));
    v.push(Box::new(lsp11::C11));
    v.push(Box::new(lsp12::C12));
    v.push(Box::new(lsp13::C13));
    v.push(Box::new(lsp14::C14));
    v.push(Box::new(crash03::C03));
    v.push(Box::new(det16::C16));
    v.push(Box::new(fs19::C19));
    for p in ["C04", "C20"] {
        v.push(Box::new(hist::HistCheck { prop: p }));
    }
    v
}

pub fn find(id: &str) -> Option<Box<dyn Check>> {
    all().into_iter().find(|c| c.id() == id)
}

pub fn debug(args: &[String]) {
    match args.first().map(|s| s.as_str()) {
        Some("gen") => norm::debug_gen(args),
        Some("fmt") => norm::debug_fmt(args),
        Some("case") => {
            // vcheck debug case <Cxx> <tier> <seed> <case>: run one case in-process and print the report
            let c = find(&args[1]).unwrap();
            crate::mon::install_panic_recorder();
            let r = c.run_case(crate::mon::Tier::parse(&args[2]), args[3].parse().unwrap(), args[4].parse().unwrap());
            println!("{}", serde_json::to_string_pretty(&r).unwrap());
        }
        _ => eprintln!("debug what?"),
    }
}
