use crate::mon::Check;

pub mod crash03;
pub mod det16;
pub mod fs19;
pub mod hist;
pub mod libq;
pub mod lsp11;
pub mod lsp12;
pub mod lsp13;
pub mod lsp14;
pub mod norm;
pub mod refactor;
pub mod rename;

pub fn all() -> Vec<Box<dyn Check>> {
    let mut v: Vec<Box<dyn Check>> = vec![];
    for p in ["C01", "C02", "C06", "C07"] {
        v.push(Box::new(norm::NormCheck { prop: p }));
    }
    for p in ["C05", "C15", "C17", "C18"] {
        v.push(Box::new(libq::LibQ { prop: p }));
    }
    for p in ["C09", "C10"] {
        v.push(Box::new(refactor::Refactor { prop: p }));
    }
    v.push(Box::new(rename::C08));
    v.push(Box::new(lsp11::C11));
    v.push(Box::new(lsp12::C12));
    v.push(Box::new(lsp13::C13));
    v.push(Box::new(lsp14::C14));
    v.push(Box::new(crash03::C03));
    v.push(Box::new(det16::C16));
    v.push(Box::new(fs19::C19));
    for p in ["C04", "C20"] {
        v.push(Box::new(hist::HistCheck { prop: p }));
    }
    v
}

pub fn find(id: &str) -> Option<Box<dyn Check>> {
    all().into_iter().find(|c| c.id() == id)
}

pub fn debug(args: &[String]) {
    match args.first().map(|s| s.as_str()) {
        Some("shapes") => {
            // fixpoint probe over hostile shapes: prints the shapes whose second formatting pass differs
            let n: u64 = args.get(1).and_then(|s| s.parse().ok()).unwrap_or(2000);
            let mut bad = std::collections::BTreeMap::new();
            for i in 0..n {
                let mut rng = crate::rng::Rng::for_case(1, "shapes", i);
                let t = crash03::shapes(&mut rng, 2);
                let mut m = std::collections::BTreeMap::new();
                m.insert("n1".to_string(), t.clone());
                m.insert("n2".to_string(), "# Two\n".to_string());
                let r = crate::mon::catch(|| { let a = norm::export_lib(&m, ""); let b = norm::export_lib(&a, ""); (a["n1"].clone(), b["n1"].clone()) });
                if let Ok((a, b)) = r { if a != b { bad.entry(t.clone()).or_insert((a, b)); } }
            }
            for (t, (a, b)) in bad.iter().take(40) { println!("SHAPE {:?}\n  ONE {:?}\n  TWO {:?}", t, a, b); }
            println!("{} of {} differ", bad.len(), n);
        }
        Some("gen") => norm::debug_gen(args),
        Some("fmt") => norm::debug_fmt(args),
        Some("lspfix") => {
            // vcheck debug lspfix <replay.json>: replay the LSP fixpoint path of a C02 replay file
            crate::mon::install_panic_recorder();
            let d: serde_json::Value = serde_json::from_str(&std::fs::read_to_string(&args[1]).unwrap()).unwrap();
            let lib: std::collections::BTreeMap<String, String> = serde_json::from_value(d["replay"]["library"].clone()).unwrap();
            let ext = d["replay"]["refs_extension"].as_str().unwrap_or("").to_string();
            let out1 = norm::export_lib(&lib, &ext);
            let mut s = crate::lsp::Server::start_mem(&lib, &ext);
            for (k, w) in &out1 {
                s.did_change(k, w);
            }
            for (k, w) in &out1 {
                let o = s.formatting(k);
                match &o {
                    crate::lsp::Outcome::Result(v) => println!("{} -> result, equal={}", k, v[0]["newText"].as_str() == Some(w.as_str())),
                    other => println!("{} -> {:?}", k, other),
                }
            }
            for p in crate::mon::drain_thread_panics() {
                println!("PANIC {}:{} {}", p.file, p.line, p.message.chars().take(200).collect::<String>());
            }
            println!("{:?}", crate::lsp::events_since(0).iter().filter(|e| matches!(e, crate::lsp::Ev::LoopPanicked(_))).collect::<Vec<_>>());
        }
        Some("case") => {
            // vcheck debug case <Cxx> <tier> <seed> <case>: run one case in-process and print the report
            let c = find(&args[1]).unwrap();
            crate::mon::install_panic_recorder();
            let r = c.run_case(crate::mon::Tier::parse(&args[2]), args[3].parse().unwrap(), args[4].parse().unwrap());
            println!("{}", serde_json::to_string_pretty(&r).unwrap());
        }
        _ => eprintln!("debug what?"),
    }
}
