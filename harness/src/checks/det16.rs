//! C16: results do not depend on thread count, load order or hash seeds.
//! Every dump is produced by a *separate process* (fresh RandomState) with its own rayon pool size.

use crate::checks::hist::{observe, queries_for};
use crate::libgen::{self, LibOpts};
use crate::mon::{self, CaseReport, Check, Plan, Tier};
use crate::rng::{fnv, Rng};
use liwe::database::Database;
use liwe::model::config::MarkdownOptions;
use serde_json::json;
use std::collections::{BTreeMap, HashMap};
use std::process::Command;

pub struct C16;

/// `vcheck dump <lib.json> <mode> <perm-seed>`: canonical dump on stdout
pub fn dump_main(args: &[String]) {
    let texts: BTreeMap<String, String> = serde_json::from_str(&std::fs::read_to_string(&args[0]).unwrap()).unwrap();
    let mode = args[1].as_str();
    let mut rng = Rng::new(args[2].parse().unwrap_or(1));
    let mut keys: Vec<&String> = texts.keys().collect();
    rng.shuffle(&mut keys);
    let db = match mode {
        "import" => {
            // State filled in a permuted order (HashMap iteration order additionally differs per process)
            let mut st: HashMap<String, String> = HashMap::new();
            for k in &keys {
                st.insert((*k).clone(), texts[*k].clone());
            }
            Database::new(st, false, MarkdownOptions::default())
        }
        _ => {
            let mut db = Database::new(HashMap::new(), false, MarkdownOptions::default());
            for k in &keys {
                db.insert_document(k.as_str().into(), texts[*k].clone());
            }
            db
        }
    };
    let mut q = queries_for(&texts);
    // long queries with punctuation against titles that share a long prefix: equally good matches whose order must not
    // depend on which thread scored what before
    q.push("** [ref]: http://r**<div>".to_string());
    q.push("shared long prefix of several titles".to_string());
    q.push("2024 Q1 goals OKRs".to_string());
    q.push("goals".to_string());
    let mut o = observe(&db, &texts, &q);
    // the same library behind the LSP server, with the configuration `iwe init` writes (several configured block actions
    // in a hash map, some sharing a title): the completion list (many notes share a title) and the code-action list, in the order answered
    {
        use crate::lsp::{self, Outcome, Server};
        use liwe::model::config::{BlockAction, Context};
        let mut cfg = lsp::test_configuration("");
        for (id, title) in [("rewrite", "Rewrite"), ("expand", "Expand"), ("keywords", "Keywords"), ("emoji", "Emojify"), ("today", "Today"), ("summarize", "Summarize"), ("rewrite_fast", "Rewrite"), ("rewrite_long", "Rewrite"), ("rewrite_short", "Rewrite")] {
            cfg.actions.insert(id.to_string(), BlockAction { title: title.to_string(), model: "default".to_string(), prompt_template: "{{context}}".to_string(), context: Context::Document });
        }
        let st: HashMap<String, String> = keys.iter().map(|k| ((*k).clone(), texts[*k].clone())).collect();
        let mut s = Server::start(Some(st), "/basepath".to_string(), cfg);
        let uri = s.uri("tl3");
        if let Outcome::Result(v) = s.request("textDocument/completion", json!({"textDocument": {"uri": uri}, "position": {"line": 2, "character": 0}})) {
            let items: Vec<String> = v["items"].as_array().cloned().unwrap_or_default().iter().map(|i| format!("{} => {}", i["label"].as_str().unwrap_or(""), i["insertText"].as_str().unwrap_or(""))).collect();
            o.insert("lsp-completion".to_string(), items.join("\n"));
        }
        if let Outcome::Result(v) = s.request("textDocument/codeAction", json!({"textDocument": {"uri": uri}, "range": {"start": {"line": 4, "character": 0}, "end": {"line": 4, "character": 0}}, "context": {"diagnostics": []}})) {
            let items: Vec<String> = v.as_array().cloned().unwrap_or_default().iter().map(|i| format!("{} [{}]", i["title"].as_str().unwrap_or(""), i["kind"].as_str().unwrap_or(""))).collect();
            o.insert("lsp-code-actions".to_string(), items.join("\n"));
        }
        // references in the order answered: several blocks of one note (paragraphs, items, a quote, block references) name the
        // same target, so the order *within* a file is visible
        for target in ["tl1", "tl2"] {
            let turi = s.uri(target);
            if let Outcome::Result(v) = s.request("textDocument/references", json!({"textDocument": {"uri": turi}, "position": {"line": 0, "character": 0}, "context": {"includeDeclaration": false}})) {
                let items: Vec<String> = v.as_array().cloned().unwrap_or_default().iter().map(|i| format!("{}:{}-{}", i["uri"].as_str().unwrap_or(""), i["range"]["start"]["line"], i["range"]["end"]["line"])).collect();
                o.insert(format!("lsp-references-{}", target), items.join("\n"));
            }
        }
        // further answers whose entries come out of hash sets or maps: inlay hints and document symbols of the note with many
        // references, and the workspace symbols of an empty query, in the order answered
        let muri = s.uri("tlm");
        if let Outcome::Result(v) = s.request("textDocument/inlayHint", json!({"textDocument": {"uri": muri}, "range": {"start": {"line": 0, "character": 0}, "end": {"line": 200, "character": 0}}})) {
            o.insert("lsp-inlay-hints".to_string(), serde_json::to_string(&v).unwrap_or_default());
        }
        let t2 = s.uri("tl2");
        if let Outcome::Result(v) = s.request("textDocument/inlayHint", json!({"textDocument": {"uri": t2}, "range": {"start": {"line": 0, "character": 0}, "end": {"line": 200, "character": 0}}})) {
            o.insert("lsp-inlay-hints-target".to_string(), serde_json::to_string(&v).unwrap_or_default());
        }
        if let Outcome::Result(v) = s.request("textDocument/documentSymbol", json!({"textDocument": {"uri": muri}})) {
            o.insert("lsp-document-symbols".to_string(), serde_json::to_string(&v).unwrap_or_default());
        }
        if let Outcome::Result(v) = s.request("workspace/symbol", json!({"query": ""})) {
            let items: Vec<String> = v.as_array().cloned().unwrap_or_default().iter().map(|i| format!("{} @ {}", i["name"].as_str().unwrap_or(""), i["location"]["uri"].as_str().unwrap_or(""))).collect();
            o.insert("lsp-workspace-symbols".to_string(), items.join("\n"));
        }
        let _ = s.shutdown();
    }
    println!("{}", serde_json::to_string(&o).unwrap());
}

impl Check for C16 {
    fn id(&self) -> &'static str {
        "C16"
    }
    fn rule(&self) -> String {
        "case = one generated library (50-400 notes, dense cross references, duplicate titles, equal ranks) dumped by N separate processes (fresh hash seeds) with RAYON_NUM_THREADS in {1,2,3,4,8,16}, the state map filled in permuted orders, built by Graph::import and by one-by-one inserts in permuted orders; the canonical dump (formatted files, titles, backlink sets with lines, rendered paths, ordered search results, node-at-line; plus, from an LSP server on the same library with nine configured block actions (three of them sharing a title), the completion list, the code-action list the reference lists of two notes that one note names from a dozen blocks, the inlay hints and document symbols of those notes and the workspace symbols of the empty query, in the order answered) of all processes must be byte-identical; distinct = (build mode, thread count, permutation) configurations that produced a dump".into()
    }
    fn assumptions(&self) -> Vec<String> {
        vec!["each dump comes from its own OS process, so HashMap RandomState differs between dumps".into()]
    }
    fn plan(&self, tier: Tier, _seed: u64) -> Plan {
        Plan {
            cases: tier.pick(8, 60),
            procs: tier.pick(4, 8),
            wall_s: 900,
            cpu_s: None,
        }
    }
    fn min_events(&self, tier: Tier) -> u64 {
        tier.pick(60, 1500)
    }
    fn run_case(&self, tier: Tier, seed: u64, case: u64) -> CaseReport {
        let mut rep = CaseReport::new(case);
        let mut rng = Rng::for_case(seed, "c16", case);
        let mut o = LibOpts::clean();
        let n = rng.range(50, tier.pick(200, 400));
        o.min_notes = n;
        o.max_notes = n;
        o.profile.max_blocks = 6;
        o.profile.max_depth = 2;
        o.profile.long_lists = 0;
        o.crlf = false;
        let mut lib = libgen::gen_lib(&mut rng, &o).texts;
        // plus an outline library (heading trees, acyclic reference graph with diamonds and shared sub-notes),
        // so that the path listing and the search index are rich; keys are disjoint (prefix o/)
        let (outline, _) = crate::checks::libq::gen_outline_lib(&mut rng, 14, false);
        for (k, t) in outline {
            // relative links keep their meaning when the whole sub-library moves under o/
            lib.insert(format!("o/{}", k), t);
        }
        // duplicate titles and equal ranks: a handful of notes share one title
        let keys: Vec<String> = lib.keys().cloned().collect();
        for k in keys.iter().take(6) {
            let t = lib[k].clone();
            lib.insert(k.clone(), format!("# Same Title\n\n{}", t));
        }
        // titles that contain links to other notes (a title must not depend on which of the two notes was loaded first)
        lib.insert("tl1".into(), "# See [alias](tl2) and [other](tl4)\n\ntext\n".into());
        lib.insert("tl2".into(), "# Beta title\n".into());
        lib.insert("tl3".into(), "# Gamma\n\n[x](tl1)\n\ninline [y](tl1) link\n".into());
        lib.insert("tl4".into(), "# [back](tl1)\n\n[z](tl1)\n".into());
        // one note that names the same targets from many blocks (the order of locations inside one file)
        lib.insert("tlm".into(), "# Many\n\none [a](tl2) par\n\ntwo [b](tl2) and [c](tl1)\n\n[d](tl2)\n\n- item [e](tl2)\n- item [f](tl1)\n\n> quoted [g](tl2)\n\nthree [h](tl2)\n\n[i](tl1)\n\nfour [j](tl2) [k](tl2)\n\nfive [l](tl1)\n\n[m](tl2)\n\nsix [n](tl2)\n".into());
        for (i, tail) in ["", " 日本", " title: x", " and more", " x"].iter().enumerate() {
            lib.insert(format!("hq{}", i), format!("# \\*\\* \\[ref\\]: http://r\\*\\*&lt;div&gt;{}\n", tail));
            lib.insert(format!("hp{}", i), format!("# shared long prefix of several titles{}\n", tail));
        }
        // two paths that read the same word for word and end in the same note (the split between title and section
        // differs): every sort key of the search ties
        lib.insert("plan-2024".into(), "# 2024\n\n## Q1 goals\n\n[OKRs](okrs)\n".into());
        lib.insert("plan-2024-q1".into(), "# 2024 Q1\n\n## goals\n\n[OKRs](okrs)\n".into());
        lib.insert("okrs".into(), "# OKRs\n\ntext\n".into());
        let dir = mon::scratch_dir("c16");
        let file = dir.join("lib.json");
        std::fs::write(&file, serde_json::to_string(&lib).unwrap()).unwrap();
        let exe = std::env::current_exe().unwrap();
        let configs = tier.pick(12, 48);
        let threads = [1, 2, 3, 4, 8, 16];
        let mut dumps: Vec<(String, String)> = vec![];
        for i in 0..configs {
            let mode = if i % 2 == 0 { "import" } else { "insert" };
            let t = threads[(i / 2) % threads.len()];
            let perm = rng.next() % 1_000_000;
            let out = Command::new(&exe)
                .arg("dump")
                .arg(&file)
                .arg(mode)
                .arg(perm.to_string())
                .env("RAYON_NUM_THREADS", t.to_string())
                .output();
            match out {
                Ok(o) if o.status.success() => {
                    let cfg = format!("{}|threads={}|perm={}", mode, t, perm);
                    rep.shape(fnv(&format!("{}|{}", mode, t)) ^ (perm % 7));
                    dumps.push((cfg, String::from_utf8_lossy(&o.stdout).to_string()));
                    rep.count("events", 1);
                }
                Ok(o) => rep.inconclusive.push(format!("dump process failed: {:?} {}", o.status, String::from_utf8_lossy(&o.stderr).chars().take(200).collect::<String>())),
                Err(e) => rep.inconclusive.push(format!("spawn failed: {}", e)),
            }
        }
        rep.count("notes", lib.len() as u64);
        if let Some((cfg0, d0)) = dumps.first() {
            for (cfg, d) in dumps.iter().skip(1) {
                if d != d0 {
                    // name the first differing component
                    let a: BTreeMap<String, String> = serde_json::from_str(d0).unwrap_or_default();
                    let b: BTreeMap<String, String> = serde_json::from_str(d).unwrap_or_default();
                    let comp = a.iter().find(|(k, v)| b.get(*k) != Some(*v)).map(|(k, _)| k.clone()).unwrap_or_else(|| "?".into());
                    let clause = format!("dump-differs-{}", comp.split(':').next().unwrap_or("?"));
                    let va = a.get(&comp).cloned().unwrap_or_default();
                    let vb = b.get(&comp).cloned().unwrap_or_default();
                    let la: Vec<&str> = va.lines().collect();
                    let lb: Vec<&str> = vb.lines().collect();
                    let i = la.iter().zip(lb.iter()).position(|(x, y)| x != y).unwrap_or(0);
                    rep.violate(&clause, "clean", format!("{} vs {}: component {} differs at entry {}: {:?} vs {:?}", cfg0, cfg, comp, i, la.get(i), lb.get(i)), json!({"library_notes": lib.len(), "configs": [cfg0, cfg], "component": comp, "library": lib}));
                    break;
                }
            }
        }
        let _ = std::fs::remove_dir_all(&dir);
        if case < 1 {
            rep.sample = Some(json!({"notes": lib.len(), "configs": dumps.iter().map(|d| d.0.clone()).collect::<Vec<_>>() }));
        }
        rep
    }
}
