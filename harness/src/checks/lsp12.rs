//! C12: every request gets exactly one response and the server keeps serving.

use crate::checks::norm::export_lib;
use crate::libgen::{self, LibOpts};
use crate::lsp::{self, Outcome, Server};
use crate::mon::{self, CaseReport, Check, Plan, Tier};
use crate::rng::{fnv, Rng};
use serde_json::{json, Value};
use std::collections::BTreeMap;

pub struct C12;

pub fn small_lib(rng: &mut Rng, tier: Tier) -> BTreeMap<String, String> {
    let mut o = LibOpts::clean();
    o.min_notes = 2;
    o.max_notes = tier.pick(4, 6);
    o.profile.max_blocks = 8;
    o.profile.html_blocks = false;
    o.crlf = false;
    libgen::gen_lib(rng, &o).texts
}

fn pos(rng: &mut Rng, text: &str) -> Value {
    let lines: Vec<&str> = text.lines().collect();
    match rng.below(6) {
        0 => json!({"line": 0, "character": 0}),
        1 => json!({"line": lines.len() + rng.below(3), "character": rng.below(5)}), // past EOF
        2 => {
            let l = rng.below(lines.len().max(1));
            json!({"line": l, "character": lines.get(l).map(|s| s.len()).unwrap_or(0) + 7}) // past EOL
        }
        3 => json!({"line": u32::MAX, "character": u32::MAX}),
        _ => {
            let l = rng.below(lines.len().max(1));
            let c = rng.below(lines.get(l).map(|s| s.chars().count()).unwrap_or(0) + 1);
            json!({"line": l, "character": c})
        }
    }
}

/// a uri: mostly known, sometimes hostile
fn some_uri(rng: &mut Rng, s: &Server, keys: &[String]) -> (String, &'static str) {
    match rng.below(10) {
        0 => (s.uri("no-such-note"), "unknown"),
        1 => ("file:///elsewhere/outside.md".to_string(), "outside"),
        2 => ("untitled:Untitled-1".to_string(), "non-file"),
        3 => (s.uri(rng.pick(keys).as_str()).replace("n", "%6E"), "percent-encoded"),
        4 => (format!("{}/", s.uri("sub")), "directory"),
        _ => (s.uri(rng.pick(keys).as_str()), "known"),
    }
}

/// pinned session: every code action offered on a block reference from a note to itself (spelled plainly, with ./ and with
/// .md) is resolved; each resolve must be answered and the server must go on serving. (Inlining a note into itself once
/// recursed without bound and took the whole process down: the worker process dies, which C12 counts as a violation.)
fn self_reference_session(rep: &mut CaseReport) {
    let mut lib: BTreeMap<String, String> = BTreeMap::new();
    lib.insert("d/self".into(), "# Self\n\n## Part\n\n[me](self)\n\n[me again](./self.md)\n\ntext\n".into());
    lib.insert("other".into(), "# Other\n\n[to self](d/self)\n".into());
    lsp::reset_log();
    mon::drain_thread_panics();
    let mut s = Server::start_mem(&lib, "");
    let uri = s.uri("d/self");
    let replay = json!({"library": lib, "session": "codeAction on every line of d/self, resolve every action"});
    for line in 0..8u64 {
        let acts = match s.request("textDocument/codeAction", json!({"textDocument": {"uri": uri}, "range": {"start": {"line": line, "character": 0}, "end": {"line": line, "character": 0}}, "context": {"diagnostics": []}})) {
            Outcome::Result(v) => v.as_array().cloned().unwrap_or_default(),
            other => {
                rep.violate("no-response", "pinned:self-reference", format!("codeAction at line {}: {:?}", line, other), replay.clone());
                Vec::new()
            }
        };
        for a in acts {
            rep.count("events", 1);
            rep.count("pinned_self_reference_resolves", 1);
            let o = s.request("codeAction/resolve", a.clone());
            if !o.answered() {
                rep.violate("no-response", "pinned:self-reference", format!("codeAction/resolve of `{}` at line {}: {:?}", a["title"], line, o), replay.clone());
            }
        }
    }
    // a stale resolve: the actions were offered on a reference to another note; an edit then turns that very line into a
    // reference of the note to itself, and the client resolves what it was offered before (the server no longer offers to
    // inline a note into itself, but it must still answer when asked)
    let before = "# Self\n\n## Part\n\n[other](../other)\n\ntext\n";
    let after = "# Self\n\n## Part\n\n[me](self)\n\ntext\n";
    s.did_change("d/self", before);
    let stale = match s.request("textDocument/codeAction", json!({"textDocument": {"uri": uri}, "range": {"start": {"line": 4, "character": 0}, "end": {"line": 4, "character": 0}}, "context": {"diagnostics": []}})) {
        Outcome::Result(v) => v.as_array().cloned().unwrap_or_default(),
        _ => Vec::new(),
    };
    s.did_change("d/self", after);
    for a in stale {
        rep.count("events", 1);
        rep.count("pinned_stale_resolves", 1);
        let o = s.request("codeAction/resolve", a.clone());
        if !o.answered() {
            rep.violate("no-response", "pinned:self-reference", format!("stale codeAction/resolve of `{}` after the line became a self reference: {:?}", a["title"], o), replay.clone());
        }
    }
    if s.formatted_text("other").is_none() {
        rep.violate("server-stopped-serving", "pinned:self-reference", "formatting of another note is not answered after the session".into(), replay.clone());
    }
    let _ = s.shutdown();
}

/// one session against the real `iwes` binary over stdio (Content-Length framing, real initialize handshake)
fn stdio_session(rep: &mut CaseReport) {
    use std::io::{BufRead, BufReader, Read, Write};
    use std::process::{Command, Stdio};
    let bin = mon::verif_root().join("harness/target/repo/release/iwes");
    if !bin.exists() {
        rep.count("stdio_binary_missing", 1);
        return;
    }
    let dir = mon::scratch_dir("c12-stdio");
    std::fs::write(dir.join("a.md"), "# A\n\n[x](b)\n").unwrap();
    std::fs::write(dir.join("b.md"), "# B\n\n\n*  item\n").unwrap();
    let mut child = match Command::new(&bin).current_dir(&dir).stdin(Stdio::piped()).stdout(Stdio::piped()).stderr(Stdio::null()).spawn() {
        Ok(c) => c,
        Err(e) => {
            rep.inconclusive.push(format!("spawn iwes: {}", e));
            return;
        }
    };
    let mut stdin = child.stdin.take().unwrap();
    let stdout = child.stdout.take().unwrap();
    let (tx, rx) = crossbeam_channel::unbounded::<serde_json::Value>();
    std::thread::spawn(move || {
        let mut r = BufReader::new(stdout);
        loop {
            let mut len = 0usize;
            loop {
                let mut line = String::new();
                if r.read_line(&mut line).unwrap_or(0) == 0 {
                    return;
                }
                let l = line.trim();
                if l.is_empty() {
                    break;
                }
                if let Some(v) = l.strip_prefix("Content-Length:") {
                    len = v.trim().parse().unwrap_or(0);
                }
            }
            let mut buf = vec![0u8; len];
            if r.read_exact(&mut buf).is_err() {
                return;
            }
            if let Ok(v) = serde_json::from_slice::<serde_json::Value>(&buf) {
                if tx.send(v).is_err() {
                    return;
                }
            }
        }
    });
    let mut send = |v: serde_json::Value| {
        let body = v.to_string();
        let _ = write!(stdin, "Content-Length: {}\r\n\r\n{}", body.len(), body);
        let _ = stdin.flush();
    };
    let wait = |id: i64| -> Vec<serde_json::Value> {
        // all responses for `id` arriving within the window after the first one
        let mut got = vec![];
        let deadline = std::time::Instant::now() + std::time::Duration::from_secs(20);
        while std::time::Instant::now() < deadline {
            match rx.recv_timeout(std::time::Duration::from_millis(if got.is_empty() { 500 } else { 150 })) {
                Ok(v) => {
                    if v.get("id").and_then(|i| i.as_i64()) == Some(id) && v.get("method").is_none() {
                        got.push(v);
                    }
                }
                Err(_) => {
                    if !got.is_empty() {
                        break;
                    }
                }
            }
        }
        got
    };
    let uri = |k: &str| lsp_types::Url::from_file_path(dir.join(format!("{}.md", k))).unwrap().to_string();
    send(json!({"jsonrpc": "2.0", "id": 1, "method": "initialize", "params": {"capabilities": {}, "processId": null, "rootUri": null}}));
    let init = wait(1);
    send(json!({"jsonrpc": "2.0", "method": "initialized", "params": {}}));
    let replay = json!({"driver": "stdio"});
    if init.len() != 1 || init[0].get("result").is_none() {
        rep.violate("stdio-initialize", "stdio", format!("initialize answered {:?}", init), replay.clone());
    }
    let script: Vec<(i64, &str, serde_json::Value, bool)> = vec![
        (2, "textDocument/formatting", json!({"textDocument": {"uri": uri("b")}, "options": {"tabSize": 2, "insertSpaces": true}}), true),
        (3, "textDocument/formatting", json!({"textDocument": {"uri": uri("nope")}, "options": {"tabSize": 2, "insertSpaces": true}}), false),
        (4, "textDocument/hover", json!({"textDocument": {"uri": uri("a")}, "position": {"line": 0, "character": 0}}), false),
        (5, "textDocument/references", json!({"textDocument": {"uri": uri("b")}, "position": {"line": 0, "character": 0}, "context": {"includeDeclaration": false}}), true),
        (6, "workspace/executeCommand", json!({"command": "nothing", "arguments": []}), false),
        (7, "textDocument/formatting", json!({"textDocument": {"uri": uri("b")}, "options": {"tabSize": 2, "insertSpaces": true}}), true),
    ];
    for (id, m, p, want_result) in script {
        send(json!({"jsonrpc": "2.0", "id": id, "method": m, "params": p}));
        let r = wait(id);
        rep.count("events", 1);
        rep.count("stdio_requests", 1);
        if r.len() != 1 {
            rep.violate("stdio-response-count", &format!("stdio:{}", m), format!("{} responses for request {} ({})", r.len(), id, m), replay.clone());
            continue;
        }
        if want_result && r[0].get("result").is_none() {
            rep.violate("stdio-error-for-valid-request", &format!("stdio:{}", m), r[0].to_string(), replay.clone());
        }
        if id == 2 || id == 7 {
            let text = r[0]["result"][0]["newText"].as_str().unwrap_or("");
            if text != "# B\n\n- item\n" {
                rep.violate("server-stopped-serving", "stdio", format!("formatting of b.md returned {:?}", text), replay.clone());
            }
        }
    }
    send(json!({"jsonrpc": "2.0", "id": 99, "method": "shutdown", "params": null}));
    let sd = wait(99);
    send(json!({"jsonrpc": "2.0", "method": "exit", "params": null}));
    let t0 = std::time::Instant::now();
    let mut status = None;
    while t0.elapsed() < std::time::Duration::from_secs(10) {
        if let Ok(Some(st)) = child.try_wait() {
            status = Some(st);
            break;
        }
        std::thread::sleep(std::time::Duration::from_millis(20));
    }
    if sd.len() != 1 {
        rep.violate("stdio-response-count", "stdio:shutdown", format!("{} responses to shutdown", sd.len()), replay.clone());
    }
    match status {
        Some(st) if st.success() => {}
        Some(st) => rep.violate("unclean-shutdown", "stdio", format!("iwes exited with {} after shutdown/exit", st), replay.clone()),
        None => {
            let _ = child.kill();
            rep.violate("unclean-shutdown", "stdio", "iwes still running 10 s after exit".into(), replay.clone());
        }
    }
    rep.count("stdio_sessions", 1);
    let _ = std::fs::remove_dir_all(&dir);
}

impl Check for C12 {
    fn id(&self) -> &'static str {
        "C12"
    }
    fn rule(&self) -> String {
        "case = one in-memory LSP session (real main_loop + worker threads) on a generated library: a random sequence of requests over every method in Router::on_request x hostile parameter values (unknown / outside / non-file / percent-encoded URIs, positions past EOL / EOF / u32::MAX, stale / missing / mistyped code-action data, taken / empty / slashed rename names, unknown commands and methods, mistyped params), interleaved with edits; each request's outcome is decided on hook event Exited(id) (exactly one response by then), followed by a liveness probe (formatting of a known note vs an independent model); the loop must end Ok on shutdown/exit; a pinned session resolves every code action offered on a note that references itself; a request that kills the server process (the server runs inside the worker) is a violation; one session runs against the real iwes binary over stdio; distinct = (method, parameter class) pairs x outcome kind".into()
    }
    fn death_is_violation(&self) -> bool {
        // the server runs inside the worker process: a request that kills the process (a stack overflow is not a panic and
        // passes every catch_unwind) has not been answered and nothing is served any more
        true
    }
    fn assumptions(&self) -> Vec<String> {
        vec![
            "server driven in-process over lsp_server::Connection::memory(); configuration has a `default` model with empty api_key_env so no network path is reachable".into(),
            "exactly-once is decided at the H1 Exited event, never by timeout; a 30 s watchdog yields inconclusive".into(),
        ]
    }
    fn plan(&self, tier: Tier, _seed: u64) -> Plan {
        Plan {
            cases: tier.pick(240, 6000),
            procs: 16,
            wall_s: 300,
            cpu_s: None,
        }
    }
    fn min_events(&self, tier: Tier) -> u64 {
        tier.pick(2000, 50000)
    }
    fn run_case(&self, tier: Tier, seed: u64, case: u64) -> CaseReport {
        let mut rep = CaseReport::new(case);
        if case == 0 {
            stdio_session(&mut rep);
        }
        if case == 1 {
            self_reference_session(&mut rep);
        }
        let mut rng = Rng::for_case(seed, "c12", case);
        let mut lib = small_lib(&mut rng, tier);
        let keys: Vec<String> = lib.keys().cloned().collect();
        // hook H2: the invariant walker sees every graph the handlers build (patch graphs included)
        crate::hooks::install_graph_hook();
        crate::hooks::graph_hook_reset();
        lsp::reset_log();
        mon::drain_thread_panics();
        let mut s = Server::start_mem(&lib, "");
        let mut script: Vec<Value> = vec![];
        let mut last_actions: Vec<Value> = vec![];
        let n = tier.pick(30, 40);
        let mut dead = false;
        for step in 0..n {
            let key = rng.pick(&keys).clone();
            let text = lib[&key].clone();
            let (uri, uclass) = some_uri(&mut rng, &s, &keys);
            let (method, params, class): (&str, Value, String) = match rng.below(20) {
                0 => ("textDocument/formatting", json!({"textDocument": {"uri": uri}, "options": {"tabSize": 2, "insertSpaces": true}}), uclass.into()),
                1 => ("textDocument/documentSymbol", json!({"textDocument": {"uri": uri}}), uclass.into()),
                2 => ("textDocument/inlayHint", json!({"textDocument": {"uri": uri}, "range": {"start": {"line": 0, "character": 0}, "end": {"line": 1000, "character": 0}}}), uclass.into()),
                3 => ("textDocument/references", json!({"textDocument": {"uri": uri}, "position": pos(&mut rng, &text), "context": {"includeDeclaration": false}}), uclass.into()),
                4 | 5 => ("textDocument/definition", json!({"textDocument": {"uri": uri}, "position": pos(&mut rng, &text)}), uclass.into()),
                6 => ("textDocument/prepareRename", json!({"textDocument": {"uri": uri}, "position": pos(&mut rng, &text)}), uclass.into()),
                7 => {
                    let name = match rng.below(6) {
                        0 => keys[0].clone(),
                        1 => String::new(),
                        2 => "sub/fresh".to_string(),
                        3 => "fresh.md".to_string(),
                        4 => "../up".to_string(),
                        _ => format!("fresh{}", step),
                    };
                    ("textDocument/rename", json!({"textDocument": {"uri": uri}, "position": pos(&mut rng, &text), "newName": name}), format!("{}+name", uclass))
                }
                8 => ("textDocument/completion", json!({"textDocument": {"uri": uri}, "position": pos(&mut rng, &text)}), uclass.into()),
                9 => ("completionItem/resolve", json!({"label": "x"}), "item".into()),
                10 | 11 => {
                    let line = rng.below(text.lines().count() + 2);
                    let only = match rng.below(4) {
                        0 => json!(["refactor.extract.section"]),
                        1 => json!(["quickfix"]),
                        _ => Value::Null,
                    };
                    let mut ctx = json!({"diagnostics": []});
                    if !only.is_null() {
                        ctx["only"] = only;
                    }
                    let empty = rng.chance(3, 4);
                    ("textDocument/codeAction", json!({"textDocument": {"uri": uri}, "range": {"start": {"line": line, "character": 0}, "end": {"line": if empty { line } else { line + 1 }, "character": 0}}, "context": ctx}), format!("{}+line", uclass))
                }
                12 | 13 => {
                    // resolve: valid (from the last codeAction), stale, out of range, missing, wrong type
                    let base = last_actions.first().cloned().unwrap_or(json!({"title": "Extract section", "kind": "refactor.extract.section", "data": 1}));
                    let (v, c) = match rng.below(6) {
                        0 => {
                            let mut b = base.clone();
                            b["data"] = json!(999999);
                            (b, "data-out-of-range")
                        }
                        1 => {
                            let mut b = base.clone();
                            b.as_object_mut().unwrap().remove("data");
                            (b, "data-missing")
                        }
                        2 => {
                            let mut b = base.clone();
                            b["data"] = json!("seven");
                            (b, "data-wrong-type")
                        }
                        3 => {
                            let mut b = base.clone();
                            b["kind"] = json!("refactor.unknown.kind");
                            (b, "kind-unknown")
                        }
                        4 => {
                            let mut b = base.clone();
                            b["data"] = json!(0);
                            (b, "data-document-node")
                        }
                        _ => (base, "valid-or-stale"),
                    };
                    ("codeAction/resolve", v, c.into())
                }
                14 => ("workspace/symbol", json!({"query": *rng.pick(&["", "alpha", "zz", "λ", " "])}), "query".into()),
                15 => ("textDocument/inlineValues", json!({"textDocument": {"uri": uri}, "range": {"start": {"line": 0, "character": 0}, "end": {"line": 1, "character": 0}}, "context": {"frameId": 1, "stoppedLocation": {"start": {"line": 0, "character": 0}, "end": {"line": 1, "character": 0}}}}), uclass.into()),
                16 => {
                    let (args, c) = match rng.below(4) {
                        0 => (json!({"command": "generate", "arguments": [{"new_key": "gen1", "prompt_key": keys[0], "target_key": key}]}), "generate-valid"),
                        1 => (json!({"command": "generate", "arguments": [{"new_key": "gen1", "prompt_key": "nope", "target_key": "nope"}]}), "generate-unknown-keys"),
                        2 => (json!({"command": "generate", "arguments": []}), "generate-malformed"),
                        _ => (json!({"command": "frobnicate", "arguments": []}), "unknown-command"),
                    };
                    ("workspace/executeCommand", args, c.into())
                }
                17 => ("textDocument/hover", json!({"textDocument": {"uri": uri}, "position": {"line": 0, "character": 0}}), "unknown-method".into()),
                18 => (*rng.pick(&["textDocument/formatting", "textDocument/rename", "textDocument/codeAction", "workspace/symbol"]), json!(5), "mistyped-params".into()),
                19 if rng.chance(1, 2) => {
                    // well-typed but hostile notifications: they must not end or wedge the server
                    let kuri = s.uri(&key);
                    let (m, p, c): (&str, Value, &str) = match rng.below(6) {
                        0 => ("textDocument/didChange", json!({"textDocument": {"uri": kuri, "version": 3}, "contentChanges": []}), "didChange-no-changes"),
                        1 => ("textDocument/didSave", json!({"textDocument": {"uri": kuri}}), "didSave-without-text"),
                        2 => ("textDocument/didChange", json!({"textDocument": {"uri": "untitled:x", "version": 1}, "contentChanges": [{"text": "# u\n"}]}), "didChange-non-file-uri"),
                        3 => ("textDocument/didChange", json!(7), "didChange-mistyped"),
                        4 => ("textDocument/didOpen", json!({"textDocument": {"uri": kuri, "languageId": "markdown", "version": 1, "text": "x"}}), "unknown-notification"),
                        _ => ("$/cancelRequest", json!({"id": 1}), "cancel"),
                    };
                    s.notify(m, p);
                    rep.count(&format!("notify:{}", c), 1);
                    script.push(json!({"notify": m, "class": c}));
                    rep.shape(fnv(&format!("notify|{}", c)));
                    // the edit that follows a hostile notification must still be applied
                    let nt = format!("# after {} {}\n\npara\n", c, step);
                    s.did_change(&key, &nt);
                    lib.insert(key.clone(), nt);
                    let probe = s.formatted_text(&key);
                    let want = mon::catch(|| export_lib(&lib, "")).ok().and_then(|m| m.get(&key).cloned());
                    rep.count("events", 1);
                    mon::drain_thread_panics();
                    if probe.is_none() || probe != want {
                        rep.violate("server-stopped-serving", &format!("after-notify:{}", c), format!("after notification {} ({}) and a valid edit, formatting of {} returned {:?}, model {:?}", m, c, key, probe.as_ref().map(|s| s.chars().take(60).collect::<String>()), want.as_ref().map(|s| s.chars().take(60).collect::<String>())), json!({"library": lib, "script": script}));
                        break;
                    }
                    continue;
                }
                _ => {
                    // an edit in between (valid traffic)
                    let nt = format!("# v{}\n\npara {}\n", step, step);
                    if rng.chance(1, 2) {
                        s.did_change(&key, &nt);
                    } else {
                        s.did_save(&key, &nt);
                    }
                    lib.insert(key.clone(), nt);
                    script.push(json!({"notify": "edit", "key": key}));
                    continue;
                }
            };
            script.push(json!({"method": method, "class": class, "params": params}));
            if std::env::var("VERIF_DUMP").is_ok() {
                eprintln!("{} {} {}", method, class, params.to_string().chars().take(300).collect::<String>());
            }
            let out = s.request(method, params.clone());
            rep.count("events", 1);
            rep.count(&format!("req:{}", method), 1);
            let kind = match &out {
                Outcome::Result(_) => "result",
                Outcome::Error(..) => "error",
                Outcome::NoResponse { .. } => "no-response",
                Outcome::Watchdog => "watchdog",
                Outcome::Duplicate(_) => "duplicate",
            };
            rep.shape(fnv(&format!("{}|{}|{}", method, class, kind)));
            match &out {
                Outcome::Result(v) => {
                    if method == "textDocument/codeAction" {
                        if let Some(a) = v.as_array() {
                            if !a.is_empty() {
                                last_actions = a.clone();
                            }
                        }
                    }
                }
                Outcome::Error(..) => {}
                Outcome::NoResponse { panicked } => {
                    let panics = mon::drain_thread_panics();
                    let site = panics.last().map(|p| p.signature()).unwrap_or_else(|| "no-panic-recorded".into());
                    rep.violate(
                        "no-response",
                        &format!("{}:{}", method, site),
                        format!("request {} ({}) got no response; worker exited (panicked={}); panic: {:?}", method, class, panicked, panics.last().map(|p| &p.message)),
                        json!({"library": lib, "script": script}),
                    );
                }
                Outcome::Duplicate(n) => rep.violate("duplicate-response", method, format!("{} responses for one {} request", n, method), json!({"library": lib, "script": script})),
                Outcome::Watchdog => {
                    rep.inconclusive.push(format!("watchdog waiting for {} ({})", method, class));
                    dead = true;
                    break;
                }
            }
            mon::drain_thread_panics();
            // liveness probe: formatting of a known note answers with the model's text
            let pk = rng.pick(&keys).clone();
            let probe = s.formatted_text(&pk);
            rep.count("probes", 1);
            let want = mon::catch(|| export_lib(&lib, "")).ok().and_then(|m| m.get(&pk).cloned());
            // … and requests that make sense are answered with results, not errors
            let puri = s.uri(&pk);
            let mut wedged = None;
            for (m, p) in [
                ("textDocument/references", json!({"textDocument": {"uri": puri}, "position": {"line": 0, "character": 0}, "context": {"includeDeclaration": false}})),
                ("textDocument/inlayHint", json!({"textDocument": {"uri": puri}, "range": {"start": {"line": 0, "character": 0}, "end": {"line": 1000, "character": 0}}})),
                ("workspace/symbol", json!({"query": ""})),
            ] {
                rep.count("probes", 1);
                match s.request(m, p) {
                    Outcome::Result(_) => {}
                    o => {
                        wedged = Some(format!("{} on known note {} answered {:?}", m, pk, o));
                        break;
                    }
                }
            }
            mon::drain_thread_panics();
            if let Some(w) = wedged {
                rep.violate("server-stopped-serving", &format!("probe-after:{}", method), format!("after {} ({}): {}", method, class, w), json!({"library": lib, "script": script}));
                break;
            }
            if probe.is_none() || probe != want {
                rep.violate(
                    "server-stopped-serving",
                    &format!("after:{}", method),
                    format!("liveness probe after {} ({}): formatting of {} returned {:?}, model {:?}", method, class, pk, probe.as_ref().map(|s| s.chars().take(80).collect::<String>()), want.as_ref().map(|s| s.chars().take(80).collect::<String>())),
                    json!({"library": lib, "script": script}),
                );
                break;
            }
        }
        let (h2_graphs, h2_viol) = crate::hooks::graph_hook_take();
        rep.count("h2_graphs_walked", h2_graphs);
        for (c, d) in h2_viol.into_iter().take(2) {
            rep.violate(&format!("forest-{}", c), "h2", d, json!({"case": case}));
        }
        let evs = lsp::events_since(0);
        rep.count("h1_events", evs.len() as u64);
        // hostile notifications may be rejected by the loop thread (they carry no valid edit); what matters for
        // this property is that the server keeps serving (probes above). A rejected *valid* edit is a violation.
        let hostile_sent = script.iter().filter(|x| x.get("class").and_then(|c| c.as_str()).map(|c| c.starts_with("did") || c == "unknown-notification" || c == "cancel").unwrap_or(false) && x.get("notify").is_some()).count();
        rep.count("loop_thread_rejections", evs.iter().filter(|e| matches!(e, lsp::Ev::LoopPanicked(_))).count() as u64);
        if evs.iter().filter(|e| matches!(e, lsp::Ev::LoopPanicked(_))).count() > hostile_sent {
            let msg = evs.iter().find_map(|e| if let lsp::Ev::LoopPanicked(m) = e { Some(m.clone()) } else { None }).unwrap_or_default();
            rep.violate("loop-thread-panicked", "notification", msg, json!({"library": lib, "script": script}));
        }
        if dead {
            s.kill();
        } else {
            let ok = s.shutdown();
            rep.count("shutdowns", 1);
            if !ok {
                rep.violate("unclean-shutdown", "shutdown/exit", "main_loop did not return Ok after shutdown + exit".into(), json!({"library": lib, "script": script}));
            }
        }
        if case < 2 {
            rep.sample = Some(json!({"script": script.iter().take(8).collect::<Vec<_>>() }));
        }
        rep
    }
}
