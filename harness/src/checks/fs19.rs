//! C19: on-disk normalize rewrites notes in place and never leaves a damaged file.
//! The real `iwe` binary on a real directory; faults injected at syscall granularity with strace.

use crate::checks::norm::export_lib;
use crate::libgen::{self, LibOpts};
use crate::mon::{self, CaseReport, Check, Plan, Tier};
use crate::rng::{fnv, Rng};
use serde_json::json;
use std::collections::BTreeMap;
use std::path::{Path, PathBuf};
use std::process::Command;

pub struct C19;

fn iwe_bin() -> PathBuf {
    mon::verif_root().join("harness/target/repo/release/iwe")
}

fn snapshot(dir: &Path) -> BTreeMap<String, Vec<u8>> {
    fn rec(base: &Path, d: &Path, out: &mut BTreeMap<String, Vec<u8>>) {
        if let Ok(rd) = std::fs::read_dir(d) {
            for e in rd.flatten() {
                let p = e.path();
                if p.is_dir() {
                    out.insert(format!("{}/", p.strip_prefix(base).unwrap().to_string_lossy()), vec![]);
                    rec(base, &p, out);
                } else {
                    out.insert(p.strip_prefix(base).unwrap().to_string_lossy().to_string(), std::fs::read(&p).unwrap_or_default());
                }
            }
        }
    }
    let mut out = BTreeMap::new();
    rec(dir, dir, &mut out);
    out
}

fn write_tree(dir: &Path, files: &BTreeMap<String, Vec<u8>>) {
    let _ = std::fs::remove_dir_all(dir);
    std::fs::create_dir_all(dir).unwrap();
    for (rel, content) in files {
        let p = dir.join(rel);
        if rel.ends_with('/') {
            std::fs::create_dir_all(&p).unwrap();
            continue;
        }
        std::fs::create_dir_all(p.parent().unwrap()).unwrap();
        std::fs::write(&p, content).unwrap();
    }
    // a non-note file that shares its inode with a note (a backup made with `ln`): rewriting the note in place would
    // rewrite it too
    if files.contains_key("big.md") {
        let _ = std::fs::hard_link(dir.join("big.md"), dir.join("big-hardlink.bak"));
    }
    // a private note keeps its mode; a note that is a symbolic link stays one
    if files.contains_key("ends-without-newline.md") {
        use std::os::unix::fs::PermissionsExt;
        let _ = std::fs::set_permissions(dir.join("ends-without-newline.md"), std::fs::Permissions::from_mode(0o600));
    }
    // ... and, when the check runs as root, belongs to somebody else (normalize run with sudo, or in a container over a
    // bind-mounted library): it must stay that user's note
    if files.contains_key("ends-without-newline.md") {
        let _ = std::os::unix::fs::chown(dir.join("ends-without-newline.md"), Some(1000), Some(1000));
    }
    // a note of one's own that is shared with a group (not the primary one): it stays in that group
    if files.contains_key("big.md") {
        let _ = std::os::unix::fs::chown(dir.join("big.md"), None, Some(54321));
    }
    if files.contains_key("sub dir/crlf note.md") {
        let _ = std::fs::create_dir_all(dir.join("elsewhere-in-lib"));
        let _ = std::fs::rename(dir.join("sub dir/crlf note.md"), dir.join("elsewhere-in-lib/real-file.txt"));
        let _ = std::os::unix::fs::symlink("../elsewhere-in-lib/real-file.txt", dir.join("sub dir/crlf note.md"));
    }
}

struct Tree {
    files: BTreeMap<String, Vec<u8>>,
    /// note path -> (old text, new text the in-memory export defines)
    notes: BTreeMap<String, (String, String)>,
}

fn gen_tree(rng: &mut Rng, tier: Tier) -> Tree {
    let mut o = LibOpts::clean();
    o.min_notes = 3;
    o.max_notes = tier.pick(6, 9);
    o.subdirs = false;
    o.profile.max_blocks = 10;
    o.profile.long_lists = 0;
    o.crlf = false;
    let lib = libgen::gen_lib(rng, &o).texts;
    // re-home the notes under directories / names with spaces and unicode
    let dirs = ["", "sub dir/", "d1/e1/", "ünï/", "rel-1.0/", "2024.01/w.x/"];
    let mut texts: BTreeMap<String, String> = BTreeMap::new();
    let mut rename: BTreeMap<String, String> = BTreeMap::new();
    for (i, k) in lib.keys().enumerate() {
        let name = match i % 4 {
            0 => format!("{}", k),
            1 => format!("note {}", k),
            2 => format!("ñ{}", k),
            _ => format!("v1.2-{}", k),
        };
        rename.insert(k.clone(), format!("{}{}", dirs[rng.below(dirs.len())], name));
    }
    for (k, t) in &lib {
        let t2 = t.clone();
        texts.insert(rename[k].clone(), t2);
    }
    // one big note (so that byte budgets fall inside a file) and one already normalised
    let big: String = (0..400).map(|i| format!("paragraph number {} of the big note\n\n", i)).collect();
    texts.insert("big".into(), format!("# Big\n\n{}", big));
    let expected = export_lib(&texts, "");
    if let Some((k, v)) = expected.iter().next() {
        texts.insert(k.clone(), v.clone());
    }
    // notes that are in normal form except for their line endings: no newline at the end of the file, CRLF throughout
    // (the file must still end up holding exactly what the export defines)
    texts.insert("ends-without-newline".into(), "# Title\n\ntext without a final newline".into());
    // a name as long as the file system allows (250 bytes + ".md"): replacing it must not need a longer name
    texts.insert("l".repeat(250), "# Long\n\n*  item\n".into());
    texts.insert("sub dir/crlf note".into(), "# Title\r\n\r\n- one\r\n- two\r\n".into());
    let expected = export_lib(&texts, "");
    let mut files: BTreeMap<String, Vec<u8>> = BTreeMap::new();
    let mut notes = BTreeMap::new();
    for (k, t) in &texts {
        files.insert(format!("{}.md", k), t.as_bytes().to_vec());
        notes.insert(format!("{}.md", k), (t.clone(), expected[k].clone()));
    }
    files.insert("readme.txt".into(), b"not a note\n".to_vec());
    files.insert("sub dir/image.png".into(), vec![0x89, b'P', b'N', b'G', 0, 1, 2]);
    files.insert("d1/notes.md.bak".into(), b"# backup, not a note\n".to_vec());
    files.insert("empty dir/".into(), vec![]);
    Tree { files, notes }
}

/// strace prints non-ASCII bytes as octal escapes
fn unescape(s: &str) -> String {
    let b = s.as_bytes();
    let mut out: Vec<u8> = vec![];
    let mut i = 0;
    while i < b.len() {
        if b[i] == b'\\' && i + 3 < b.len() + 0 && b[i + 1].is_ascii_digit() {
            let mut j = i + 1;
            let mut v: u32 = 0;
            while j < b.len() && j < i + 4 && (b'0'..=b'7').contains(&b[j]) {
                v = v * 8 + (b[j] - b'0') as u32;
                j += 1;
            }
            out.push(v as u8);
            i = j;
        } else {
            out.push(b[i]);
            i += 1;
        }
    }
    String::from_utf8_lossy(&out).to_string()
}

struct Run {
    status: String,
    after: BTreeMap<String, Vec<u8>>,
    strace: String,
}

fn run_iwe(dir: &Path, inject: Option<&str>, fsize_blocks: Option<u64>, log: &Path) -> Run {
    let bin = iwe_bin();
    let mut cmd = Command::new("strace");
    cmd.arg("-f").arg("-qq").arg("-e").arg("trace=openat,write,pwrite64,writev,copy_file_range,sendfile,close,fsync,fdatasync,rename,renameat,renameat2,unlink,unlinkat,mkdir,mkdirat,ftruncate,truncate,link,linkat,symlink,symlinkat").arg("-o").arg(log);
    if let Some(i) = inject {
        cmd.arg("-e").arg(format!("inject={}", i));
    }
    match fsize_blocks {
        Some(b) => {
            cmd.arg("sh").arg("-c").arg(format!("ulimit -f {}; exec \"{}\" normalize", b, bin.display()));
        }
        None => {
            cmd.arg(&bin).arg("normalize");
        }
    }
    let out = cmd.current_dir(dir).env("RAYON_NUM_THREADS", "2").env_remove("IWE_DEBUG").output();
    let status = match &out {
        Ok(o) => format!("{}", o.status),
        Err(e) => format!("spawn error {}", e),
    };
    Run {
        status,
        after: snapshot(dir),
        strace: std::fs::read_to_string(log).unwrap_or_default(),
    }
}

/// every note file holds its complete old or complete new text
fn damaged(tree: &Tree, after: &BTreeMap<String, Vec<u8>>) -> Vec<String> {
    let mut v = vec![];
    for (path, (old, new)) in &tree.notes {
        match after.get(path) {
            None => v.push(format!("{} disappeared", path)),
            Some(c) => {
                if c != old.as_bytes() && c != new.as_bytes() {
                    v.push(format!("{}: {} bytes, neither the old ({} bytes) nor the new ({} bytes) text{}", path, c.len(), old.len(), new.len(), if c.is_empty() { " — EMPTY" } else if new.as_bytes().starts_with(c) { " — truncated new text" } else { "" }));
                }
            }
        }
    }
    v
}

impl Check for C19 {
    fn id(&self) -> &'static str {
        "C19"
    }
    fn level(&self) -> &'static str {
        "fault_enumeration"
    }
    fn rule(&self) -> String {
        "case = one generated directory tree (nested and dotted directories, names with spaces / non-ASCII / dots, non-note files, an empty directory, a big note with a hard-linked backup, an already-normalised note, a note without a final newline, a CRLF note) processed by the built `iwe normalize` binary under strace; fault-free run: every *.md holds exactly the in-memory export at the path it was read from, nothing else created / deleted / modified, no write-mode open outside the notes; faulted runs enumerate EVERY file-system syscall the main thread makes from its first write-mode open on (openat, write, close, rename, and whatever else the write path uses: copy_file_range, sendfile, fsync, unlink ...; strace counts per tracee): SIGKILL on entry to each, ENOSPC on each data-moving one, and RLIMIT_FSIZE budgets; a hard link to a note (a backup made with ln) must keep its old content; after each, every note file must hold its complete old or complete new text; trace specification on the fault-free run: a file renamed over a note was flushed (fsync / fdatasync on its descriptor) before the rename; a private note keeps mode and (run as root) owner, a symbolic-link note stays a link; one case runs projects whose .iwe/config.toml keeps the library in notes/ (partial, library-only, syntactically broken, not UTF-8 and misspelt configurations): nothing outside notes/ is touched; distinct = (fault kind, k) crash points".into()
    }
    fn assumptions(&self) -> Vec<String> {
        vec![
            "crash points at syscall granularity (strace fault injection); power-loss reordering of completed writes is out of reach".into(),
            "expected content = Graph::import/export of the tree's texts computed in the harness process".into(),
            "a write error that a write-behind file system reports only at flush time (NFS, quotas) is not injected; instead the trace must show the flush that would surface it before the note is replaced".into(),
        ]
    }
    fn plan(&self, tier: Tier, _seed: u64) -> Plan {
        Plan {
            cases: tier.pick(2, 30) + 3,
            procs: tier.pick(2, 16),
            wall_s: 1200,
            cpu_s: None,
        }
    }
    fn min_events(&self, tier: Tier) -> u64 {
        tier.pick(40, 600)
    }
    fn run_case(&self, tier: Tier, seed: u64, case: u64) -> CaseReport {
        let mut rep = CaseReport::new(case);
        let mut rng = Rng::for_case(seed, "c19", case);
        if !iwe_bin().exists() {
            rep.inconclusive.push(format!("{} not built", iwe_bin().display()));
            return rep;
        }
        if case + 2 == tier.pick(2, 30) + 2 {
            // pinned reproducer (open finding): a file name that is not valid UTF-8 (Latin-1 "café.md")
            use std::os::unix::ffi::OsStrExt;
            let dir = mon::scratch_dir("c19");
            let log = dir.with_extension("strace");
            let _ = std::fs::remove_dir_all(&dir);
            std::fs::create_dir_all(&dir).unwrap();
            let name = std::ffi::OsStr::from_bytes(b"caf\xe9.md");
            std::fs::write(dir.join(name), b"# cafe\n\n*  item\n").unwrap();
            std::fs::write(dir.join("other.md"), b"# other\n").unwrap();
            let _ = run_iwe(&dir, None, None, &log);
            rep.count("events", 1);
            rep.count("pinned_reproducers", 1);
            rep.shape(fnv("pinned:non-utf8-name"));
            let names: Vec<Vec<u8>> = std::fs::read_dir(&dir).map(|rd| rd.flatten().map(|e| e.file_name().as_bytes().to_vec()).collect()).unwrap_or_default();
            let content = std::fs::read(dir.join(name)).unwrap_or_default();
            if names.len() != 2 || content != b"# cafe\n\n- item\n" {
                rep.violate("written-to-other-path", "pinned:non-utf8-name", format!("after normalize the directory holds {:?}; the note read from caf\\xe9.md holds {:?}", names.iter().map(|n| String::from_utf8_lossy(n).to_string()).collect::<Vec<_>>(), String::from_utf8_lossy(&content)), json!({"files": ["caf\\xe9.md", "other.md"]}));
            }
            let _ = std::fs::remove_dir_all(&dir);
            let _ = std::fs::remove_file(&log);
            return rep;
        }
        if case == tier.pick(2, 30) + 2 {
            // a project whose configuration keeps the library in notes/: files outside of it are not the command's business,
            // whether the configuration is complete, leaves tables out, or cannot be read at all
            let configs: [(&str, &str); 5] = [
                // (not UTF-8: a Latin-1 byte in a comment; a misspelt table name)
                ("not-utf8", "# biblioth\u{e8}que\n[library]\npath = \"notes\"\n"),
                ("misspelt-table", "[libary]\npath = \"notes\"\n"),
                ("partial", "prompt_key_prefix = \"prompt\"\n[markdown]\nrefs_extension = \".md\"\n[library]\npath = \"notes\"\n"),
                ("syntax-error", "[library]\npath = \"notes\n"),
                ("library-only", "[library]\npath = \"notes\"\n"),
            ];
            for (class, config) in configs {
                let dir = mon::scratch_dir("c19");
                let log = dir.with_extension("strace");
                let mut files = BTreeMap::new();
                files.insert(".iwe/config.toml".to_string(), if class == "not-utf8" { config.chars().map(|c| c as u32 as u8).collect() } else { config.as_bytes().to_vec() });
                files.insert("notes/a.md".to_string(), b"# A\n\n*  item\n\n[t](b.md)\n".to_vec());
                files.insert("notes/b.md".to_string(), b"# B\n".to_vec());
                files.insert("README.md".to_string(), b"Readme\n======\n\n* x\n".to_vec());
                files.insert("docs/guide.md".to_string(), b"Guide\n=====\n\n*  y\n".to_vec());
                write_tree(&dir, &files);
                let r = run_iwe(&dir, None, None, &log);
                rep.count("events", 1);
                rep.count("configured_library_runs", 1);
                rep.shape(fnv(&format!("configured:{}", class)));
                for outside in ["README.md", "docs/guide.md", ".iwe/config.toml"] {
                    if r.after.get(outside) != files.get(outside) {
                        rep.violate("file-outside-library-modified", &format!("config:{}", class), format!("{} lies outside the configured library notes/ and was rewritten by `iwe normalize` ({}): {:?}", outside, r.status, r.after.get(outside).map(|c| String::from_utf8_lossy(c).to_string())), json!({"config": config, "files": files.keys().collect::<Vec<_>>()}));
                    }
                }
                if class == "partial" || class == "library-only" {
                    // the library itself is normalised, with the configured extension kept on the link
                    let a = r.after.get("notes/a.md").map(|c| String::from_utf8_lossy(c).to_string()).unwrap_or_default();
                    let want = if class == "partial" { "# A\n\n- item\n\n[B](b.md)\n" } else { "# A\n\n- item\n\n[B](b)\n" };
                    if a != want {
                        rep.violate("configured-library-not-normalised", &format!("config:{}", class), format!("notes/a.md holds {:?}, expected {:?} ({})", a, want, r.status), json!({"config": config}));
                    }
                }
                let _ = std::fs::remove_dir_all(&dir);
                let _ = std::fs::remove_file(&log);
            }
            return rep;
        }
        if case + 1 == tier.pick(2, 30) + 2 {
            // pinned reproducer: a note file named dd.md.md
            let dir = mon::scratch_dir("c19");
            let log = dir.with_extension("strace");
            let mut files = BTreeMap::new();
            files.insert("dd.md.md".to_string(), b"# T\n\n\n\n*  text\n".to_vec());
            write_tree(&dir, &files);
            let r = run_iwe(&dir, None, None, &log);
            rep.count("events", 1);
            rep.count("pinned_reproducers", 1);
            rep.shape(fnv("pinned:md-md"));
            rep.shape(fnv("pinned:md-md:2"));
            let want = b"# T\n\n- text\n".to_vec();
            if r.after.get("dd.md.md") != Some(&want) || r.after.len() != 1 {
                rep.violate("written-to-other-path", "pinned:md-md", format!("after normalize the directory holds {:?}; dd.md.md = {:?}", r.after.keys().collect::<Vec<_>>(), r.after.get("dd.md.md").map(|c| String::from_utf8_lossy(c).to_string())), json!({"files": ["dd.md.md"]}));
            }
            let _ = std::fs::remove_dir_all(&dir);
            let _ = std::fs::remove_file(&log);
            return rep;
        }
        let tree = gen_tree(&mut rng, tier);
        let dir = mon::scratch_dir("c19");
        let log = dir.with_extension("strace");
        let replay = json!({"files": tree.files.keys().collect::<Vec<_>>(), "notes": tree.notes.iter().map(|(k, v)| (k.clone(), v.0.clone())).collect::<BTreeMap<_, _>>() });
        // ---- fault-free run
        write_tree(&dir, &tree.files);
        let before = snapshot(&dir);
        let mtimes = |d: &Path| -> BTreeMap<String, std::time::SystemTime> {
            tree.files
                .keys()
                .filter(|k| !k.ends_with('/') && !tree.notes.contains_key(*k))
                .filter_map(|k| std::fs::metadata(d.join(k)).and_then(|m| m.modified()).ok().map(|t| (k.clone(), t)))
                .collect()
        };
        let m0 = mtimes(&dir);
        let owner0: Option<(u32, u32)> = {
            use std::os::unix::fs::MetadataExt;
            std::fs::metadata(dir.join("ends-without-newline.md")).ok().map(|m| (m.uid(), m.gid()))
        };
        let group0: Option<u32> = {
            use std::os::unix::fs::MetadataExt;
            std::fs::metadata(dir.join("big.md")).ok().map(|m| m.gid())
        };
        std::thread::sleep(std::time::Duration::from_millis(15));
        let base = run_iwe(&dir, None, None, &log);
        for (k, t) in mtimes(&dir) {
            if m0.get(&k) != Some(&t) {
                rep.violate("non-note-touched", "fault-free", format!("{}: modification time changed", k), replay.clone());
            }
        }
        rep.count("events", 1);
        if !base.status.contains("exit status: 0") {
            rep.violate("normalize-failed", "fault-free", format!("iwe normalize: {}", base.status), replay.clone());
        }
        for (path, (_, new)) in &tree.notes {
            match base.after.get(path) {
                Some(c) if c == new.as_bytes() => {}
                Some(c) => rep.violate("note-not-export-content", "fault-free", format!("{} holds {} bytes, the in-memory export defines {} bytes: {:?}", path, c.len(), new.len(), String::from_utf8_lossy(c).chars().take(80).collect::<String>()), replay.clone()),
                None => rep.violate("note-missing-after-normalize", "fault-free", path.clone(), replay.clone()),
            }
        }
        for (path, c) in &base.after {
            // (the file a symbolic-link note points to is that note's storage)
            if tree.notes.contains_key(path) || path == "elsewhere-in-lib/real-file.txt" {
                continue;
            }
            match before.get(path) {
                None => rep.violate("file-created", "fault-free", format!("{} was created", path), replay.clone()),
                Some(b) if b != c => rep.violate("non-note-modified", "fault-free", format!("{} was modified", path), replay.clone()),
                _ => {}
            }
        }
        // identity of the files: a private note stays private, a note behind a symbolic link stays a link
        {
            use std::os::unix::fs::PermissionsExt;
            if let Ok(m) = std::fs::metadata(dir.join("ends-without-newline.md")) {
                if m.permissions().mode() & 0o777 != 0o600 {
                    rep.violate("note-mode-changed", "fault-free", format!("a note with mode 0600 has mode {:o} after normalize", m.permissions().mode() & 0o777), replay.clone());
                }
            }
            if let (Some(o0), Ok(m)) = (owner0, std::fs::metadata(dir.join("ends-without-newline.md"))) {
                use std::os::unix::fs::MetadataExt;
                rep.count("owner_checks", 1);
                if (m.uid(), m.gid()) != o0 {
                    rep.violate("note-owner-changed", "fault-free", format!("a note owned by {:?} belongs to ({}, {}) after normalize", o0, m.uid(), m.gid()), replay.clone());
                }
            }
            if let (Some(g0), Ok(m)) = (group0, std::fs::metadata(dir.join("big.md"))) {
                use std::os::unix::fs::MetadataExt;
                rep.count("group_checks", 1);
                if m.gid() != g0 {
                    rep.violate("note-group-changed", "fault-free", format!("a note in group {} is in group {} after normalize", g0, m.gid()), replay.clone());
                }
            }
            if let Ok(m) = std::fs::symlink_metadata(dir.join("sub dir/crlf note.md")) {
                if !m.file_type().is_symlink() {
                    rep.violate("symlink-replaced", "fault-free", "a note that is a symbolic link is a regular file after normalize (the file it pointed to keeps the old text)".into(), replay.clone());
                }
            }
        }
        for path in before.keys() {
            if !base.after.contains_key(path) {
                rep.violate("file-deleted", "fault-free", format!("{} was deleted", path), replay.clone());
            }
        }
        // write-mode opens only on the notes read
        let mut write_opens = 0usize;
        let mut writes = 0usize;
        let mut renames = 0usize;
        let mut first_write_open: Option<usize> = None;
        let mut openats = 0usize;
        for l in base.strace.lines() {
            if l.contains("openat(") {
                openats += 1;
                if l.contains("O_WRONLY") || l.contains("O_RDWR") {
                    write_opens += 1;
                    if first_write_open.is_none() {
                        first_write_open = Some(openats);
                    }
                    let path = unescape(l.split('"').nth(1).unwrap_or(""));
                    let path = path.as_str();
                    let rel = path.trim_start_matches("./");
                    let is_note = tree.notes.keys().any(|n| rel.ends_with(n.as_str()));
                    // the temporary file a note is replaced through: next to a note, named after it or ".iwe-tmp-<pid>"
                    let is_tmp_of_note = tree.notes.keys().any(|n| rel.contains(n.trim_end_matches(".md")))
                        || rel.rsplit('/').next().map(|f| f.starts_with(".iwe-tmp-")).unwrap_or(false);
                    if !is_note && !is_tmp_of_note && !path.starts_with("/dev/") && !path.starts_with("/proc/") && !path.is_empty() {
                        rep.violate("write-open-outside-notes", "fault-free", format!("write-mode open of {}", path), replay.clone());
                    }
                }
            }
            if l.contains("write(") && !l.contains("write(1,") && !l.contains("write(2,") {
                writes += 1;
            }
            if l.contains("rename") {
                renames += 1;
            }
        }
        // trace specification: a file that is renamed over a note has been flushed (fsync / fdatasync on the descriptor it was
        // written through) before the rename - on a file system that writes behind, a full disk or an exceeded quota is
        // only reported by the flush, and a rename without it can put an empty file in the note's place
        {
            let mut fd_path: BTreeMap<(String, String), String> = BTreeMap::new(); // (pid, fd) -> path opened for writing
            let mut flushed: BTreeMap<String, bool> = BTreeMap::new(); // path -> flushed since last write-open
            let mut unflushed_renames = 0usize;
            let mut flushed_renames = 0usize;
            for l in base.strace.lines() {
                let pid = l.split_whitespace().next().unwrap_or("").to_string();
                if l.contains("openat(") && (l.contains("O_WRONLY") || l.contains("O_RDWR")) {
                    let path = unescape(l.split('"').nth(1).unwrap_or(""));
                    if let Some(fd) = l.rsplit("= ").next().map(|x| x.trim().to_string()) {
                        if fd.chars().all(|c| c.is_ascii_digit()) && !fd.is_empty() {
                            fd_path.insert((pid.clone(), fd), path.clone());
                            flushed.insert(path, false);
                        }
                    }
                } else if l.contains("fsync(") || l.contains("fdatasync(") {
                    let fd = l.split('(').nth(1).unwrap_or("").split(')').next().unwrap_or("").trim().to_string();
                    if l.trim_end().ends_with("= 0") {
                        // (threads share descriptors: match on the descriptor alone when the pid differs)
                        let hit = fd_path.iter().find(|((p, f), _)| *f == fd && *p == pid).or_else(|| fd_path.iter().find(|((_, f), _)| *f == fd)).map(|(_, path)| path.clone());
                        if let Some(path) = hit {
                            flushed.insert(path, true);
                        }
                    }
                } else if l.contains("rename") && l.trim_end().ends_with("= 0") {
                    let src = unescape(l.split('"').nth(1).unwrap_or(""));
                    let dst = unescape(l.split('"').nth(3).unwrap_or(""));
                    let dst_is_note = tree.notes.keys().any(|n| dst.trim_start_matches("./").ends_with(n.as_str())) || dst.ends_with("real-file.txt");
                    if dst_is_note {
                        match flushed.get(&src) {
                            Some(true) => flushed_renames += 1,
                            _ => {
                                unflushed_renames += 1;
                                if unflushed_renames == 1 {
                                    rep.violate("replaced-without-flush", "fault-free", format!("{} was renamed over the note {} without having been flushed (no successful fsync / fdatasync on its descriptor)", src, dst), replay.clone());
                                }
                            }
                        }
                    }
                }
            }
            rep.count("flushed_replacements", flushed_renames as u64);
        }
        rep.count("write_mode_opens", write_opens as u64);
        rep.count("file_writes", writes as u64);
        rep.count("renames", renames as u64);
        let _ = (first_write_open, openats);
        // ---- faulted runs: every syscall of the write phase. strace counts `when=` per tracee, and the notes are written by
        // the main thread: walk the main thread's lines, count per syscall name, and from its first write-mode open on turn
        // every file-system syscall into a crash point (SIGKILL on entry) - whatever the write path is made of (write, rename,
        // copy_file_range, sendfile, close ...); data-moving calls also get ENOSPC
        let mut faults: Vec<(String, Option<String>, Option<u64>)> = vec![];
        let main_pid = base.strace.lines().next().and_then(|l| l.split_whitespace().next()).unwrap_or("").to_string();
        let mut per_name: std::collections::HashMap<String, usize> = std::collections::HashMap::new();
        let mut in_write_phase = false;
        for l in base.strace.lines() {
            let mut it = l.splitn(2, char::is_whitespace);
            let (pid, rest) = (it.next().unwrap_or(""), it.next().unwrap_or("").trim_start());
            if pid != main_pid || rest.starts_with('<') || rest.starts_with('+') || rest.starts_with('-') {
                continue;
            }
            let Some(name) = rest.split('(').next().map(|n| n.trim().to_string()) else { continue };
            if name.is_empty() || !name.chars().all(|c| c.is_ascii_alphanumeric() || c == '_') {
                continue;
            }
            let k = {
                let e = per_name.entry(name.clone()).or_insert(0);
                *e += 1;
                *e
            };
            if !in_write_phase && name == "openat" && (l.contains("O_WRONLY") || l.contains("O_RDWR")) {
                in_write_phase = true;
            }
            if !in_write_phase || rest.starts_with("write(1,") || rest.starts_with("write(2,") {
                continue;
            }
            faults.push((format!("kill@{}#{}", name, k), Some(format!("{}:signal=KILL:when={}", name, k)), None));
            if matches!(name.as_str(), "write" | "pwrite64" | "writev" | "copy_file_range" | "sendfile") {
                faults.push((format!("enospc@{}#{}", name, k), Some(format!("{}:error=ENOSPC:when={}", name, k)), None));
            }
        }
        rep.count("crash_points_in_write_phase", faults.len() as u64);
        for b in [1u64, 4, 8] {
            faults.push((format!("fsize@{}blocks", b), None, Some(b)));
        }
        let cap = tier.pick(80, 400);
        if faults.len() > cap {
            // keep the enumeration complete for openat / rename, thin out the write points evenly
            let step = (faults.len() + cap - 1) / cap;
            faults = faults.into_iter().enumerate().filter(|(i, f)| i % step == 0 || !(f.0.contains("write#") || f.0.contains("close#"))).map(|(_, f)| f).collect();
        }
        for (name, inject, fsize) in faults {
            write_tree(&dir, &tree.files);
            let r = run_iwe(&dir, inject.as_deref(), fsize, &log);
            rep.count("events", 1);
            rep.count("faulted_runs", 1);
            let kind = name.split('#').next().unwrap_or(&name).split("@").next().unwrap_or("").to_string() + "@" + name.split('@').nth(1).unwrap_or("").split('#').next().unwrap_or("");
            rep.shape(fnv(&name));
            let d = damaged(&tree, &r.after);
            if !d.is_empty() {
                rep.violate("note-damaged-after-fault", &kind, format!("fault {} ({}): {}", name, r.status, d.join("; ")), json!({"fault": name, "files": replay["files"]}));
            }
            // nothing but notes (and, in killed runs, temporaries next to them) may change
            for (path, c) in &r.after {
                if tree.notes.contains_key(path) || path == "elsewhere-in-lib/real-file.txt" {
                    continue;
                }
                match before.get(path) {
                    None => {
                        let tmp_ok = tree.notes.keys().any(|n| path.contains(n.trim_end_matches(".md")))
                            || path.rsplit('/').next().map(|f| f.starts_with(".iwe-tmp-")).unwrap_or(false);
                        if !tmp_ok {
                            rep.violate("file-created", &kind, format!("fault {}: {} was created", name, path), replay.clone());
                        }
                    }
                    Some(b) if b != c => rep.violate("non-note-modified", &kind, format!("fault {}: {} was modified", name, path), replay.clone()),
                    _ => {}
                }
            }
        }
        let _ = std::fs::remove_dir_all(&dir);
        let _ = std::fs::remove_file(&log);
        if case < 1 {
            rep.sample = Some(json!({"tree": tree.files.keys().collect::<Vec<_>>(), "write_phase": {"write_mode_opens": write_opens, "writes": writes, "renames": renames}}));
        }
        rep
    }
}
