//! C13: positions sent and received refer to the right place in the editor's text.

use crate::lsp::{self, Outcome, Server};
use crate::mdscan::{self, AKind, LKind, Scan};
use crate::mon::{self, CaseReport, Check, Plan, Tier};
use crate::rng::{fnv, Rng};
use serde_json::{json, Value};
use std::collections::BTreeMap;

pub struct C13;

const ASCII: &[&str] = &["alpha", "beta", "gamma", "delta", "x", "longerword"];
const WIDE: &[&str] = &["über", "naïve", "日本語", "слово", "😀", "𝒳𝒴", "é"];

struct DocGen<'a> {
    rng: &'a mut Rng,
    n: usize,
    wide: bool,
    dests: Vec<String>,
    /// reference definitions collected for reference-style links
    defs: Vec<String>,
}

impl<'a> DocGen<'a> {
    fn word(&mut self) -> String {
        self.n += 1;
        let w = if self.wide && self.rng.chance(1, 3) {
            *self.rng.pick(WIDE)
        } else {
            *self.rng.pick(ASCII)
        };
        format!("{}{}", w, self.n)
    }
    fn link(&mut self) -> String {
        self.n += 1;
        // unique destination per link so that a response identifies the link acted upon
        let dest = format!("t{}", self.n);
        self.dests.push(dest.clone());
        let text = if self.rng.chance(1, 3) {
            format!("{} {}", self.word(), self.word())
        } else {
            self.word()
        };
        match self.rng.below(10) {
            0 => format!("[[{}]]", dest),
            1 => format!("[[{}|{}]]", dest, text),
            2 => format!("[{}]({} \"{}\")", text, dest, self.word()),
            3 => format!("[*{}*]({})", text, dest),
            4 => match self.rng.below(7) {
                0 => format!("[{}](<{}>)", text, dest),
                1 => format!("[{}]( {} )", text, dest),
                // the destination may start the next line
                5 => format!("[{}](\n{})", text, dest),
                // an ordinary link whose text begins with a bracket (a tag in front of a title)
                6 => format!("[[WIP] {}]({})", text, dest),
                2 => format!("[**{}** `{}`]({})", text, self.word(), dest),
                3 => format!("[![{}](img/{}.png) {}]({})", self.word(), self.n, text, dest),
                _ => format!("[{} \\[x\\]]({})", text, dest),
            },
            // reference-style links (full, collapsed, shortcut): the destination is written elsewhere
            5 if self.rng.chance(1, 2) => {
                let label = format!("r{}", self.n);
                self.defs.push(format!("[{}]: {}", label, dest));
                match self.rng.below(3) {
                    0 => format!("[{}][{}]", text, label),
                    1 => format!("[{}][]", label),
                    _ => format!("[{}]", label),
                }
            }
            _ => format!("[{}]({})", text, dest),
        }
    }
    fn line(&mut self) -> String {
        let k = self.rng.range(1, 6);
        let mut parts = vec![];
        for _ in 0..k {
            if self.rng.chance(1, 3) {
                parts.push(self.link());
            } else {
                parts.push(self.word());
            }
        }
        parts.join(" ")
    }
    fn doc(&mut self, crlf: bool) -> String {
        let mut lines: Vec<String> = vec![];
        lines.push(format!("# {}", self.line()));
        let blocks = self.rng.range(2, 7);
        for _ in 0..blocks {
            lines.push(String::new());
            match self.rng.below(8) {
                0 => lines.push(format!("## {}", self.line())),
                1 | 2 => {
                    for _ in 0..self.rng.range(1, 3) {
                        lines.push(self.line());
                    }
                    // a link whose text wraps across two lines of the paragraph
                    if self.rng.chance(1, 3) {
                        self.n += 1;
                        let dest = format!("t{}", self.n);
                        self.dests.push(dest.clone());
                        let (a, b, c, d) = (self.word(), self.word(), self.word(), self.word());
                        lines.push(format!("{} [{}", a, b));
                        lines.push(format!("{}]({}) {}", c, dest, d));
                        if self.rng.chance(1, 2) {
                            lines.push(self.line());
                        }
                    }
                }
                3 | 4 => {
                    let ordered = self.rng.chance(1, 2);
                    for i in 0..self.rng.range(1, 4) {
                        let m = if ordered { format!("{}. ", i + 1) } else { "- ".to_string() };
                        lines.push(format!("{}{}", m, self.line()));
                        if self.rng.chance(1, 6) {
                            // the item's text ends in a link that wraps onto a second line
                            self.n += 1;
                            let dest = format!("t{}", self.n);
                            self.dests.push(dest.clone());
                            let (a, b) = (self.word(), self.word());
                            let last = lines.pop().unwrap();
                            lines.push(format!("{} [{}", last, a));
                            lines.push(format!("{}{}]({})", " ".repeat(m.len()), b, dest));
                        } else if self.rng.chance(1, 4) {
                            lines.push(format!("{}{}", " ".repeat(m.len()), self.line()));
                        }
                        if self.rng.chance(1, 4) {
                            lines.push(format!("{}- {}", " ".repeat(m.len()), self.line()));
                        }
                    }
                }
                5 => {
                    // block reference
                    self.n += 1;
                    let dest = format!("t{}", self.n);
                    self.dests.push(dest.clone());
                    lines.push(format!("[{}]({})", self.word(), dest));
                }
                6 => {
                    lines.push(format!("> {}", self.line()));
                    lines.push(format!("> {}", self.line()));
                    // lists, a heading and a block reference inside the quote
                    match self.rng.below(4) {
                        0 => {
                            lines.push(">".into());
                            lines.push(format!("> - {}", self.line()));
                            lines.push(format!("> - {}", self.line()));
                        }
                        1 => {
                            lines.push(">".into());
                            self.n += 1;
                            let dest = format!("t{}", self.n);
                            self.dests.push(dest.clone());
                            lines.push(format!("> [{}]({})", self.word(), dest));
                        }
                        2 => {
                            lines.push(">".into());
                            lines.push(format!("> # {}", self.word()));
                            lines.push(">".into());
                            lines.push(format!("> {}", self.word()));
                        }
                        _ => {}
                    }
                }
                _ => {
                    lines.push("```".into());
                    lines.push(self.word());
                    lines.push("```".into());
                }
            }
        }
        let nl = if crlf { "\r\n" } else { "\n" };
        // one document in three ends in a link with no line ending after it (the last byte of the text is the link's ")")
        let ends_in_link = self.rng.chance(1, 3);
        if ends_in_link {
            lines.push(String::new());
            if self.rng.chance(1, 2) {
                // a paragraph of two lines: the last line of the file is the second line of a block
                lines.push(self.line());
            }
            let (w, l) = (self.word(), self.link());
            lines.push(format!("{} {}", w, l));
        }
        if !self.defs.is_empty() {
            let mut ins = vec![String::new()];
            ins.extend(self.defs.drain(..));
            lines.splice(1..1, ins);
        }
        let mut s = lines.join(nl);
        if !ends_in_link {
            s.push_str(nl);
        }
        s
    }
}

fn pos_of(text: &str, scan: &Scan, byte: usize) -> (usize, usize) {
    mdscan::position(text, &scan.line_starts, byte)
}

/// utf16 column -> is it inside [start, end) given both on the same line
fn dest_span(text: &str, l: &mdscan::LinkOcc) -> Option<(usize, usize)> {
    let src = &text[l.range.clone()];
    // wiki links: the destination follows the opening brackets
    if matches!(l.kind, LKind::Wiki | LKind::WikiPiped) {
        if src.starts_with("[[") && src[2..].starts_with(&l.dest) {
            return Some((l.range.start + 2, l.range.start + 2 + l.dest.len()));
        }
        return None;
    }
    // `[text](url)` shaped links: the destination is what follows the "](" that closes the link text (the last one that
    // is followed by the destination, optionally after spaces or an opening angle bracket)
    if l.kind != LKind::Inline || !src.starts_with('[') || !src.ends_with(')') {
        return None;
    }
    let mut found = None;
    for (i, _) in src.match_indices("](") {
        let mut open = i + 2;
        while src[open..].starts_with(' ') || src[open..].starts_with('<') || src[open..].starts_with('\n') || src[open..].starts_with('\r') {
            open += 1;
        }
        let rest = &src[open..];
        if rest.starts_with(&l.dest) && matches!(rest[l.dest.len()..].chars().next(), Some(')') | Some(' ') | Some('>') | Some('"')) {
            found = Some(open);
        }
    }
    let open = found?;
    Some((l.range.start + open, l.range.start + open + l.dest.len()))
}

/// links on a continuation line of a list item's paragraph (open finding)
fn continuation_locus(want: Option<usize>, links: &[&mdscan::LinkOcc], scan: &Scan, line: usize) -> Option<String> {
    let l = links[want?];
    let a = &scan.atoms[l.atom];
    if matches!(a.chain.last(), Some(mdscan::Cont::Item(..))) && a.line != line {
        Some("item-continuation-line".to_string())
    } else {
        None
    }
}

impl Check for C13 {
    fn id(&self) -> &'static str {
        "C13"
    }
    fn rule(&self) -> String {
        "case = one generated note (several links per line with unique destinations, multi-line paragraphs, lists, quotes, block references; ASCII or 2-/3-/4-byte characters before the point of interest; LF or CRLF) served by the real LSP loop; probes at every link's span boundaries (+-1), middles, line starts/ends and random positions, in UTF-16 columns: go-to-definition and prepareRename must act on link L iff start(L) <= pos < end(L) (pos == end accepted either way) with the rename range equal to the destination span; code actions at every line must match the block covering that line; locations returned by documentSymbol / workspace symbol / references / inlay hints must name the block's first line; spans from the independent offset-tracking scan; distinct = (line ending, character width class, link shape, probe class) combinations".into()
    }
    fn assumptions(&self) -> Vec<String> {
        vec!["positions are (line, UTF-16 code unit) as the LSP specifies; lines end at \\n or \\r\\n".into()]
    }
    fn plan(&self, tier: Tier, _seed: u64) -> Plan {
        Plan {
            cases: tier.pick(240, 6000),
            procs: 16,
            wall_s: 600,
            cpu_s: None,
        }
    }
    fn min_events(&self, tier: Tier) -> u64 {
        tier.pick(5000, 100000)
    }
    fn run_case(&self, _tier: Tier, seed: u64, case: u64) -> CaseReport {
        let mut rep = CaseReport::new(case);
        if case == 0 {
            // pinned reproducer (open finding): a link inside a table cell has a source span like any other link
            let mut lib: BTreeMap<String, String> = BTreeMap::new();
            lib.insert("n1".into(), "# one\n\n| name | note |\n|------|------|\n| two  | [two](t2) |\n\nsee [two](t2)\n".into());
            lib.insert("t2".into(), "# two\n".into());
            lsp::reset_log();
            let mut s = Server::start_mem(&lib, "");
            let uri = s.uri("n1");
            let ask = |s: &mut Server, line: u64, ch: u64| s.request("textDocument/definition", json!({"textDocument": {"uri": uri}, "position": {"line": line, "character": ch}}));
            let in_cell = ask(&mut s, 4, 10);
            let in_para = ask(&mut s, 6, 6);
            rep.count("events", 2);
            rep.count("pinned_reproducers", 1);
            let found = |o: &lsp::Outcome| matches!(o, lsp::Outcome::Result(v) if !v.is_null() && v.to_string().contains("t2.md"));
            if found(&in_para) && !found(&in_cell) {
                rep.violate("definition-miss-inside-link", "pinned:link-in-table-cell", format!("definition inside `[two](t2)` in a table cell: {:?}; the same link in a paragraph is found", in_cell), json!({"library": lib}));
            }
            let _ = s.shutdown();
        }
        let mut rng = Rng::for_case(seed, "c13", case);
        let crlf = case % 4 == 1 || case % 4 == 3;
        let wide = case % 4 >= 2;
        let locus = format!("{}+{}", if crlf { "crlf" } else { "lf" }, if wide { "non-ascii" } else { "ascii" });
        let mut g = DocGen { rng: &mut rng, n: 0, wide, dests: vec![], defs: vec![] };
        let text = g.doc(crlf);
        let dests = g.dests.clone();
        let mut lib: BTreeMap<String, String> = BTreeMap::new();
        lib.insert("n1".into(), text.clone());
        for (i, d) in dests.iter().enumerate() {
            if i % 3 != 2 {
                lib.insert(d.clone(), format!("# Title of {}\n\n[back](n1)\n", d));
            }
        }
        let scan = mdscan::scan(&text);
        lsp::reset_log();
        mon::drain_thread_panics();
        let mut s = Server::start_mem(&lib, "");
        let uri = s.uri("n1");
        let replay = json!({"text": text, "crlf": crlf, "wide": wide});
        let links: Vec<&mdscan::LinkOcc> = scan.links.iter().filter(|l| l.kind != LKind::Image && !l.nested).collect();
        // which link (if any) covers a position; also whether the position sits exactly on an end boundary
        let cover = |line: usize, col: usize| -> (Option<usize>, bool) {
            let mut on_end = false;
            for (i, l) in links.iter().enumerate() {
                let (sl, sc) = pos_of(&text, &scan, l.range.start);
                let (el, ec) = pos_of(&text, &scan, l.range.end);
                let after_start = (line, col) >= (sl, sc);
                let before_end = (line, col) < (el, ec);
                if after_start && before_end {
                    return (Some(i), false);
                }
                if (line, col) == (el, ec) {
                    on_end = true;
                }
            }
            (None, on_end)
        };
        let mut probes: Vec<(usize, usize, &'static str)> = vec![];
        for l in &links {
            let (sl, sc) = pos_of(&text, &scan, l.range.start);
            let (el, ec) = pos_of(&text, &scan, l.range.end);
            if sc > 0 {
                probes.push((sl, sc - 1, "start-1"));
            }
            probes.push((sl, sc, "start"));
            probes.push((sl, sc + 1, "start+1"));
            if sl == el {
                probes.push((sl, (sc + ec) / 2, "middle"));
            }
            if ec > 0 {
                probes.push((el, ec - 1, "end-1"));
            }
            probes.push((el, ec, "end"));
            probes.push((el, ec + 1, "end+1"));
        }
        let line_texts: Vec<&str> = text.split('\n').collect();
        for (i, lt) in line_texts.iter().enumerate() {
            probes.push((i, 0, "line-start"));
            let w = lt.trim_end_matches('\r').encode_utf16().count();
            probes.push((i, w, "line-end"));
            probes.push((i, w + 3, "past-eol"));
        }
        probes.push((line_texts.len() + 2, 0, "past-eof"));
        let mut ev = 0u64;
        let mut shown = 0;
        for (line, col, class) in probes {
            let (want, on_end) = cover(line, col);
            // a probe in the middle of a surrogate pair / after EOL is still a valid client position
            let params = json!({"textDocument": {"uri": uri}, "position": {"line": line, "character": col}});
            // ---- definition
            let got = match s.request("textDocument/definition", params.clone()) {
                Outcome::Result(v) => v,
                o => {
                    rep.violate("definition-unanswered", &locus, format!("{:?} at {}:{}", o, line, col), replay.clone());
                    break;
                }
            };
            ev += 1;
            let got_key = got.get("uri").and_then(|u| u.as_str()).and_then(|u| s.key_of_uri(u));
            let want_key = want.and_then(|i| mdscan::resolve(&links[i].dest, ""));
            let ok = got_key == want_key || (on_end && want.is_none());
            if !ok && shown < 3 {
                shown += 1;
                let clause = match (&want_key, &got_key) {
                    (Some(_), None) => "definition-miss-inside-link",
                    (None, Some(_)) => "definition-hit-outside-link",
                    _ => "definition-wrong-link",
                };
                let loc = continuation_locus(want, &links, &scan, line).unwrap_or_else(|| locus.clone());
                rep.violate(clause, &loc, format!("probe {} at {}:{} `{}`: expected {:?}, got {:?}", class, line, col, line_texts.get(line).unwrap_or(&""), want_key, got_key), replay.clone());
            }
            rep.shape(fnv(&format!("{}|{}|{}", locus, class, want.map(|i| format!("{:?}", links[i].kind)).unwrap_or_default())));
            // ---- prepareRename
            let pr = match s.request("textDocument/prepareRename", params) {
                Outcome::Result(v) => v,
                _ => continue,
            };
            ev += 1;
            match (want, pr.is_null()) {
                (Some(i), false) => {
                    let l = links[i];
                    let r = &pr["range"];
                    let g = |a: &str, b: &str| r[a][b].as_u64().unwrap_or(u64::MAX) as usize;
                    let got_r = ((g("start", "line"), g("start", "character")), (g("end", "line"), g("end", "character")));
                    if let Some((ds, de)) = dest_span(&text, l) {
                        let want_r = (pos_of(&text, &scan, ds), pos_of(&text, &scan, de));
                        if got_r != want_r && shown < 3 {
                            shown += 1;
                            let src = &text[l.range.clone()];
                            let shape = if src.contains('\n') { "shape:wrapped".to_string() } else if !l.title.is_empty() { "shape:title".to_string() } else if src[..src.find("](").unwrap_or(0)].contains('*') { "shape:markup".to_string() } else { locus.clone() };
                            rep.violate("rename-range-not-destination", &shape, format!("link `{}`: range {:?}, destination span {:?}", &text[l.range.clone()], got_r, want_r), replay.clone());
                        }
                        if pr["placeholder"].as_str() != Some(l.dest.as_str()) && shown < 3 {
                            shown += 1;
                            rep.violate("rename-placeholder", &locus, format!("placeholder {:?} for destination {}", pr["placeholder"], l.dest), replay.clone());
                        }
                    } else {
                        // other link shapes: inside the link span, start <= end
                        let ls = pos_of(&text, &scan, l.range.start);
                        let le = pos_of(&text, &scan, l.range.end);
                        if !(got_r.0 <= got_r.1 && got_r.0 >= ls && got_r.1 <= le) && shown < 3 {
                            shown += 1;
                            rep.violate("rename-range-outside-link", &format!("shape:{:?}", l.kind), format!("link `{}` spans {:?}..{:?}, range {:?}", &text[l.range.clone()], ls, le, got_r), replay.clone());
                        }
                    }
                }
                // no range is a fair answer where the destination is not written at the link itself (reference-style links)
                (Some(i), true) if links[i].kind == LKind::Reference => {}
                (Some(_), true) => {
                    if shown < 3 {
                        shown += 1;
                        let loc = continuation_locus(want, &links, &scan, line).unwrap_or_else(|| locus.clone());
                        rep.violate("prepare-rename-miss-inside-link", &loc, format!("probe {} at {}:{}", class, line, col), replay.clone());
                    }
                }
                (None, false) if !on_end => {
                    if shown < 3 {
                        shown += 1;
                        rep.violate("prepare-rename-hit-outside-link", &locus, format!("probe {} at {}:{}: {}", class, line, col, pr), replay.clone());
                    }
                }
                _ => {}
            }
        }
        // ---- code actions per line match the covering block
        for (line, _) in line_texts.iter().enumerate() {
            let block = scan.atoms.iter().find(|a| {
                let first = a.line;
                let last = pos_of(&text, &scan, a.range.end.saturating_sub(1).max(a.range.start)).0;
                first <= line && line <= last && !matches!(a.kind, AKind::Table(_))
            });
            let Some(block) = block else { continue };
            let acts = match s.request("textDocument/codeAction", json!({"textDocument": {"uri": uri}, "range": {"start": {"line": line, "character": 0}, "end": {"line": line, "character": 0}}, "context": {"diagnostics": []}})) {
                Outcome::Result(v) => v.as_array().cloned().unwrap_or_default(),
                _ => continue,
            };
            ev += 1;
            let kinds: Vec<String> = acts.iter().filter_map(|a| a["kind"].as_str().map(|s| s.to_string())).collect();
            // the block that covers the line is the innermost one: inside quotes too
            let in_list = block.chain.iter().any(|c| matches!(c, mdscan::Cont::Item(..)));
            let is_heading = matches!(block.kind, AKind::Heading(_)) && !in_list;
            let is_ref = block.links.first().map(|&l| scan.links[l].block_ref).unwrap_or(false);
            let has = |k: &str| kinds.iter().any(|x| x == k);
            let mut bad = vec![];
            if in_list != has("refactor.rewrite.list.type") {
                bad.push(format!("list actions {} but block is{} in a list", has("refactor.rewrite.list.type"), if in_list { "" } else { " not" }));
            }
            if is_heading != has("refactor.rewrite.section.list") {
                bad.push(format!("section-to-list offered={} but line is{} a heading", has("refactor.rewrite.section.list"), if is_heading { "" } else { " not" }));
            }
            // a reference to a missing note cannot be inlined: whether the action is offered there is not a question of position
            let dangling = is_ref && block.links.first().map(|&l| !lib.contains_key(scan.links[l].dest.trim_end_matches(".md"))).unwrap_or(false);
            if !dangling && is_ref != has("refactor.inline.reference.quote") {
                bad.push(format!("inline actions offered={} but line is{} a block reference", has("refactor.inline.reference.quote"), if is_ref { "" } else { " not" }));
            }
            if !bad.is_empty() && shown < 4 {
                shown += 1;
                rep.violate("code-action-wrong-block", &locus, format!("line {} `{}`: {}", line, line_texts[line].trim_end(), bad.join("; ")), replay.clone());
            }
        }
        // ---- returned locations
        if let Outcome::Result(v) = s.request("textDocument/documentSymbol", json!({"textDocument": {"uri": uri}})) {
            ev += 1;
            let heads: Vec<(String, usize)> = scan.atoms.iter().filter(|a| matches!(a.kind, AKind::Heading(_)) && a.chain.is_empty()).map(|a| (a.text.split_whitespace().collect::<Vec<_>>().join(" "), a.line)).collect();
            for sym in v.as_array().cloned().unwrap_or_default() {
                let name = sym["name"].as_str().unwrap_or("").trim().to_string();
                let line = sym["location"]["range"]["start"]["line"].as_u64().unwrap_or(u64::MAX) as usize;
                if let Some((_, hl)) = heads.iter().find(|(t, _)| *t == name) {
                    if *hl != line && shown < 5 {
                        shown += 1;
                        rep.violate("symbol-wrong-line", &locus, format!("symbol `{}` reported at line {}, heading is at line {}", name, line, hl), replay.clone());
                    }
                }
            }
        }
        if let Outcome::Result(v) = s.request("textDocument/inlayHint", json!({"textDocument": {"uri": uri}, "range": {"start": {"line": 0, "character": 0}, "end": {"line": 10000, "character": 0}}})) {
            ev += 1;
            let ref_lines: Vec<usize> = scan.links.iter().filter(|l| l.block_ref).map(|l| scan.atoms[l.atom].line).collect();
            for h in v.as_array().cloned().unwrap_or_default() {
                let label = h["label"].as_str().unwrap_or("").to_string();
                let line = h["position"]["line"].as_u64().unwrap_or(u64::MAX) as usize;
                if label.starts_with('⎘') && !ref_lines.contains(&line) && shown < 5 {
                    shown += 1;
                    rep.violate("hint-wrong-line", &locus, format!("reference hint at line {}, block references are at {:?}", line, ref_lines), replay.clone());
                }
            }
        }
        // references: every existing target links back to n1; its own backlinks name the right lines
        for d in dests.iter().filter(|d| lib.contains_key(*d)).take(4) {
            let du = s.uri(d);
            if let Outcome::Result(v) = s.request("textDocument/references", json!({"textDocument": {"uri": du}, "position": {"line": 0, "character": 0}, "context": {"includeDeclaration": false}})) {
                ev += 1;
                let want_lines: Vec<usize> = links.iter().filter(|l| l.dest == *d && !matches!(scan.atoms[l.atom].kind, AKind::Cell(..))).map(|l| scan.atoms[l.atom].line).collect();
                let got_lines: Vec<usize> = v.as_array().cloned().unwrap_or_default().iter().filter(|loc| loc["uri"].as_str().and_then(|u| s.key_of_uri(u)).as_deref() == Some("n1")).map(|loc| loc["range"]["start"]["line"].as_u64().unwrap_or(u64::MAX) as usize).collect();
                if want_lines != got_lines && shown < 6 {
                    shown += 1;
                    rep.violate("reference-wrong-line", &locus, format!("references to {}: lines {:?}, linking blocks start at {:?}", d, got_lines, want_lines), replay.clone());
                }
            }
        }
        rep.count("events", ev);
        rep.count("links", links.len() as u64);
        let _ = s.shutdown();
        if case < 4 {
            rep.sample = Some(json!({"text": text, "class": locus}));
        }
        let _: Option<Value> = None;
        rep
    }
}
