//! C03: no document can crash, hang or kill the server or CLI.

use crate::gen::{self, Gen, Profile, Target, Words};
use crate::lsp::{self, Ev, Outcome, Server};
use crate::mon::{self, CaseReport, Check, Plan, Tier};
use crate::rng::{fnv, Rng};
use liwe::database::Database;
use liwe::graph::Graph;
use liwe::markdown::MarkdownReader;
use liwe::model::config::MarkdownOptions;
use liwe::parser::Parser;
use serde_json::json;
use std::collections::{BTreeMap, HashMap};
use std::process::Command;

pub struct C03;

const FRAGMENTS: &[&str] = &[
    "- ", "* ", "+ ", "1. ", "1) ", "10. ", "> ", ">", "# ", "## ", "###### ", "####### ", "```", "~~~", "```rust", "    ", "\t", "---", "***", "___", "===",
    "|", "| a | b |", "|---|---|", "|:-:|", "[", "]", "(", ")", "[x](y)", "[[w]]", "[[w|p]]", "![i](u)", "<div>", "</div>", "<!--", "-->", "<b>", "<http://x.y>",
    "\\", "\\*", "&amp;", "&#x20;", "&#0;", "*", "**", "_", "`", "``", "~~", "$", "$$", "[^1]", "[^1]: note", "[ref]: http://r", "[a][ref]", ": def",
    "word", "two words", "über", "日本", "😀", "\u{200b}", "\u{feff}", "  ", "\n", "\n\n", "\r\n", "\r", "  \n", "- [ ] task", "- [x] done", "---\ntitle: x\n---", "%%", "{#id}", "![[a]|b](c)]]",
];

pub fn soup(rng: &mut Rng, max: usize) -> String {
    let n = rng.range(1, max);
    let mut s = String::new();
    for _ in 0..n {
        s.push_str(*rng.pick(FRAGMENTS));
        match rng.below(5) {
            0 => s.push('\n'),
            1 => s.push(' '),
            2 => s.push_str("\n\n"),
            _ => {}
        }
    }
    s
}

/// multi-line shapes that are legal Markdown but unusual for a note: containers that start with containers, empty
/// containers, markers on their own; concatenated at random (with random words)
const SHAPES: &[&str] = &[
    "- - W\n    - W\n\n  W\n",
    "- - W\n- W\n",
    "1. - W\n     - W\n\n   W\n2. W\n",
    "- - W\n    > W\n\n  W\n",
    "- - - W\n  - W\n",
    "- 1)\n- W\n",
    "- \n- W\n",
    "1. \n\n   W\n",
    "- > W\n\n  W\n",
    "- > W\n  > - W\n\n  W\n",
    "- ```\n  W\n  ```\n  W\n",
    "- # W\n  W\n",
    "- # W\n\n  ## W\n\n  W\n- W\n",
    "> - W\n>\n>   W\n> - W\n",
    "> > W\n>\n> W\n",
    "> # W\n>\n> - W\n>   - W\n",
    ">\n> W\n",
    "# W\n\n---\n\nW\n\n# W\n",
    "# W\n\n- W\n\n## W\n\n- W\n\n# W\n",
    "#\n##\n1)\n#\n",
    "- W\n\n  | W | W |\n  |---|---|\n  | W | W |\n\n  W\n",
    "- | W |\n  |---|\n",
    "[W](n2)\n\n# W\n\n[W](n2)\n[W](n2)\n",
    "![[W]|W](W)]]\n",
    "see ![[W]|W](W.png)]] here\n",
    "- [W](n2)\n\n  [W](n2)\n",
    " <div>\nW\n</div>\n",
    "W\n===\nW\n---\n",
    "* * *\n- - -\n",
    // an item that starts with a nested list whose own item holds several blocks, and then goes on
    "- - W\n\n    W\n\n    W\n\n    W\n\n  W\n",
    "- - W\n\n    W\n\n    W\n\n    > # W\n\n  W\n",
    "1. - W\n\n     W\n\n     ```\n     W\n     ```\n\n     W\n\n     W\n\n   W\n",
    // nested-list-first items whose nested list mixes empty and non-empty items
    "- - W\n  -\n",
    "1. 1. W\n   2.\n   3. W\n",
    "- -\n  - W\n",
    "> - - W\n>   -\n",
    // a comment whose second line would be a list item once its indentation is gone; lists and quotes that hold nothing
    "W <!-- W\n    - W -->\n",
    "- W <!-- W\n      - W -->\n",
    "- W\n\n* >\n\n- W\n",
    "- W\n\n* > <div>W</div>\n\n- W\n",
    "> - >\n\nW\n",
    "1. W\n\n>\n\n1. W\n",
    // item texts that begin with numerals outside ASCII; an item that carries nothing in front of numbered ones
    "- ٣ W\n- ½ W\n\n1. １W\n2. ① W\n",
    "- W\n  1. >\n  2. W\n",
    // names and tags wrapped over lines inside containers; angle-bracket text that is no tag in a cell
    "- W see [[Project W\n  Kickoff W]] W\n",
    "> W [[W W\n> W|W]] W\n",
    "<img src=\"W.png\"\n     width=\"300\"\n     alt=\"W\">\n",
    "- <img src=\"W.png\"\n  width=\"300\"> W\n",
    "| W | W |\n|---|---|\n| <Ctrl+W> | <=> |\n| <2024-01-15 W> | <br> |\n",
];

pub fn shapes(rng: &mut Rng, max: usize) -> String {
    let mut s = String::new();
    let mut n = 0;
    for _ in 0..rng.range(1, max) {
        let t = *rng.pick(SHAPES);
        for part in t.split('W') {
            s.push_str(part);
            n += 1;
            s.push_str(&format!("w{}", n));
        }
        // the split leaves one word too many at the end of each shape: harmless (a trailing word)
        s.push_str(if rng.chance(1, 2) { "\n\n" } else { "\n" });
    }
    s
}

fn mutate(rng: &mut Rng, text: &str) -> String {
    let mut chars: Vec<char> = text.chars().collect();
    for _ in 0..rng.range(1, 8) {
        if chars.is_empty() {
            break;
        }
        let i = rng.below(chars.len());
        match rng.below(5) {
            0 => {
                chars.remove(i);
            }
            1 => chars.insert(i, *rng.pick(&['\n', ' ', '-', '>', '#', '`', '|', '*', '[', ']', '\r', '\t'])),
            2 => chars[i] = *rng.pick(&['\n', ' ', '-', '>', '#', '`', '|']),
            3 => {
                let j = rng.below(chars.len());
                chars.swap(i, j);
            }
            _ => {
                let c = chars[i];
                chars.insert(i, c);
            }
        }
    }
    chars.into_iter().collect()
}

/// drive one document through the library API; panics are collected, not propagated
fn drive_lib(text: &str, out: &mut Vec<(String, String)>) {
    let ops: Vec<(&str, Box<dyn Fn() + '_>)> = vec![
        ("from_markdown+to_markdown", Box::new(|| {
            let mut g = Graph::new();
            g.from_markdown("n1".into(), text, MarkdownReader::new());
            let o = g.to_markdown(&"n1".into());
            let mut g2 = Graph::new();
            g2.from_markdown("n1".into(), &o, MarkdownReader::new());
            let _ = g2.to_markdown(&"n1".into());
        })),
        ("database", Box::new(|| {
            let mut st = HashMap::new();
            st.insert("n1".to_string(), text.to_string());
            st.insert("n2".to_string(), "# two\n\n[x](n1)\n".to_string());
            let mut db = Database::new(st, false, MarkdownOptions::default());
            let _ = db.graph().paths();
            let _ = db.global_search("");
            let _ = db.global_search("a");
            db.update_document("n2".into(), text.to_string());
            db.update_document("n1".into(), "# one\n".to_string());
            let _ = db.graph().export();
        })),
        ("link_at", Box::new(|| {
            let p = Parser::new(text, MarkdownReader::new());
            let lines = text.lines().count();
            for l in 0..(lines + 2).min(40) {
                for c in [0usize, 1, 3, 7, 200] {
                    let _ = p.link_at((l, c).into());
                }
            }
        })),
    ];
    for (name, op) in ops {
        if let Err(p) = mon::catch(|| op()) {
            out.push((p.signature(), format!("{}: {}", name, p.message.chars().take(160).collect::<String>())));
        }
    }
}

/// drive one document through the real LSP threads (loop thread 8 MiB, workers 2 MiB)
fn drive_lsp(text: &str, out: &mut Vec<(String, String)>, counters: &mut u64) -> Result<(), String> {
    lsp::reset_log();
    mon::drain_thread_panics();
    let mut lib = BTreeMap::new();
    lib.insert("n1".to_string(), "# one\n".to_string());
    lib.insert("n2".to_string(), "# two\n\n[x](n1)\n".to_string());
    let mut s = Server::start_mem(&lib, "");
    s.did_change("n1", text);
    let uri = s.uri("n1");
    // the notification is handled before the next request: did the loop thread survive it?
    let _ = s.formatted_text("n2");
    *counters += 1;
    let early: Vec<String> = lsp::events_since(0).into_iter().filter_map(|e| if let Ev::LoopPanicked(m) = e { Some(m) } else { None }).collect();
    if !early.is_empty() {
        // the edit was dropped half-way; the primary panic is recorded, the state is suspect
        for p in mon::drain_thread_panics() {
            out.push((p.signature(), format!("didChange on the loop thread: {}", p.message.chars().take(160).collect::<String>())));
        }
        let _ = s.shutdown();
        return Ok(());
    }
    let lines = text.lines().count();
    let mut reqs: Vec<(&str, serde_json::Value)> = vec![
        ("textDocument/formatting", json!({"textDocument": {"uri": uri}, "options": {"tabSize": 2, "insertSpaces": true}})),
        ("textDocument/documentSymbol", json!({"textDocument": {"uri": uri}})),
        ("workspace/symbol", json!({"query": ""})),
        ("textDocument/inlayHint", json!({"textDocument": {"uri": uri}, "range": {"start": {"line": 0, "character": 0}, "end": {"line": 9999, "character": 0}}})),
        ("textDocument/references", json!({"textDocument": {"uri": uri}, "position": {"line": 0, "character": 0}, "context": {"includeDeclaration": false}})),
    ];
    for l in 0..(lines + 1).min(50) {
        reqs.push(("textDocument/codeAction", json!({"textDocument": {"uri": uri}, "range": {"start": {"line": l, "character": 0}, "end": {"line": l, "character": 0}}, "context": {"diagnostics": []}})));
        for c in [0u32, 2, 9] {
            reqs.push(("textDocument/definition", json!({"textDocument": {"uri": uri}, "position": {"line": l, "character": c}})));
        }
        reqs.push(("textDocument/prepareRename", json!({"textDocument": {"uri": uri}, "position": {"line": l, "character": 1}})));
    }
    reqs.push(("textDocument/definition", json!({"textDocument": {"uri": uri}, "position": {"line": lines + 5, "character": 0}})));
    let mut timing: BTreeMap<&str, f64> = BTreeMap::new();
    for (m, p) in reqs {
        *counters += 1;
        let t0 = std::time::Instant::now();
        let res = s.request(m, p);
        *timing.entry(m).or_insert(0.0) += t0.elapsed().as_secs_f64();
        match res {
            Outcome::Result(_) | Outcome::Error(..) => {}
            Outcome::Watchdog => {
                s.kill();
                return Err(format!("watchdog on {}", m));
            }
            o => out.push((format!("{}:{:?}", m, std::mem::discriminant(&o)), format!("{} -> {:?}", m, o))),
        }
    }
    if std::env::var("VERIF_TIMING").is_ok() {
        eprintln!("timing per method (s): {:?}", timing);
    }
    // the note that references n1 is re-sent unchanged, then both are queried again (stale ids of replaced versions)
    s.did_change("n2", "# two\n\n[x](n1)\n");
    for k in ["n1", "n2"] {
        let u = s.uri(k);
        for (m, p) in [
            ("textDocument/inlayHint", json!({"textDocument": {"uri": u}, "range": {"start": {"line": 0, "character": 0}, "end": {"line": 9999, "character": 0}}})),
            ("textDocument/references", json!({"textDocument": {"uri": u}, "position": {"line": 0, "character": 0}, "context": {"includeDeclaration": false}})),
            ("textDocument/documentSymbol", json!({"textDocument": {"uri": u}})),
        ] {
            *counters += 1;
            let _ = s.request(m, p);
        }
    }
    // every panic on any server thread is a finding, also when it was turned into an error response - except a panic
    // inside the Markdown parser itself that iwe contains (since /repo 2ef07d3 the reader catches it and parses the text
    // again without wiki links): the panic hook still sees it, but nothing escaped. Had it escaped on the loop thread, the
    // LoopPanicked event above reports it; on the API path mon::catch does.
    for p in mon::drain_thread_panics() {
        if p.file.contains("pulldown-cmark") {
            continue;
        }
        out.push((p.signature(), format!("server thread `{}` at {}:{}: {}", p.thread, p.file, p.line, p.message.chars().take(160).collect::<String>())));
    }
    for e in lsp::events_since(0) {
        if let Ev::LoopPanicked(m) = e {
            out.push(("loop-thread".to_string(), m));
        }
    }
    // liveness: the server still formats a known note
    let alive = s.formatted_text("n2");
    if alive.is_none() {
        out.push(("server-dead".into(), "formatting of a known note unanswered after the document".into()));
    }
    let _ = s.shutdown();
    Ok(())
}

/// `vcheck crash <file>`: drive one (risky) document in this process; exit 0 and print OK <cpu> if it survives
pub fn crash_main(args: &[String]) {
    mon::install_panic_recorder();
    let text = std::fs::read_to_string(&args[0]).unwrap_or_default();
    let mut out = vec![];
    let mut n = 0;
    if text.starts_with("%%%LIBRARY\n") {
        // a whole library in one file (notes separated by "%%%NOTE <key>" lines): start-up, path listing, search, one edit
        let mut st: HashMap<String, String> = HashMap::new();
        let mut cur: Option<String> = None;
        for l in text.lines().skip(1) {
            if let Some(k) = l.strip_prefix("%%%NOTE ") {
                cur = Some(k.to_string());
                st.insert(k.to_string(), String::new());
            } else if let Some(k) = &cur {
                let e = st.get_mut(k).unwrap();
                e.push_str(l);
                e.push('\n');
            }
        }
        if let Err(p) = mon::catch(|| {
            let first = st.keys().next().cloned().unwrap_or_default();
            let t = st.get(&first).cloned().unwrap_or_default();
            let mut db = Database::new(st.clone(), false, MarkdownOptions::default());
            let _ = db.graph().paths().len();
            let _ = db.global_search("");
            db.update_document(first.as_str().into(), format!("{}\nedited\n", t));
            let _ = db.global_search("x");
        }) {
            out.push((p.signature(), format!("library: {}", p.message.chars().take(160).collect::<String>())));
        }
        println!("OK {:.3} {} {:?}", mon::process_cpu_s(), out.len(), Ok::<(), String>(()));
        for (sig, d) in out.iter().take(5) {
            println!("PANIC {} :: {}", sig, d);
        }
        return;
    }
    drive_lib(&text, &mut out);
    let r = drive_lsp(&text, &mut out, &mut n);
    println!("OK {:.3} {} {:?}", mon::process_cpu_s(), out.len(), r);
    for (sig, d) in out.iter().take(5) {
        println!("PANIC {} :: {}", sig, d);
    }
}

fn ramp(kind: usize, n: usize) -> (String, String) {
    match kind {
        0 => ("sibling-paragraphs".into(), (0..n).map(|i| format!("p{}\n\n", i)).collect()),
        1 => ("sibling-items".into(), (0..n).map(|i| format!("- i{}\n", i)).collect()),
        2 => ("sibling-headings".into(), (0..n).map(|i| format!("# h{}\n\n", i)).collect()),
        3 => ("nested-quotes".into(), format!("{} deep\n", ">".repeat(n))),
        4 => ("nested-lists".into(), (0..n).map(|i| format!("{}- l{}\n", "  ".repeat(i), i)).collect()),
        5 => ("nested-headings".into(), (0..n).map(|i| format!("{} h{}\n\n", "#".repeat((i % 6) + 1), i)).collect()),
        8 => {
            // stacked diamonds: two notes per level, each including both notes of the next level (2^n paths)
            let mut t = String::from("%%%LIBRARY\n");
            for i in 0..n {
                for side in ["x", "y"] {
                    t.push_str(&format!("%%%NOTE {}{}\n# {} {}\n\n", side, i, side, i));
                    if i + 1 < n {
                        t.push_str(&format!("[x](x{})\n\n[y](y{})\n", i + 1, i + 1));
                    }
                }
            }
            ("stacked-diamonds".into(), t)
        }
        9 => {
            // a chain of notes, each including the next
            let mut t = String::from("%%%LIBRARY\n");
            for i in 0..n {
                t.push_str(&format!("%%%NOTE n{}\n# n {}\n\n", i, i));
                if i + 1 < n {
                    t.push_str(&format!("[next](n{})\n", i + 1));
                }
            }
            ("note-chain".into(), t)
        }
        10 => {
            // notes that all reference each other ("Team" / "Related" sections of block references): the path listing
            // enumerates every simple chain of references, which is factorial in the size of the clique
            let mut t = String::from("%%%LIBRARY\n");
            for i in 0..n {
                t.push_str(&format!("%%%NOTE person-{}\n# Person {}\n\n## Team\n\n", i, i));
                for j in 0..n {
                    if i != j {
                        t.push_str(&format!("[Person {}](person-{})\n\n", j, j));
                    }
                }
            }
            ("mutual-references".into(), t)
        }
        6 => ("long-line".into(), format!("{}\n", "word ".repeat(n))),
        _ => ("many-links".into(), format!("{}\n", (0..n).map(|i| format!("[l{}](n2)", i)).collect::<Vec<_>>().join(" "))),
    }
}

impl Check for C03 {
    fn id(&self) -> &'static str {
        "C03"
    }
    fn rule(&self) -> String {
        "case = one hostile document (fragment soup over ~80 Markdown fragments incl. CRLF / control / astral characters, runs of ~27 unusual-but-legal multi-line shapes (items that start with lists or quotes, empty items and lists, headings in items, indented html ...), character-level mutations of generated documents, hostile-construct documents, size ramps: sibling chains, nesting depth, long lines, many links, empty / whitespace-only) driven in a worker subprocess through from_markdown / to_markdown / Database new+update / paths / search / link_at and, on the real LSP threads with their real stack sizes, didChange, formatting, documentSymbol, workspace/symbol, inlayHint, references, codeAction at every line, definition / prepareRename at sampled positions; events that refute: a panic on any thread (panic hook), a dead worker process (abort, stack overflow: exit status), CPU budget overrun, an unanswered liveness probe; risky ramps run in their own child process; distinct = panic-free documents by structural shape hash + ramp (kind, size) points".into()
    }
    fn assumptions(&self) -> Vec<String> {
        vec![
            "release build, default stack sizes (loop thread 8 MiB like the main thread, request workers 2 MiB)".into(),
            "'unbounded loop' is restated as a CPU budget: 240 s per document <= 64 KB (observed maximum on the unchanged tree: ~40 s for a 100-item list driven with ~300 requests under load); ramps judged up to the sizes listed in the evidence".into(),
        ]
    }
    fn death_is_violation(&self) -> bool {
        true
    }
    fn plan(&self, tier: Tier, _seed: u64) -> Plan {
        Plan {
            cases: tier.pick(1200, 60000),
            procs: 16,
            wall_s: 900,
            cpu_s: Some(600.0),
        }
    }
    fn min_events(&self, tier: Tier) -> u64 {
        tier.pick(5000, 200000)
    }
    fn run_case(&self, tier: Tier, seed: u64, case: u64) -> CaseReport {
        let mut rep = CaseReport::new(case);
        let mut rng = Rng::for_case(seed, "c03", case);
        let total = tier.pick(1200, 60000);
        let n_ramp = tier.pick(40, 160);
        if case >= total - n_ramp {
            return self.ramp_case(tier, case - (total - n_ramp), n_ramp, &mut rng, rep);
        }
        let (class, text) = match rng.below(10) {
            0..=2 => ("soup", soup(&mut rng, 40)),
            3 | 4 => ("shapes", shapes(&mut rng, 6)),
            5 => ("soup-long", soup(&mut rng, 400)),
            6 | 7 => {
                let mut words = Words::new("");
                let p = Profile::clean(vec![Target { dest: "n2".into(), external: false }, Target { dest: "https://e.x/y".into(), external: true }]);
                let doc = Gen { rng: &mut rng, words: &mut words, p: &p }.doc();
                let t = gen::render(&doc, case, rng.chance(1, 4));
                ("mutated", mutate(&mut rng, &t))
            }
            8 => {
                let mut words = Words::new("");
                let mut p = Profile::clean(vec![Target { dest: "n2".into(), external: false }]);
                for h in ["escapes", "table-rich-cells"] {
                    p.hostile.insert(h);
                }
                let doc = Gen { rng: &mut rng, words: &mut words, p: &p }.doc();
                ("hostile-constructs", gen::render(&doc, case, false))
            }
            _ => ("tiny", (*rng.pick(&["", " ", "\n", "\r\n", "\t", "-", "- ", "1.", ">", "#", "|", "[", "\u{feff}", "---", "---\n---", "```"])).to_string()),
        };
        let mut found: Vec<(String, String)> = vec![];
        let mut n = 0u64;
        let cpu0 = mon::process_cpu_s();
        drive_lib(&text, &mut found);
        let lsp_res = drive_lsp(&text, &mut found, &mut n);
        let cpu = mon::process_cpu_s() - cpu0;
        rep.count("events", 3 + n);
        rep.count(&format!("class:{}", class), 1);
        let replay = json!({"text": text, "class": class});
        if let Err(e) = lsp_res {
            rep.inconclusive.push(e);
        }
        let mut seen = std::collections::BTreeSet::new();
        for (sig, d) in found {
            if seen.insert(sig.clone()) {
                rep.violate("panic", &sig, d, replay.clone());
            }
        }
        if cpu > 240.0 && text.len() <= 65536 {
            rep.violate("cpu-budget", "document", format!("{:.1}s CPU for a {} byte document", cpu, text.len()), replay.clone());
        }
        if rep.violations.is_empty() {
            let shape: Vec<String> = crate::mdscan::scan(&text).atoms.iter().map(|a| format!("{}:{}", a.chain_kinds(), a.kind.name())).collect();
            rep.shape(fnv(&shape.join("|")));
        }
        if case < 3 {
            rep.sample = Some(replay);
        }
        rep
    }
}

impl C03 {
    fn ramp_case(&self, tier: Tier, idx: u64, n_ramp: u64, _rng: &mut Rng, mut rep: CaseReport) -> CaseReport {
        // (kind, size) grid: sizes up to the clean bound, and a few beyond it (known finding)
        let kinds = 11u64;
        let kind = (idx % kinds) as usize;
        let step = idx / kinds;
        let steps = (n_ramp / kinds).max(1);
        let clean_max: usize = match kind {
            0 | 1 | 2 | 5 => 2000,
            3 | 4 => tier.pick(60, 120),
            6 => tier.pick(20000, 200000),
            // stacked diamonds: 2^n paths, so the clean bound is a number of levels that still answers quickly; the
            // growth beyond it (a 40-note library that takes minutes and gigabytes) is recorded in DESIGN.md
            8 => tier.pick(12, 14),
            9 => tier.pick(150, 240),
            // mutual references: factorial, so the clean bound is a handful of notes; one point beyond it (known finding)
            10 => 6,
            _ => tier.pick(4000, 20000),
        };
        let beyond = step + 1 == steps && (kind <= 4 || kind == 10); // the last step of the recursive-walk kinds goes beyond the clean bound
        let size = if beyond {
            match kind {
                0 | 1 | 2 => 8000,
                3 => 2500,
                4 => 1200,
                10 => 8,
                _ => 400_000,
            }
        } else {
            (clean_max as u64 * (step + 1) / steps.max(2).saturating_sub(1).max(1)).min(clean_max as u64).max(1) as usize
        };
        let (name, text) = ramp(kind, size);
        let dir = mon::scratch_dir("c03");
        let file = dir.join("doc.md");
        std::fs::write(&file, &text).unwrap();
        let exe = std::env::current_exe().unwrap();
        let t0 = std::time::Instant::now();
        let out = Command::new(exe).arg("crash").arg(&file).output();
        let wall = t0.elapsed().as_secs_f64();
        rep.count("events", 1);
        rep.count("ramp_points", 1);
        rep.shape(fnv(&format!("{}|{}", name, size)));
        let locus = format!("ramp:{}:{}", name, if beyond { "beyond-clean-bound" } else { "clean" });
        let replay = json!({"ramp": name, "size": size, "bytes": text.len()});
        match out {
            Ok(o) => {
                let so = String::from_utf8_lossy(&o.stdout).to_string();
                let se = String::from_utf8_lossy(&o.stderr).to_string();
                if !o.status.success() || !so.starts_with("OK") {
                    let why = if se.contains("overflowed its stack") { "stack-overflow".to_string() } else { format!("{}", o.status) };
                    rep.violate("process-death", &locus, format!("{} x {}: child {}: {}", name, size, why, se.lines().last().unwrap_or("")), replay.clone());
                } else {
                    for l in so.lines().filter(|l| l.starts_with("PANIC ")) {
                        let sig = l.trim_start_matches("PANIC ").split(" :: ").next().unwrap_or("").to_string();
                        rep.violate("panic", &format!("{}@{}", sig, locus), l.to_string(), replay.clone());
                    }
                    let cpu: f64 = so.split_whitespace().nth(1).and_then(|x| x.parse().ok()).unwrap_or(0.0);
                    rep.count(&format!("ramp_cpu_ms:{}:{}", name, size), (cpu * 1000.0) as u64);
                    // budget: quadratic in the number of blocks, generous constant
                    let n = size as f64;
                    let budget = 5.0 + 2.0e-5 * n * n.min(20000.0);
                    if kind == 10 && beyond && cpu > 5.0 {
                        // eight small notes that reference each other: tens of seconds of CPU before the first answer (nine: minutes)
                        rep.violate("cpu-budget", &locus, format!("{} x {}: {:.1}s CPU for a library of {} bytes (wall {:.1}s)", name, size, cpu, text.len(), wall), replay.clone());
                    }
                    if cpu > budget && !beyond {
                        rep.violate("cpu-budget", &locus, format!("{} x {}: {:.1}s CPU (budget {:.1}s, wall {:.1}s)", name, size, cpu, budget, wall), replay.clone());
                    }
                }
            }
            Err(e) => rep.inconclusive.push(format!("spawn: {}", e)),
        }
        let _ = std::fs::remove_dir_all(&dir);
        rep
    }
}
