//! C04 (incremental == fresh) and C20 (forest invariants) over edit histories.

use crate::hist::{self, History};
use crate::libgen::LibOpts;
use crate::mdscan;
use crate::mon::{self, CaseReport, Check, Plan, Tier};
use crate::rng::{fnv, Rng};
use crate::walker;
use liwe::database::Database;
use liwe::graph::{Graph, GraphContext};
use liwe::model::config::MarkdownOptions;
use liwe::model::node::NodePointer;
use liwe::model::tree::TreeIter;
use liwe::model::Key;
use serde_json::json;
use std::collections::{BTreeMap, BTreeSet, HashMap};

pub struct HistCheck {
    pub prop: &'static str,
}

fn state(texts: &BTreeMap<String, String>) -> HashMap<String, String> {
    texts.iter().map(|(k, v)| (k.clone(), v.clone())).collect()
}

fn render_path(g: &Graph, ids: &[u64]) -> String {
    ids.iter()
        .map(|id| g.get_text(*id).split_whitespace().collect::<Vec<_>>().join(" "))
        .collect::<Vec<_>>()
        .join(" > ")
}

/// everything a client can observe, node ids canonicalised away
pub fn observe(db: &Database, texts: &BTreeMap<String, String>, queries: &[String]) -> BTreeMap<String, String> {
    let g = db.graph();
    let mut o = BTreeMap::new();
    let mut keys: BTreeSet<String> = texts.keys().cloned().collect();
    // also ask about link targets that are not notes
    for (k, t) in texts {
        let dir = mdscan::key_dir(k);
        for l in mdscan::scan(t).links {
            if mdscan::is_internal(&l.dest) && l.kind != mdscan::LKind::Image {
                if let Some(r) = mdscan::resolve(&l.dest, &dir) {
                    keys.insert(r);
                }
            }
        }
    }
    let gkeys: BTreeSet<String> = g.keys().iter().map(|k| k.to_string()).collect();
    o.insert("keys".into(), format!("{:?}", gkeys));
    for k in texts.keys() {
        let key: Key = k.as_str().into();
        o.insert(format!("export:{}", k), g.to_markdown(&key));
        o.insert(format!("document:{}", k), format!("{:?}", db.get_document(&key)));
        let lines = texts[k].lines().count();
        let mut at = vec![];
        for line in 0..lines + 1 {
            let id = g.get_node_id_at(&key, line);
            at.push(match id {
                Some(id) => format!(
                    "{}:{}{:?}",
                    line,
                    g.graph_node(id).to_symbol(),
                    g.node_line_range(id)
                ),
                None => format!("{}:-", line),
            });
        }
        o.insert(format!("node-at-line:{}", k), at.join(" "));
    }
    for k in &keys {
        let key: Key = k.as_str().into();
        o.insert(format!("title:{}", k), format!("{:?}", g.get_key_title(&key)));
        let mut b: Vec<String> = g
            .get_block_references_to(&key)
            .iter()
            .map(|id| format!("{}@{:?}", g.key_of(*id), g.node_line_range(*id)))
            .collect();
        b.sort();
        o.insert(format!("block-backlinks:{}", k), b.join(" "));
        let mut i: Vec<String> = g
            .get_inline_references_to(&key)
            .iter()
            .map(|id| format!("{}@{:?}", g.key_of(*id), g.node_line_range(*id)))
            .collect();
        i.sort();
        o.insert(format!("inline-backlinks:{}", k), i.join(" "));
    }
    let mut paths: Vec<String> = g
        .paths()
        .iter()
        .map(|p| format!("{}::{}", g.key_of(p.target()), render_path(g, &p.ids())))
        .collect();
    paths.sort();
    o.insert("paths".into(), paths.join("\n"));
    for q in queries {
        let res: Vec<String> = db
            .global_search(q)
            .iter()
            .map(|p| format!("{}|{}|{}|r{}|{}", p.key, p.search_text, p.line, p.node_rank, p.root))
            .collect();
        o.insert(format!("search:{}", q), res.join("\n"));
    }
    o
}

pub fn queries_for(texts: &BTreeMap<String, String>) -> Vec<String> {
    let mut q = vec!["".to_string()];
    for t in texts.values().take(4) {
        let s = mdscan::scan(t);
        if let Some(title) = mdscan::title_of(&s) {
            q.push(title.clone());
            if let Some(w) = title.split_whitespace().next() {
                q.push(w.chars().take(3).collect());
            }
        }
    }
    q.push("alpha".into());
    q.push("zzzz".into());
    q.dedup();
    q
}

pub fn hist_opts(tier: Tier, rng: &mut Rng) -> LibOpts {
    let mut o = LibOpts::clean();
    o.min_notes = 0;
    o.max_notes = tier.pick(5, 7);
    o.profile.max_blocks = tier.pick(8, 14);
    o.profile.max_depth = 3;
    o.crlf = false;
    let _ = rng;
    o
}

/// hostile history: every version is a soup of Markdown fragments or a run of unusual-but-legal shapes
fn hostile_history(rng: &mut Rng) -> History {
    let keys = ["n1", "n2", "d1/n3"];
    let mut initial = BTreeMap::new();
    let mut text = |rng: &mut Rng| if rng.chance(1, 2) { crate::checks::crash03::soup(rng, 40) } else { crate::checks::crash03::shapes(rng, 6) };
    for k in keys.iter().take(rng.range(1, 3)) {
        initial.insert(k.to_string(), text(rng));
    }
    let steps = (0..rng.range(1, 6))
        .map(|_| hist::Step { key: rng.pick(&keys).to_string(), text: text(rng), what: "soup".into(), insert: rng.chance(1, 4) })
        .collect();
    History { initial, steps }
}

impl Check for HistCheck {
    fn id(&self) -> &'static str {
        self.prop
    }
    fn rule(&self) -> String {
        match self.prop {
            "C04" => "case = one edit history (initial library 0-7 notes; 1-30 steps of update/insert on existing and new keys, each new version an edit of the previous one: remove/rename title, drop last reference, table before link, toggle front matter, revert, rewrite ...); after EVERY step the observation vector (exports, raw documents, titles, block+inline backlinks with lines, paths, ordered search results, node-at-line) of the incremental Database is compared with a Database built from scratch; one case in seven is a hostile history (every version a soup of Markdown fragments or a run of unusual-but-legal shapes: items that start with lists, empty items, quotes in items ...), judged by the same comparison; distinct = hash of the step-kind sequence".into(),
            _ => "case = one edit history as for C04 plus patch-graph constructions (collect -> build_key_from_iter, squash -> build); the invariant walker runs on every graph handed over by hook H2 (after import/update/build, before render) and after every step; arena length / tombstone monotonicity and DFS order == source block order checked per step; one case in five is a hostile history (fragment soups and unusual-but-legal shapes) under the same walker (no comparison with the scanner there; a panic is C03's business); distinct = hash of step kinds".into(),
        }
    }
    fn assumptions(&self) -> Vec<String> {
        vec![
            "clean-mode grammar; LF line endings".into(),
            "the from-scratch Database::new on the current texts is the reference (it is the same code, so defects common to both paths are judged by C01/C05/C18, not here)".into(),
        ]
    }
    fn plan(&self, tier: Tier, _seed: u64) -> Plan {
        Plan {
            cases: tier.pick(1500, 40000),
            procs: 16,
            wall_s: 180,
            cpu_s: None,
        }
    }
    fn min_events(&self, tier: Tier) -> u64 {
        tier.pick(3000, 50000)
    }

    fn run_case(&self, tier: Tier, seed: u64, case: u64) -> CaseReport {
        let mut rep = CaseReport::new(case);
        let mut rng = Rng::for_case(seed, "hist", case);
        let o = hist_opts(tier, &mut rng);
        let h = hist::gen_history(&mut rng, &o, tier.pick(12, 30));
        let kinds: Vec<&str> = h.steps.iter().map(|s| s.what.as_str()).collect();
        rep.shape(fnv(&kinds.join(",")));
        for k in &kinds {
            rep.count(&format!("step:{}", k), 1);
        }
        let ext = if rng.chance(1, 3) { ".md" } else { "" };
        match self.prop {
            "C04" if case % 7 == 6 => {
                // the incremental == fresh comparison holds for ANY text (the same code answers on both sides)
                let hh = hostile_history(&mut rng);
                rep.count("hostile_histories", 1);
                self.run_c04_mode(&hh, ext, &mut rep, true)
            }
            "C04" => self.run_c04(&h, ext, &mut rep),
            _ if case % 5 == 4 => {
                // hostile histories: every version is a soup of Markdown fragments (empty items, lists that hold only
                // empty lists, stray delimiters ...). The forest invariants hold for ANY text; only the comparison with the
                // independent scanner is dropped (the two parsers may disagree on such input), and a panic is C03's business.
                let hh = hostile_history(&mut rng);
                rep.count("hostile_histories", 1);
                self.run_c20_mode(&hh, ext, &mut rep, true)
            }
            _ => self.run_c20(&h, ext, &mut rep),
        }
        if self.prop == "C04" && case % 10 == 0 {
            self.run_c04_lsp(&h, ext, &mut rep);
        }
        if case < 2 {
            rep.sample = Some(json!({"initial_keys": h.initial.keys().collect::<Vec<_>>(), "steps": h.steps.iter().map(|s| format!("{} {}", s.what, s.key)).collect::<Vec<_>>() }));
        }
        rep
    }
}

impl HistCheck {
    fn run_c04(&self, h: &History, ext: &str, rep: &mut CaseReport) {
        self.run_c04_mode(h, ext, rep, false)
    }

    fn run_c04_mode(&self, h: &History, ext: &str, rep: &mut CaseReport, hostile: bool) {
        let opts = MarkdownOptions {
            refs_extension: ext.to_string(),
        };
        let replay = |upto: usize| json!({"initial": h.initial, "refs_extension": ext, "steps": h.steps[..=upto].iter().map(|s| json!({"key": s.key, "what": s.what, "insert": s.insert, "text": s.text})).collect::<Vec<_>>()});
        let r = mon::catch(|| {
            let mut out: Vec<(usize, String, String)> = vec![];
            let mut db = Database::new(state(&h.initial), false, opts.clone());
            let mut texts = h.initial.clone();
            let mut events = 0u64;
            for (i, s) in h.steps.iter().enumerate() {
                if s.insert {
                    db.insert_document(s.key.as_str().into(), s.text.clone());
                } else {
                    db.update_document(s.key.as_str().into(), s.text.clone());
                }
                texts.insert(s.key.clone(), s.text.clone());
                let fresh = Database::new(state(&texts), false, opts.clone());
                let q = queries_for(&texts);
                let a = observe(&db, &texts, &q);
                let b = observe(&fresh, &texts, &q);
                events += a.len() as u64;
                if a != b {
                    for (k, va) in &a {
                        let vb = b.get(k).cloned().unwrap_or_default();
                        if *va != vb {
                            out.push((i, k.clone(), format!("incremental {:?} vs fresh {:?}", va.chars().take(300).collect::<String>(), vb.chars().take(300).collect::<String>())));
                        }
                    }
                    break;
                }
            }
            (out, events)
        });
        match r {
            Ok((diffs, events)) => {
                rep.count("events", events);
                rep.count("steps_compared", h.steps.len() as u64);
                for (i, comp, detail) in diffs.into_iter().take(4) {
                    let clause = comp.split(':').next().unwrap_or("").to_string();
                    rep.violate(
                        &format!("stale-{}", clause),
                        if hostile { "hostile" } else { "clean" },
                        format!("after step {} ({} {}): {} differs: {}", i, h.steps[i].what, h.steps[i].key, comp, detail),
                        replay(i),
                    );
                }
            }
            Err(_) if hostile => rep.count("hostile_histories_that_panicked", 1),
            Err(p) => rep.violate("panic", &format!("{}@clean", p.signature()), p.message.clone(), replay(h.steps.len() - 1)),
        }
    }

    /// the same comparison at the LSP boundary: a server that received the history as didChange / didSave
    /// notifications vs. a server freshly started on the final texts
    fn run_c04_lsp(&self, h: &History, ext: &str, rep: &mut CaseReport) {
        use crate::lsp::{Outcome, Server};
        if h.initial.is_empty() {
            return; // an empty state would make main_loop read the (non-existent) base directory
        }
        crate::lsp::reset_log();
        let mut inc = Server::start_mem(&h.initial, ext);
        let mut texts = h.initial.clone();
        for (i, s) in h.steps.iter().enumerate() {
            if i % 2 == 0 {
                inc.did_change(&s.key, &s.text);
            } else {
                inc.did_save(&s.key, &s.text);
            }
            texts.insert(s.key.clone(), s.text.clone());
        }
        // the editor also tells the server about documents that are not notes (a file next to the library, an unsaved
        // buffer, a text file inside the library): a server started on the library's files knows nothing of them
        let first = texts.keys().next().cloned().unwrap_or_default();
        for uri in ["file:///elsewhere/README.md".to_string(), "untitled:Untitled-1".to_string(), format!("{}todo.txt", inc.uri("x").trim_end_matches("x.md"))] {
            let text = format!("# not a note\n\nsee [it]({})\n", first);
            inc.notify("textDocument/didChange", json!({"textDocument": {"uri": uri, "version": 3}, "contentChanges": [{"text": text}]}));
            inc.notify("textDocument/didSave", json!({"textDocument": {"uri": uri}, "text": text}));
        }
        let mut fresh = Server::start_mem(&texts, ext);
        let replay = json!({"initial": h.initial, "refs_extension": ext, "via": "lsp", "steps": h.steps.iter().map(|s| json!({"key": s.key, "what": s.what, "text": s.text})).collect::<Vec<_>>()});
        let strip = |v: serde_json::Value| -> String {
            // node ids inside code-action data differ between the two servers by construction
            let mut v = v;
            // completion items are sorted by label only; the order among equal labels is not part of any
            // property (it follows hash-map order): compare them as a set
            if let Some(items) = v.get_mut("items").and_then(|i| i.as_array_mut()) {
                items.sort_by_key(|i| i.to_string());
            }
            if let Some(a) = v.as_array_mut() {
                for x in a.iter_mut() {
                    if let Some(o) = x.as_object_mut() {
                        o.remove("data");
                    }
                }
            }
            v.to_string()
        };
        let as_set = |m: &str, v: serde_json::Value| -> serde_json::Value {
            // find-references reports a set of places; only the grouping by file is ordered
            let mut v = v;
            if m == "textDocument/references" {
                if let Some(a) = v.as_array_mut() {
                    a.sort_by_key(|l| l.to_string());
                }
            }
            v
        };
        let mut ask = |m: &str, p: serde_json::Value| -> (String, String) {
            let a = match inc.request(m, p.clone()) { Outcome::Result(v) => strip(as_set(m, v)), o => format!("{:?}", o) };
            let b = match fresh.request(m, p) { Outcome::Result(v) => strip(as_set(m, v)), o => format!("{:?}", o) };
            (a, b)
        };
        let mut diffs = vec![];
        let mut order_diffs: Vec<(String, String)> = vec![];
        for (k, t) in &texts {
            let uri = format!("file:///basepath/{}.md", k);
            let mut reqs = vec![
                ("textDocument/formatting", json!({"textDocument": {"uri": uri}, "options": {"tabSize": 2, "insertSpaces": true}})),
                ("textDocument/references", json!({"textDocument": {"uri": uri}, "position": {"line": 0, "character": 0}, "context": {"includeDeclaration": false}})),
                ("textDocument/inlayHint", json!({"textDocument": {"uri": uri}, "range": {"start": {"line": 0, "character": 0}, "end": {"line": 100000, "character": 0}}})),
                ("textDocument/documentSymbol", json!({"textDocument": {"uri": uri}})),
                ("textDocument/completion", json!({"textDocument": {"uri": uri}, "position": {"line": 0, "character": 0}})),
            ];
            for line in 0..t.lines().count().min(30) {
                reqs.push(("textDocument/codeAction", json!({"textDocument": {"uri": uri}, "range": {"start": {"line": line, "character": 0}, "end": {"line": line, "character": 0}}, "context": {"diagnostics": []}})));
            }
            for (m, p) in reqs {
                rep.count("lsp_comparisons", 1);
                let (a, b) = ask(m, p.clone());
                if a != b && diffs.len() < 3 {
                    // same elements in a different order? (a separate, weaker clause)
                    let sorted = |t: &str| -> Option<Vec<String>> {
                        serde_json::from_str::<Vec<serde_json::Value>>(t).ok().map(|v| {
                            let mut x: Vec<String> = v.iter().map(|e| e.to_string()).collect();
                            x.sort();
                            x
                        })
                    };
                    if sorted(&a).is_some() && sorted(&a) == sorted(&b) {
                        order_diffs.push((m.to_string(), format!("{} on {}: same entries, different order", m, k)));
                        continue;
                    }
                    let i = a.chars().zip(b.chars()).position(|(x, y)| x != y).unwrap_or(0).saturating_sub(60);
                    diffs.push(format!("{} on {} {}: first difference: incremental …{} vs fresh …{}", m, k, p.get("range").map(|r| r.to_string()).unwrap_or_default(), a.chars().skip(i).take(700).collect::<String>(), b.chars().skip(i).take(700).collect::<String>()));
                }
            }
        }
        for q in ["", "alpha", "a"] {
            rep.count("lsp_comparisons", 1);
            let (a, b) = ask("workspace/symbol", json!({"query": q}));
            if a != b && diffs.len() < 3 {
                diffs.push(format!("workspace/symbol `{}`: incremental {} vs fresh {}", q, a.chars().take(240).collect::<String>(), b.chars().take(240).collect::<String>()));
            }
        }
        for d in diffs {
            rep.violate("stale-lsp-answer", "clean", d, replay.clone());
        }
        for (m, d) in order_diffs.into_iter().take(1) {
            rep.violate("lsp-answer-order-depends-on-history", &m, d, replay.clone());
        }
        let _ = inc.shutdown();
        let _ = fresh.shutdown();
    }

    fn run_c20(&self, h: &History, ext: &str, rep: &mut CaseReport) {
        self.run_c20_mode(h, ext, rep, false)
    }

    fn run_c20_mode(&self, h: &History, ext: &str, rep: &mut CaseReport, hostile: bool) {
        let opts = MarkdownOptions {
            refs_extension: ext.to_string(),
        };
        let replay = json!({"initial": h.initial, "refs_extension": ext, "steps": h.steps.iter().map(|s| json!({"key": s.key, "what": s.what, "insert": s.insert, "text": s.text})).collect::<Vec<_>>()});
        crate::hooks::install_graph_hook();
        crate::hooks::graph_hook_reset();
        let r = mon::catch(|| {
            let mut viol: Vec<(String, String)> = vec![];
            let mut db = Database::new(state(&h.initial), false, opts.clone());
            let mut texts = h.initial.clone();
            let mut prev_len = db.graph().nodes().len();
            let mut prev_tomb: Vec<bool> = db.graph().nodes().iter().map(|n| n.is_empty()).collect();
            let mut stats = walker::WalkStats::default();
            let mut check = |db: &Database, texts: &BTreeMap<String, String>, what: &str, viol: &mut Vec<(String, String)>| {
                let w = walker::walk(db.graph());
                stats.nav_checked += w.stats.nav_checked;
                stats.live += w.stats.live;
                stats.tombstones += w.stats.tombstones;
                stats.nodes += 1;
                for (c, d) in w.violations {
                    viol.push((c, format!("{}: {}", what, d)));
                }
                // DFS order == source block order
                for (k, t) in texts.iter().filter(|_| !hostile) {
                    let scan = mdscan::scan(t);
                    let expect: Vec<String> = scan
                        .atoms
                        .iter()
                        .filter_map(|a| match &a.kind {
                            mdscan::AKind::Para | mdscan::AKind::Heading(_) => {
                                if a.links.first().map(|&l| scan.links[l].block_ref).unwrap_or(false) {
                                    let l = &scan.links[a.links[0]];
                                    Some(format!("ref:{}", mdscan::resolve(&l.dest, &mdscan::key_dir(k)).unwrap_or_default()))
                                } else {
                                    Some(a.text.split_whitespace().collect::<Vec<_>>().join(" "))
                                }
                            }
                            mdscan::AKind::Code(_) => Some("code".into()),
                            mdscan::AKind::Rule => Some("rule".into()),
                            mdscan::AKind::Table(_) => Some("table".into()),
                            _ => None,
                        })
                        .collect();
                    if let Some(order) = w.order.get(k) {
                        // a block without text of its own (an empty heading, a list item that starts with a code block)
                        // is a position, not content: compare the non-empty entries
                        let got: Vec<String> = walker::dfs_texts(db.graph(), order).into_iter().filter(|t| !t.is_empty()).collect();
                        let expect: Vec<String> = expect.into_iter().filter(|t| !t.is_empty()).collect();
                        if got != expect {
                            viol.push(("dfs-order-differs-from-source".into(), format!("{}: note {}: walk {:?} vs source {:?}", what, k, got, expect)));
                        }
                    } else {
                        viol.push(("note-missing".into(), format!("{}: note {} has no root", what, k)));
                    }
                }
            };
            check(&db, &texts, "initial import", &mut viol);
            for (i, s) in h.steps.iter().enumerate() {
                if s.insert {
                    db.insert_document(s.key.as_str().into(), s.text.clone());
                } else {
                    db.update_document(s.key.as_str().into(), s.text.clone());
                }
                texts.insert(s.key.clone(), s.text.clone());
                let nodes = db.graph().nodes();
                if nodes.len() < prev_len {
                    viol.push(("arena-shrank".into(), format!("step {}: {} -> {}", i, prev_len, nodes.len())));
                }
                for (j, was) in prev_tomb.iter().enumerate() {
                    if *was && j < nodes.len() && !nodes[j].is_empty() {
                        viol.push(("tombstone-revived".into(), format!("step {}: node {} reused", i, j)));
                        break;
                    }
                }
                prev_len = nodes.len();
                prev_tomb = nodes.iter().map(|n| n.is_empty()).collect();
                check(&db, &texts, &format!("after step {} ({} {})", i, s.what, s.key), &mut viol);
                // patch graphs built from trees, as the request handlers do
                let key: Key = s.key.as_str().into();
                let g = db.graph();
                let mut patch = g.new_patch();
                patch.build_key_from_iter(&key, TreeIter::new(&g.collect(&key)));
                let squashed = g.squash(&key, 2);
                patch.build_key_from_iter(&"squashed".into(), TreeIter::new(&squashed));
                let _ = patch.export_key(&key);
                let w = walker::walk(&patch);
                for (c, d) in w.violations {
                    viol.push((c, format!("patch graph at step {}: {}", i, d)));
                }
                // operations on one note never disturb another: exports of untouched notes stay put
                let _ = db.graph().node(db.graph().get_document_id(&key)).to_child().map(|c| c.id());
            }
            (viol, stats)
        });
        let (hook_graphs, hook_viol) = crate::hooks::graph_hook_take();
        rep.count("h2_graphs_walked", hook_graphs);
        match r {
            Ok((viol, stats)) => {
                rep.count("events", stats.nodes as u64 + hook_graphs);
                rep.count("walks", stats.nodes as u64);
                rep.count("live_nodes_walked", stats.live as u64);
                rep.count("tombstones_seen", stats.tombstones as u64);
                rep.count("navigation_checks", stats.nav_checked as u64);
                for (c, d) in viol.into_iter().chain(hook_viol.into_iter()).take(4) {
                    rep.violate(&c, if hostile { "hostile" } else { "clean" }, d, replay.clone());
                }
            }
            Err(_) if hostile => rep.count("hostile_histories_that_panicked", 1),
            Err(p) => rep.violate("panic", &format!("{}@clean", p.signature()), p.message.clone(), replay.clone()),
        }
    }
}
