//! C11: no edit notification is lost, whatever requests are in flight.
//! The harness is the scheduler: hook H1 gates hold in-flight request workers at chosen phases.

use crate::checks::norm::export_lib;
use crate::lsp::{self, Ev, Outcome, Phase, Server};
use crate::mon::{self, CaseReport, Check, Plan, Tier};
use crate::rng::{fnv, Rng};
use serde_json::json;
use std::collections::BTreeMap;
use std::time::Duration;

pub struct C11;

#[derive(Clone, Debug)]
pub struct Schedule {
    /// index into METHODS for every in-flight request
    pub methods: Vec<usize>,
    pub phases: Vec<Phase>,
    pub release_order: Vec<usize>,
    pub save: bool,
    pub same_key: bool,
}

fn permutations(n: usize) -> Vec<Vec<usize>> {
    fn rec(cur: &mut Vec<usize>, used: &mut Vec<bool>, n: usize, out: &mut Vec<Vec<usize>>) {
        if cur.len() == n {
            out.push(cur.clone());
            return;
        }
        for i in 0..n {
            if !used[i] {
                used[i] = true;
                cur.push(i);
                rec(cur, used, n, out);
                cur.pop();
                used[i] = false;
            }
        }
    }
    let mut out = vec![];
    rec(&mut vec![], &mut vec![false; n], n, &mut out);
    out
}

pub fn all_schedules(max_k: usize) -> Vec<Schedule> {
    let ph = [Phase::Started, Phase::Acquired, Phase::Computed, Phase::Exited];
    let mut out = vec![];
    // k = 1 with the worker parked inside its computation: every request method of the router once
    for m in 0..METHODS.len() {
        for save in [false, true] {
            for same_key in [false, true] {
                out.push(Schedule { methods: vec![m], phases: vec![Phase::Acquired], release_order: vec![0], save, same_key });
            }
        }
    }
    for k in 0..=max_k {
        let mut vecs: Vec<Vec<Phase>> = vec![vec![]];
        for _ in 0..k {
            let mut next = vec![];
            for v in &vecs {
                for p in ph {
                    let mut w = v.clone();
                    w.push(p);
                    next.push(w);
                }
            }
            vecs = next;
        }
        for phases in vecs {
            for order in permutations(k) {
                for save in [false, true] {
                    for same_key in [false, true] {
                        out.push(Schedule {
                            methods: (0..k).map(|i| (i * 5 + out.len()) % METHODS.len()).collect(),
                            phases: phases.clone(),
                            release_order: order.clone(),
                            save,
                            same_key,
                        });
                    }
                }
            }
        }
    }
    out
}

/// every request method the router dispatches (each arm takes the server handle)
pub const METHODS: &[&str] = &[
    "textDocument/formatting",
    "textDocument/rename",
    "textDocument/codeAction",
    "codeAction/resolve",
    "textDocument/references",
    "textDocument/definition",
    "textDocument/prepareRename",
    "textDocument/documentSymbol",
    "workspace/symbol",
    "textDocument/inlayHint",
    "textDocument/inlineValues",
    "textDocument/completion",
    "completionItem/resolve",
];

fn params_for(method: &str, uri: &str) -> serde_json::Value {
    match method {
        "textDocument/formatting" => json!({"textDocument": {"uri": uri}, "options": {"tabSize": 2, "insertSpaces": true}}),
        "textDocument/rename" => json!({"textDocument": {"uri": uri}, "position": {"line": 2, "character": 2}, "newName": "renamed"}),
        "textDocument/codeAction" => json!({"textDocument": {"uri": uri}, "range": {"start": {"line": 0, "character": 0}, "end": {"line": 0, "character": 0}}, "context": {"diagnostics": []}}),
        "codeAction/resolve" => json!({"title": "Section to list", "kind": "refactor.rewrite.section.list", "data": 1}),
        "textDocument/references" => json!({"textDocument": {"uri": uri}, "position": {"line": 0, "character": 0}, "context": {"includeDeclaration": false}}),
        "textDocument/definition" | "textDocument/prepareRename" => json!({"textDocument": {"uri": uri}, "position": {"line": 2, "character": 2}}),
        "textDocument/documentSymbol" => json!({"textDocument": {"uri": uri}}),
        "workspace/symbol" => json!({"query": ""}),
        "textDocument/inlayHint" => json!({"textDocument": {"uri": uri}, "range": {"start": {"line": 0, "character": 0}, "end": {"line": 100, "character": 0}}}),
        "textDocument/inlineValues" => json!({"textDocument": {"uri": uri}, "range": {"start": {"line": 0, "character": 0}, "end": {"line": 1, "character": 0}}, "context": {"frameId": 1, "stoppedLocation": {"start": {"line": 0, "character": 0}, "end": {"line": 1, "character": 0}}}}),
        "textDocument/completion" => json!({"textDocument": {"uri": uri}, "position": {"line": 0, "character": 0}}),
        _ => json!({"label": "x"}),
    }
}

fn lib0() -> BTreeMap<String, String> {
    let mut l = BTreeMap::new();
    l.insert("a".to_string(), "# a v0\n\n[x](b)\n".to_string());
    l.insert("b".to_string(), "# b v0\n\ntext\n".to_string());
    l
}

const WD: Duration = Duration::from_secs(20);

impl C11 {
    /// bounded progress: a schedule that stalls (no exit / no applied notification within the limit although every
    /// gate is open) is re-run once on a fresh server; two stalls in a row are a verdict, one is inconclusive
    fn run_schedule(&self, sch: &Schedule, tag: u64, rep: &mut CaseReport) {
        let mut probe = CaseReport::new(rep.case);
        if !self.run_schedule_once(sch, tag, &mut probe) {
            let mut second = CaseReport::new(rep.case);
            if !self.run_schedule_once(sch, tag + 100_000, &mut second) {
                rep.violate(
                    "no-progress-after-release",
                    &phase_locus(sch),
                    format!("twice in a row: with requests {:?} parked at {:?} and released, the notification was not applied or a worker did not finish within {} s (all gates open): the server is wedged", sch.methods.iter().map(|m| METHODS[*m % METHODS.len()]).collect::<Vec<_>>(), sch.phases, WD.as_secs()),
                    json!({"schedule": format!("{:?}", sch)}),
                );
                rep.count("events", 1);
                return;
            }
            rep.inconclusive.push("one stall, not reproduced".into());
            return;
        }
        rep.violations.extend(probe.violations);
        rep.inconclusive.extend(probe.inconclusive);
        rep.shapes.extend(probe.shapes);
        for (k, v) in probe.counters {
            rep.count(&k, v);
        }
    }

    /// returns false when the schedule stalled (bounded-progress limit hit after all gates were opened)
    fn run_schedule_once(&self, sch: &Schedule, tag: u64, rep: &mut CaseReport) -> bool {
        lsp::reset_log();
        mon::drain_thread_panics();
        let mut lib = lib0();
        let mut s = Server::start_mem(&lib, "");
        let replay = json!({"schedule": format!("{:?}", sch)});
        // 1. park k formatting requests at their phases
        let mut ids = vec![];
        for (i, ph) in sch.phases.iter().enumerate() {
            let key = if i % 2 == 0 { "a" } else { "b" };
            let uri = s.uri(key);
            // gate before the request exists: ids are allocated by the driver, so reserve via send + immediate gate is racy;
            // instead gate *all* phases of the next id first
            let method = METHODS[sch.methods.get(i).cloned().unwrap_or(0) % METHODS.len()];
            let id = s.send_gated(method, params_for(method, &uri), *ph);
            if !lsp::wait_parked(id, *ph, WD) {
                rep.inconclusive.push(format!("worker {} never parked at {:?}", id, ph));
                lsp::release_all();
                s.kill();
                return true;
            }
            ids.push(id);
        }
        // 2. the notification, with a unique version title
        let key = if sch.same_key { "a" } else { "b" };
        let text = format!("# {} v{}\n\nedited {}\n", key, tag, tag);
        let mark = lsp::event_mark();
        if sch.save {
            s.did_save(key, &text);
        } else {
            s.did_change(key, &text);
        }
        lib.insert(key.to_string(), text.clone());
        // 3. the loop thread handles it (applied or panicked) — a logical event. While a worker is parked inside its
        // computation (Acquired) the loop thread legitimately waits for it, so nothing can be observed before release.
        let inside = sch.phases.iter().any(|p| *p == Phase::Acquired);
        let handled_pred = |ev: &[(u64, Ev)], _: &std::collections::HashSet<(i32, Phase)>| ev[mark.min(ev.len())..].iter().any(|e| matches!(e.1, Ev::Applied(_) | Ev::LoopPanicked(_)));
        let mut after = None;
        if inside {
            // let the loop thread reach its request for exclusive access before the parked reader goes on: a reader that
            // asks for the server a second time then meets a queued writer (the interleaving a slow request produces)
            let taken = |ev: &[(u64, Ev)], _: &std::collections::HashSet<(i32, Phase)>| ev[mark.min(ev.len())..].iter().any(|e| matches!(e.1, Ev::Taken(_) | Ev::LoopPanicked(_)));
            if !lsp::wait_for_quiet(taken, WD) {
                lsp::release_all();
                s.kill();
                return false;
            }
            std::thread::sleep(std::time::Duration::from_millis(15));
            rep.count("writer_queued_behind_parked_reader", 1);
        }
        if !inside {
            if !lsp::wait_for_quiet(handled_pred, WD) {
                lsp::release_all();
                s.kill();
                return false;
            }
            // a request issued after the notification must see it
            after = s.formatted_text(key);
        }
        // 4. release in the chosen order; from here on every gate opens, so progress is owed
        for &i in &sch.release_order {
            lsp::release(ids[i], sch.phases[i]);
            let id = ids[i];
            // while another worker is still parked inside its computation, a released worker may have to wait for it
            // (the loop thread's pending edit goes first): progress is only owed once every gate is open
            if !inside && !lsp::wait_for_quiet(|ev, _| ev.iter().any(|e| matches!(e.1, Ev::Exited(x, _) if x == id)), WD) {
                lsp::release_all();
                s.kill();
                return false;
            }
        }
        lsp::release_all();
        for &id in &ids {
            if !lsp::wait_for_quiet(|ev, _| ev.iter().any(|e| matches!(e.1, Ev::Exited(x, _) if x == id)), WD) {
                s.kill();
                return false;
            }
        }
        if inside {
            if !lsp::wait_for_quiet(handled_pred, WD) {
                s.kill();
                return false;
            }
            after = s.formatted_text(key);
        }
        for id in &ids {
            let o = s.outcome(*id, WD);
            if !o.answered() {
                rep.violate("in-flight-request-unanswered", "gated-request", format!("{:?}", o), replay.clone());
            }
        }
        // 5. quiescence: every note equals the last text sent for it
        let want = export_lib(&lib, "");
        let evs = lsp::events_since(0);
        let phase_vector = format!("{:?}|save={}|same={}", sch.phases, sch.save, sch.same_key);
        let witness = format!("in-flight phases {:?}, events: {:?}", sch.phases, evs.iter().take(16).collect::<Vec<_>>());
        if after.as_ref() != want.get(key) {
            rep.violate(
                "request-after-notification-saw-old-state",
                &phase_locus(sch),
                format!("formatting({}) issued after the notification returned {:?}; {}", key, after.map(|s| s.lines().next().unwrap_or("").to_string()), witness),
                replay.clone(),
            );
        }
        for k in ["a", "b"] {
            let got = s.formatted_text(k);
            if got.as_ref() != want.get(k) {
                rep.violate(
                    "notification-lost",
                    &phase_locus(sch),
                    format!("at quiescence formatting({}) = {:?}, last text sent starts {:?}; {}", k, got.map(|s| s.lines().next().unwrap_or("").to_string()), lib[k].lines().next(), witness),
                    replay.clone(),
                );
                break;
            }
        }
        if let Some(Ev::LoopPanicked(m)) = evs.iter().find(|e| matches!(e, Ev::LoopPanicked(_))) {
            rep.violate("loop-thread-panicked", &phase_locus(sch), format!("{}; {}", m, witness), replay.clone());
        }
        rep.count("events", 1);
        rep.count("h1_events", evs.len() as u64);
        rep.shape(fnv(&phase_vector));
        if !s.shutdown() {
            rep.violate("unclean-shutdown", "after-schedule", "main_loop did not end Ok".into(), replay);
        }
        true
    }

    fn run_flood(&self, rng: &mut Rng, n_msgs: usize, rep: &mut CaseReport) {
        lsp::reset_log();
        mon::drain_thread_panics();
        let mut lib = lib0();
        lib.insert("c".to_string(), "# c v0\n".to_string());
        let mut s = Server::start_mem(&lib, "");
        let keys = ["a", "b", "c"];
        let mut ids = vec![];
        let mut script = vec![];
        for i in 0..n_msgs {
            let k = *rng.pick(&keys);
            match rng.below(5) {
                0 | 1 => {
                    let text = format!("# {} v{}\n\nflood {}\n\n[l](a)\n", k, i + 1, i);
                    if rng.chance(1, 2) {
                        s.did_change(k, &text);
                    } else {
                        s.did_save(k, &text);
                    }
                    lib.insert(k.to_string(), text);
                    script.push(format!("edit {}", k));
                }
                2 => {
                    let uri = s.uri(k);
                    ids.push(s.send("textDocument/formatting", json!({"textDocument": {"uri": uri}, "options": {"tabSize": 2, "insertSpaces": true}})));
                    script.push(format!("format {}", k));
                }
                3 => {
                    ids.push(s.send("workspace/symbol", json!({"query": ""})));
                    script.push("symbols".into());
                    // now and then a well-typed notification that changes nothing (no content changes):
                    // whatever it does to the server, later edits must still be applied
                    if rng.chance(1, 4) {
                        let uri = s.uri(k);
                        s.notify("textDocument/didChange", json!({"textDocument": {"uri": uri, "version": 9}, "contentChanges": []}));
                        script.push("empty didChange".into());
                    }
                }
                _ => {
                    let uri = s.uri(k);
                    ids.push(s.send("textDocument/inlayHint", json!({"textDocument": {"uri": uri}, "range": {"start": {"line": 0, "character": 0}, "end": {"line": 100, "character": 0}}})));
                    script.push(format!("hints {}", k));
                }
            }
            if rng.chance(1, 6) {
                std::thread::yield_now();
            }
        }
        let replay = json!({"flood": script});
        for id in &ids {
            match s.outcome(*id, WD) {
                Outcome::Result(_) | Outcome::Error(..) => {}
                Outcome::Watchdog => rep.inconclusive.push("flood: watchdog".into()),
                o => rep.violate("in-flight-request-unanswered", "flood", format!("{:?}", o), replay.clone()),
            }
        }
        let want = export_lib(&lib, "");
        for k in keys {
            let got = s.formatted_text(k);
            if got.as_ref() != want.get(k) {
                rep.violate(
                    "notification-lost",
                    "flood",
                    format!("after the flood formatting({}) starts {:?}, last text sent starts {:?}", k, got.map(|s| s.lines().next().unwrap_or("").to_string()), lib[k].lines().next()),
                    replay.clone(),
                );
                break;
            }
        }
        let evs = lsp::events_since(0);
        // the loop thread may reject the empty didChange (it carries no edit); any other panic loses an edit
        let empties = script.iter().filter(|l| *l == "empty didChange").count();
        let panics: Vec<&Ev> = evs.iter().filter(|e| matches!(e, Ev::LoopPanicked(_))).collect();
        if panics.len() > empties {
            if let Some(Ev::LoopPanicked(m)) = panics.first() {
                rep.violate("loop-thread-panicked", "flood", m.clone(), replay.clone());
            }
        }
        // distinct interleavings observed: order of started/applied events
        let order: Vec<String> = evs
            .iter()
            .map(|e| match e {
                Ev::Started(_) => "s".to_string(),
                Ev::Acquired(_) => "a".to_string(),
                Ev::Computed(_) => "c".to_string(),
                Ev::Exited(..) => "x".to_string(),
                Ev::Taken(_) => "t".to_string(),
                Ev::Applied(_) => "A".to_string(),
                Ev::LoopPanicked(_) => "P".to_string(),
            })
            .collect();
        rep.shape(fnv(&order.join("")));
        rep.count("events", 1);
        rep.count("flood_messages", n_msgs as u64);
        rep.count("h1_events", evs.len() as u64);
        let _ = s.shutdown();
    }
}

impl C11 {
    /// random history of <= 24 messages with up to 3 workers parked at random phases
    fn run_random_history(&self, rng: &mut Rng, rep: &mut CaseReport) {
        lsp::reset_log();
        mon::drain_thread_panics();
        let mut lib = lib0();
        let mut s = Server::start_mem(&lib, "");
        let keys = ["a", "b"];
        let mut held: Vec<(i32, Phase)> = vec![];
        let mut all_ids: Vec<i32> = vec![];
        let mut script: Vec<String> = vec![];
        let n = rng.range(6, 24);
        let mut version = 0;
        for _ in 0..n {
            match rng.below(6) {
                0 | 1 if held.len() < 3 => {
                    let ph = *rng.pick(&[Phase::Started, Phase::Computed, Phase::Exited]);
                    let k = *rng.pick(&keys);
                    let uri = s.uri(k);
                    let id = s.send_gated("textDocument/formatting", json!({"textDocument": {"uri": uri}, "options": {"tabSize": 2, "insertSpaces": true}}), ph);
                    if !lsp::wait_parked(id, ph, WD) {
                        rep.inconclusive.push("worker never parked".into());
                        lsp::release_all();
                        s.kill();
                        return;
                    }
                    held.push((id, ph));
                    all_ids.push(id);
                    script.push(format!("hold {} at {:?}", id, ph));
                }
                2 | 3 => {
                    version += 1;
                    let k = *rng.pick(&keys);
                    let text = format!("# {} v{}\n\nhistory {}\n", k, version, version);
                    let mark = lsp::event_mark();
                    if rng.chance(1, 2) {
                        s.did_change(k, &text);
                    } else {
                        s.did_save(k, &text);
                    }
                    lib.insert(k.to_string(), text);
                    script.push(format!("edit {} v{}", k, version));
                    let _ = lsp::wait_for(|ev, _| ev[mark.min(ev.len())..].iter().any(|e| matches!(e.1, Ev::Applied(_) | Ev::LoopPanicked(_))), WD);
                    // a request issued after the notification is answered from a state that includes it
                    let got = s.formatted_text(k);
                    let want = export_lib(&lib, "");
                    if got.as_ref() != want.get(k) {
                        rep.violate("request-after-notification-saw-old-state", "random-history", format!("after `{}` with workers held at {:?}: formatting({}) starts {:?}", script.last().unwrap(), held, k, got.map(|t| t.lines().next().unwrap_or("").to_string())), json!({"script": script}));
                    }
                }
                4 if !held.is_empty() => {
                    let i = rng.below(held.len());
                    let (id, ph) = held.remove(i);
                    lsp::release(id, ph);
                    let _ = lsp::wait_exited(id, WD);
                    script.push(format!("release {}", id));
                }
                _ => {
                    let k = *rng.pick(&keys);
                    let _ = s.formatted_text(k);
                    script.push(format!("format {}", k));
                }
            }
        }
        lsp::release_all();
        for id in &all_ids {
            let o = s.outcome(*id, WD);
            if !o.answered() {
                rep.violate("in-flight-request-unanswered", "random-history", format!("{:?}", o), json!({"script": script}));
            }
        }
        let want = export_lib(&lib, "");
        for k in keys {
            let got = s.formatted_text(k);
            if got.as_ref() != want.get(k) {
                rep.violate("notification-lost", "random-history", format!("at quiescence formatting({}) starts {:?}, last text sent starts {:?}", k, got.map(|t| t.lines().next().unwrap_or("").to_string()), lib[k].lines().next()), json!({"script": script}));
                break;
            }
        }
        let evs = lsp::events_since(0);
        if let Some(Ev::LoopPanicked(m)) = evs.iter().find(|e| matches!(e, Ev::LoopPanicked(_))) {
            rep.violate("loop-thread-panicked", "random-history", m.clone(), json!({"script": script}));
        }
        rep.shape(fnv(&script.iter().map(|l| l.split(' ').next().unwrap_or("").to_string() + l.rsplit(' ').next().unwrap_or("")).collect::<Vec<_>>().join(",")));
        rep.count("events", 1);
        rep.count("random_histories", 1);
        rep.count("h1_events", evs.len() as u64);
        let _ = s.shutdown();
    }
}

fn phase_locus(s: &Schedule) -> String {
    // which in-flight phases were alive when the notification arrived (sorted, deduplicated)
    let mut p: Vec<&str> = s
        .phases
        .iter()
        .map(|p| match p {
            Phase::Started => "started",
            Phase::Acquired => "acquired",
            Phase::Computed => "computed",
            Phase::Exited => "exited",
        })
        .collect();
    p.sort();
    p.dedup();
    format!("in-flight:{}", p.join("+"))
}

impl Check for C11 {
    fn id(&self) -> &'static str {
        "C11"
    }
    fn rule(&self) -> String {
        "schedules = every vector of in-flight request phases (worker parked at started / acquired = inside the computation holding its server handle / result computed / exited, via hook H1 gates) x every request method the router serves for k <= 2 (quick) or k <= 3 (thorough) x {didChange, didSave} x {same note, other note} x every release order, enumerated exhaustively; plus hook-free floods of mixed messages sent without waiting (final-state check only) and random longer histories; oracle = last-writer-wins register per note, checked at quiescence and for a request issued right after the notification; a notification that cannot be applied while a worker is parked at `acquired` is judged by bounded progress: after the park is released the notification must be applied and the register must hold (a server that blocks the edit until the reader finishes is correct, one that drops it is not); distinct = phase vectors / event-order strings observed".into()
    }
    fn assumptions(&self) -> Vec<String> {
        vec![
            "interleavings are controlled at hook granularity (start of worker, after the worker took its server handle, after compute before respond, after the worker dropped its server handle); finer interleavings only by the OS scheduler in the flood variant".into(),
            "the started / computed / exited gates lie outside every critical section; the acquired gate lies inside the reader's critical section on purpose (a slow request), which the OS scheduler can also produce; the scheduler never waits for an event that the parked worker itself blocks".into(),
        ]
    }
    fn plan(&self, tier: Tier, _seed: u64) -> Plan {
        let n = all_schedules(tier.pick(2, 3)).len() as u64;
        Plan {
            cases: n + tier.pick(200, 10000),
            procs: 16,
            wall_s: 300,
            cpu_s: None,
        }
    }
    fn min_events(&self, tier: Tier) -> u64 {
        tier.pick(250, 8000)
    }
    fn run_case(&self, tier: Tier, seed: u64, case: u64) -> CaseReport {
        let mut rep = CaseReport::new(case);
        let schedules = all_schedules(tier.pick(2, 3));
        if (case as usize) < schedules.len() {
            let sch = &schedules[case as usize];
            self.run_schedule(sch, case + 1, &mut rep);
            if case % 40 == 0 {
                rep.sample = Some(json!({"schedule": format!("{:?}", sch), "h1_log": lsp::events_since(0).iter().map(|e| format!("{:?}", e)).collect::<Vec<_>>() }));
            }
        } else {
            let mut rng = Rng::for_case(seed, "c11-flood", case);
            if case % 2 == 0 {
                let n = rng.range(20, tier.pick(200, 400));
                self.run_flood(&mut rng, n, &mut rep);
            } else {
                self.run_random_history(&mut rng, &mut rep);
            }
        }
        rep
    }
}
