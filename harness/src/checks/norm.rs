//! C01 / C02 / C06 / C07: normalization family. One workload, four monitors.

use crate::libgen::{self, LibOpts};
use crate::mdscan;
use crate::mon::{self, CaseReport, Check, Plan, Tier};
use crate::oracle::{self, LibView};
use crate::rng::{fnv, Rng};
use liwe::database::Database;
use liwe::graph::Graph;
use liwe::model::config::MarkdownOptions;
use serde_json::json;
use std::collections::{BTreeMap, HashMap};

pub struct NormCheck {
    pub prop: &'static str,
}

/// pinned reproducers of known findings: (finding id, note text of key n1). The library also
/// holds n2 = "# Title Two". Every clause the oracle reports on one of these is tagged
/// `pinned:<id>` and is only accepted if known-findings.txt lists exactly that signature.
pub const PINNED: &[(&str, &str)] = &[
    ("soft-break", "line one\nline two\n"),
    ("hard-break", "hard  \nbreak\n"),
    ("table-cell-code", "| a |\n|---|\n| `x` |\n"),
    ("table-cell-image", "| a |\n|---|\n| ![alt](i.png) |\n"),
    ("table-cell-wiki", "| a |\n|---|\n| [[n2]] |\n"),
    ("item-rule", "- item\n\n  ***\n"),
    ("item-table", "- item\n\n  | a |\n  |---|\n  | b |\n"),
    ("tight-item-tail", "- a\n  ```\n  code\n  ```\n  tail\n"),
    ("item-heading-text", "- # head\n  text\n"),
    ("escapes", "\\*not emph\\* and 1\\. x\n\n1\\. not a list\n"),
    ("adjacent-lists", "- a\n\n* b\n"),
    ("dual-dash", "- - item one\n  - item two\n- plain\n"),
    ("wiki-piped-empty", "see [[n2|]] for more\n"),
    ("email-autolink", "write to <me@example.com> today\n\n<you@example.org>\n"),
    ("autolink-case", "see [https://e.com/README](https://e.com/readme) here\n"),
    ("adjacent-quotes-in-item", "- a\n\n  > q1\n\n  > q2\n- b\n"),
    ("dashes-open-quote", "> ---\n>\n> > ---\n\n# h\n\n---\n\nlast\n"),
    ("image-in-ref-text", "para\n\n[![alt](i.png) text](n2)\n"),
    ("title-with-link", "# About [x](n2)\n\n[old](n1)\n"),
    // pinned inputs without a finding (clean on the current tree): items that carry nothing in front of numbered items that
    // do - the numbers restart at 1, or a nested list right after the item's text would be read as that text -, and item
    // texts that begin with numerals outside ASCII
    ("empty-item-before-numbered-items", "- a\n  1. >\n  2. b\n\n1. c\n   1. >\n   2. d\n2. e\n"),
    ("wiki-image-in-cell", "| Screen | Preview |\n|--------|---------|\n| Login | ![[login.png\\|200]] |\n"),
    ("item-text-non-ascii-numeral", "- ٣ apples\n- ½ cup\n\n1. １日目 arrival\n2. ① first\n"),
];

fn to_state(texts: &BTreeMap<String, String>) -> HashMap<String, String> {
    texts.iter().map(|(k, v)| (k.clone(), v.clone())).collect()
}

pub fn export_lib(texts: &BTreeMap<String, String>, ext: &str) -> BTreeMap<String, String> {
    let g = Graph::import(
        &to_state(texts),
        MarkdownOptions {
            refs_extension: ext.to_string(),
        },
    );
    g.export().into_iter().collect()
}

fn shape_of(scan: &mdscan::Scan) -> u64 {
    let s: Vec<String> = scan
        .atoms
        .iter()
        .map(|a| format!("{}:{}", a.chain_kinds(), a.kind.name()))
        .collect();
    fnv(&s.join("|"))
}

pub fn lib_opts(tier: Tier, rng: &mut Rng) -> LibOpts {
    let mut o = LibOpts::clean();
    o.max_notes = tier.pick(5, 8);
    o.crlf = rng.chance(1, 8);
    o.profile.max_blocks = tier.pick(14, 40);
    o.profile.max_depth = tier.pick(3, 4);
    o.profile.long_lists = tier.pick(1, 2);
    o.foreign = true;
    o.profile.bracket_titles = true;
    o.profile.image_links = true;
    o
}

/// C07: every sequence of heading levels 1..=6 up to length 5 (quick) / 7 (thorough), sharded
const HEADING_SHARDS: u64 = 16;

fn heading_sequences_case(tier: Tier, shard: u64, rep: &mut CaseReport) {
    let max_len = tier.pick(5usize, 7usize);
    let mut seq: Vec<u8> = vec![];
    let mut index: u64 = 0;
    let mut identity = 0u64;
    let mut remapped = 0u64;
    // iterative enumeration in length-lexicographic order
    fn rec(seq: &mut Vec<u8>, max_len: usize, index: &mut u64, shard: u64, f: &mut dyn FnMut(&[u8])) {
        if !seq.is_empty() {
            if *index % HEADING_SHARDS == shard {
                f(seq);
            }
            *index += 1;
        }
        if seq.len() == max_len {
            return;
        }
        for l in 1..=6u8 {
            seq.push(l);
            rec(seq, max_len, index, shard, f);
            seq.pop();
        }
    }
    let mut violations: Vec<(String, String, String)> = vec![];
    let mut n = 0u64;
    let mut f = |levels: &[u8]| {
        n += 1;
        let mut text = String::new();
        for (i, l) in levels.iter().enumerate() {
            // setext spelling for some level 1-2 headings
            if *l <= 2 && (i + levels.len()) % 3 == 0 {
                text.push_str(&format!("head{}\n{}\n\n", i, if *l == 1 { "===" } else { "---" }));
            } else {
                text.push_str(&format!("{} head{}\n\n", "#".repeat(*l as usize), i));
            }
            text.push_str(&format!("para{}\n\n", i));
        }
        let mut texts = BTreeMap::new();
        texts.insert("n1".to_string(), text.clone());
        let out = match mon::catch(|| export_lib(&texts, "")) {
            Ok(o) => o["n1"].clone(),
            Err(p) => {
                violations.push(("panic".into(), format!("{:?}", levels), p.message));
                return;
            }
        };
        let view = LibView::new(&texts);
        let cmp = oracle::compare_norm(&view.scans["n1"], &mdscan::scan(&out), "", &view);
        if oracle::well_nested(levels) {
            identity += 1;
        } else {
            remapped += 1;
        }
        for d in cmp.c07.iter().chain(cmp.c01.iter()).take(1) {
            if violations.len() < 3 {
                violations.push((d.clause.to_string(), format!("levels {:?}", levels), format!("{} | input:\n{}output:\n{}", d.detail, text, out)));
            }
        }
        // formatting the result again changes nothing
        let mut t2 = BTreeMap::new();
        t2.insert("n1".to_string(), out.clone());
        if let Ok(o2) = mon::catch(|| export_lib(&t2, "")) {
            if o2["n1"] != out && violations.len() < 3 {
                violations.push(("not-fixpoint".into(), format!("levels {:?}", levels), out.clone()));
            }
        }
    };
    rec(&mut seq, max_len, &mut index, shard, &mut f);
    // beyond the exhaustive lengths: outlines that really reach depth six (the deepest Markdown has), and longer random ones
    if shard == 0 {
        for fixed in [
            &[1u8, 2, 3, 4, 5, 6][..],
            &[1, 2, 3, 4, 5, 6, 6],
            &[1, 2, 3, 4, 5, 6, 5, 6],
            &[1, 2, 3, 4, 5, 6, 2, 3, 4, 5, 6],
            &[1, 2, 3, 4, 5, 6, 1],
            &[2, 3, 4, 5, 6, 6],
            &[1, 3, 5, 6, 6, 6],
            &[6, 5, 4, 3, 2, 1],
        ] {
            f(fixed);
        }
    }
    let mut lrng = Rng::new(0x5eed ^ (shard + 1) * 7919);
    for _ in 0..tier.pick(40, 400) {
        let len = lrng.range(6, 10);
        let mut v: Vec<u8> = vec![];
        for i in 0..len {
            // mostly descend one level at a time so that deep chains are common
            let prev = v.last().cloned().unwrap_or(0);
            let l = if i == 0 { lrng.range(1, 2) as u8 } else if lrng.chance(2, 3) { (prev + 1).min(6) } else { lrng.range(1, 6) as u8 };
            v.push(l);
        }
        f(&v);
    }
    rep.count("events", n);
    rep.count("heading_sequences", n);
    rep.count("heading_sequences_well_nested_in", identity);
    rep.count("heading_sequences_remapped", remapped);
    rep.shape(fnv(&format!("heading-shard-{}", shard)));
    rep.shape(fnv(&format!("heading-shard-{}-b", shard)));
    for (c, l, d) in violations {
        rep.violate(&c, "heading-sequences", format!("{}: {}", l, d), json!({"levels": l}));
    }
}

fn random_cases(tier: Tier) -> u64 {
    tier.pick(3000, 60000)
}

impl Check for NormCheck {
    fn id(&self) -> &'static str {
        self.prop
    }
    fn rule(&self) -> String {
        "case = one generated library (1-8 notes, 0-2 directory levels, AST generator with randomised presentation, \
         generator<->scanner self-check) formatted under both refs_extension values through import/export, a \
         single-note graph and Database::update_document; distinct = structural shape hash (container chain + block \
         kind sequence) of notes whose formatted text differs from the input".into()
    }
    fn assumptions(&self) -> Vec<String> {
        vec![
            "pulldown-cmark's parser is trusted on both sides of every comparison".into(),
            "clean-mode grammar only (constructs with an open known finding are exercised by pinned reproducers)".into(),
        ]
    }
    fn plan(&self, tier: Tier, _seed: u64) -> Plan {
        Plan {
            cases: random_cases(tier) + PINNED.len() as u64 + if self.prop == "C07" { HEADING_SHARDS } else { 0 },
            procs: 16,
            wall_s: 120,
            cpu_s: None,
        }
    }
    fn min_events(&self, tier: Tier) -> u64 {
        tier.pick(500, 20000)
    }

    fn run_case(&self, tier: Tier, seed: u64, case: u64) -> CaseReport {
        let mut rep = CaseReport::new(case);
        if case >= random_cases(tier) + PINNED.len() as u64 {
            heading_sequences_case(tier, case - random_cases(tier) - PINNED.len() as u64, &mut rep);
            return rep;
        }
        let mut rng = Rng::for_case(seed, "norm", case);
        let o = lib_opts(tier, &mut rng);
        if self.prop == "C02" && case % 6 == 5 && case < random_cases(tier) {
            // fixpoint over hostile shapes (unusual-but-legal containers: items that start with lists, quotes or rules,
            // empty items and quotes, headings in items ...): no content oracle applies to them, but "formatting twice equals
            // formatting once" does
            let mut srng = Rng::for_case(seed, "norm-shapes", case);
            let mut texts = BTreeMap::new();
            texts.insert("n1".to_string(), crate::checks::crash03::shapes(&mut srng, 4));
            texts.insert("n2".to_string(), "# Title Two\n".to_string());
            rep.count("hostile_shape_documents", 1);
            if let Ok((a, b)) = mon::catch(|| {
                let a = export_lib(&texts, "");
                let b = export_lib(&a, "");
                (a, b)
            }) {
                if a != b {
                    let l = first_diff_line(&a["n1"], &b["n1"]);
                    rep.violate("not-fixpoint", "shapes", format!("hostile shapes: line {}: pass 1 {:?} pass 2 {:?}", l.0, l.1, l.2), json!({"library": texts}));
                }
            }
        }
        let pinned = if case >= random_cases(tier) {
            Some(PINNED[(case - random_cases(tier)) as usize])
        } else {
            None
        };
        let locus = pinned.map(|p| format!("pinned:{}", p.0)).unwrap_or_else(|| "clean".to_string());
        let locus = locus.as_str();
        let lib = match pinned {
            Some((_, text)) => {
                let mut texts = BTreeMap::new();
                texts.insert("n1".to_string(), text.to_string());
                texts.insert("n2".to_string(), "# Title Two\n".to_string());
                libgen::Lib { docs: BTreeMap::new(), texts, artefacts: 0 }
            }
            None => libgen::gen_lib(&mut rng, &o),
        };
        if pinned.is_some() {
            rep.count("pinned_reproducers", 1);
        }
        rep.count("generator_artefacts_dropped", lib.artefacts as u64);
        let view = LibView::new(&lib.texts);
        let replay = |ext: &str| json!({"case": case, "refs_extension": ext, "library": lib.texts});
        for ext in ["", ".md"] {
            // ---- path 1: whole library import/export
            let out1 = match mon::catch(|| export_lib(&lib.texts, ext)) {
                Ok(o) => o,
                Err(p) => {
                    rep.violate("panic", &format!("{}@{}", p.signature(), locus), format!("import/export panicked: {}", p.message), replay(ext));
                    continue;
                }
            };
            if out1.keys().collect::<Vec<_>>() != lib.texts.keys().collect::<Vec<_>>() {
                rep.violate("key-set", "export", format!("keys {:?} -> {:?}", lib.texts.keys(), out1.keys()), replay(ext));
                continue;
            }
            let out2 = match mon::catch(|| export_lib(&out1, ext)) {
                Ok(o) => o,
                Err(p) => {
                    rep.violate("panic", &format!("{}@{}", p.signature(), locus), format!("re-import panicked: {}", p.message), replay(ext));
                    continue;
                }
            };
            for (key, text) in &lib.texts {
                let dir = mdscan::key_dir(key);
                let sin = &view.scans[key];
                let o1 = &out1[key];
                let sout = mdscan::scan(o1);
                let cmp = oracle::compare_norm(sin, &sout, &dir, &view);
                rep.count("events", 1);
                rep.count("atoms_compared", cmp.atoms as u64);
                rep.count("links_compared", cmp.links_checked as u64);
                rep.count("link_titles_refreshed", cmp.refreshed as u64);
                if text != o1 {
                    rep.shape(shape_of(sin));
                    rep.count("input_differs_from_output", 1);
                }
                let diffs = match self.prop {
                    "C01" => cmp.c01,
                    "C06" => cmp.c06,
                    "C07" => cmp.c07,
                    _ => vec![],
                };
                for df in diffs.iter().take(3) {
                    rep.violate(df.clause, locus, format!("note {} ext `{}`: {}", key, ext, df.detail),
                        json!({"case": case, "refs_extension": ext, "key": key, "input": text, "output": o1, "library": lib.texts}));
                }
                if self.prop == "C02" {
                    // fixpoint inside the library
                    let o2 = &out2[key];
                    if o1 != o2 {
                        let l = first_diff_line(o1, o2);
                        rep.violate("not-fixpoint", locus, format!("note {} ext `{}` library pass 2 differs at line {}: {:?} vs {:?}", key, ext, l.0, l.1, l.2),
                            json!({"case": case, "refs_extension": ext, "key": key, "input": text, "pass1": o1, "pass2": o2, "library": lib.texts}));
                    }
                    // fixpoint alone (single-note graph)
                    let alone = |t: &str| {
                        let mut g = Graph::new_with_options(MarkdownOptions { refs_extension: ext.to_string() });
                        g.from_markdown(key.as_str().into(), t, liwe::markdown::MarkdownReader::new());
                        g.to_markdown(&key.as_str().into())
                    };
                    match mon::catch(|| { let a1 = alone(text); let a2 = alone(&a1); (a1, a2) }) {
                        Ok((a1, a2)) => {
                            rep.count("single_note_passes", 1);
                            if a1 != a2 {
                                let l = first_diff_line(&a1, &a2);
                                rep.violate("not-fixpoint-alone", locus, format!("note {} ext `{}` alone: pass 2 differs at line {}: {:?} vs {:?}", key, ext, l.0, l.1, l.2),
                                    json!({"case": case, "refs_extension": ext, "key": key, "input": text, "pass1": a1, "pass2": a2}));
                            }
                        }
                        Err(p) => rep.violate("panic", &format!("{}@{}", p.signature(), locus), format!("single note panicked: {}", p.message), replay(ext)),
                    }
                }
            }
            if self.prop == "C02" || self.prop == "C01" {
                // ---- path 3: Database with incremental update of every note by its own formatted text
                let r = mon::catch(|| {
                    let mut db = Database::new(to_state(&lib.texts), false, MarkdownOptions { refs_extension: ext.to_string() });
                    for (k, v) in &out1 {
                        db.update_document(k.as_str().into(), v.clone());
                    }
                    let e: BTreeMap<String, String> = db.graph().export().into_iter().collect();
                    e
                });
                match r {
                    Ok(e) => {
                        rep.count("update_passes", 1);
                        for (k, v) in &out1 {
                            if e.get(k) != Some(v) && self.prop == "C02" {
                                let l = first_diff_line(v, e.get(k).map(|s| s.as_str()).unwrap_or(""));
                                rep.violate("not-fixpoint-update", locus, format!("note {} ext `{}` after update_document(own output): line {}: {:?} vs {:?}", k, ext, l.0, l.1, l.2),
                                    json!({"case": case, "refs_extension": ext, "key": k, "pass1": v, "after_update": e.get(k), "library": lib.texts}));
                            }
                        }
                    }
                    Err(p) => rep.violate("panic", &format!("{}@{}", p.signature(), locus), format!("update path panicked: {}", p.message), replay(ext)),
                }
            }
        }
        // ---- path 5: formatting after an edit — a note is replaced (didChange-style) by the text of another
        // note; what the server then formats must say exactly what the new text says (nothing of the old
        // version may survive: front matter, titles, blocks)
        if self.prop == "C01" && pinned.is_none() && lib.texts.len() >= 2 {
            let keys: Vec<&String> = lib.texts.keys().collect();
            let k = keys[(case as usize) % keys.len()].clone();
            // the replacement text comes from a note of the same directory, so its relative links mean the same
            let k2 = keys.iter().cycle().skip((case as usize + 1) % keys.len()).take(keys.len()).find(|c| ***c != k && mdscan::key_dir(c) == mdscan::key_dir(&k)).map(|c| (*c).clone()).unwrap_or_else(|| k.clone());
            let new_text = lib.texts[&k2].clone();
            // an untouched note of the library, formatted after the edit of `k`
            let bystander = keys.iter().find(|c| ***c != k && ***c != k2).map(|c| (*c).clone());
            let r = mon::catch(|| {
                let mut db = Database::new(to_state(&lib.texts), false, MarkdownOptions::default());
                db.update_document(k.as_str().into(), new_text.clone());
                let by = bystander.as_ref().map(|b| db.graph().to_markdown(&b.as_str().into()));
                (db.graph().to_markdown(&k.as_str().into()), by)
            });
            match r {
                Ok((got, by)) => {
                    if let (Some(b), Some(by_text)) = (&bystander, by) {
                        let mut texts2 = lib.texts.clone();
                        texts2.insert(k.clone(), new_text.clone());
                        let view2 = LibView::new(&texts2);
                        let cmp = oracle::compare_norm(&view2.scans[b], &mdscan::scan(&by_text), &mdscan::key_dir(b), &view2);
                        rep.count("bystander_formats", 1);
                        for df in cmp.c01.iter().take(2) {
                            rep.violate(df.clause, "bystander-after-edit", format!("note {} (untouched) formatted after an edit of {}: {}", b, k, df.detail), json!({"case": case, "edited": k, "new": new_text, "bystander": b, "bystander_text": lib.texts[b], "formatted": by_text}));
                        }
                    }
                    let mut texts2 = lib.texts.clone();
                    texts2.insert(k.clone(), new_text.clone());
                    let view2 = LibView::new(&texts2);
                    let cmp = oracle::compare_norm(&view2.scans[&k], &mdscan::scan(&got), &mdscan::key_dir(&k), &view2);
                    rep.count("edit_then_format", 1);
                    for df in cmp.c01.iter().take(2) {
                        rep.violate(df.clause, "after-edit", format!("note {} replaced by the text of {}: {}", k, k2, df.detail), json!({"case": case, "key": k, "old": lib.texts[&k], "new": new_text, "formatted": got}));
                    }
                }
                Err(p) => rep.violate("panic", &format!("{}@after-edit", p.signature()), p.message.clone(), replay("")),
            }
        }
        // ---- path 4 (sample): the LSP formatting request on the real server threads must return the same
        // text as the library export, and be a fixpoint after didChange(own output)
        if case % 8 == 0 && pinned.is_none() && (self.prop == "C01" || self.prop == "C02") {
            let ext = if case % 16 == 0 { ".md" } else { "" };
            if let Ok(out1) = mon::catch(|| export_lib(&lib.texts, ext)) {
                crate::lsp::reset_log();
                let mut s = crate::lsp::Server::start_mem(&lib.texts, ext);
                for (key, want) in &out1 {
                    rep.count("lsp_formatting_requests", 1);
                    let got = s.formatted_text(key);
                    if got.as_ref() != Some(want) {
                        rep.violate("lsp-formatting-differs-from-export", locus, format!("note {} ext `{}`: formatting request returned {:?}, export {:?}", key, ext, got.as_ref().map(|t| crate::checks::norm::first_diff_line(t, want)), want.lines().next()), replay(ext));
                        break;
                    }
                }
                if self.prop == "C02" {
                    for (key, want) in &out1 {
                        s.did_change(key, want);
                    }
                    for (key, want) in &out1 {
                        let got = s.formatted_text(key);
                        if got.as_ref() != Some(want) {
                            rep.violate("not-fixpoint-lsp", locus, format!("note {} ext `{}`: formatting after didChange(own output) differs: {:?}", key, ext, got.as_ref().map(|t| crate::checks::norm::first_diff_line(want, t))), replay(ext));
                            break;
                        }
                    }
                }
                let _ = s.shutdown();
            }
        }
        if case < 3 {
            let (k, t) = lib.texts.iter().next().unwrap();
            rep.sample = Some(json!({"key": k, "input": t, "notes_in_library": lib.texts.len()}));
        }
        rep
    }
}

pub fn first_diff_line(a: &str, b: &str) -> (usize, String, String) {
    let la: Vec<&str> = a.lines().collect();
    let lb: Vec<&str> = b.lines().collect();
    for i in 0..la.len().max(lb.len()) {
        let x = la.get(i).copied().unwrap_or("<eof>");
        let y = lb.get(i).copied().unwrap_or("<eof>");
        if x != y {
            return (i, x.to_string(), y.to_string());
        }
    }
    (0, String::new(), String::new())
}

pub fn debug_gen(args: &[String]) {
    let seed: u64 = args.get(1).and_then(|s| s.parse().ok()).unwrap_or(1);
    let n: u64 = args.get(2).and_then(|s| s.parse().ok()).unwrap_or(200);
    let mut dropped = 0;
    let mut notes = 0;
    let mut reasons: BTreeMap<String, usize> = BTreeMap::new();
    for case in 0..n {
        let mut rng = Rng::for_case(seed, "norm", case);
        let o = lib_opts(Tier::Quick, &mut rng);
        // measure the self-check failure reasons
        let keys = libgen::gen_keys(&mut rng, 3, true);
        let mut words = crate::gen::Words::new("");
        for k in &keys {
            let (inl, blk) = (vec![], vec![]);
            let _ = (&inl as &Vec<u8>, &blk as &Vec<u8>);
            let (doc, text, d) = libgen::gen_note(&mut rng, &o, k, &keys, &mut words);
            dropped += d;
            notes += 1;
            if args.get(3).map(|s| s == "show").unwrap_or(false) && case < args.get(4).and_then(|s| s.parse().ok()).unwrap_or(3) {
                println!("=== {} ===\n{}", k, text);
            }
            let _ = doc;
        }
        // additionally sample raw failures
        let mut rng2 = Rng::for_case(seed, "raw", case);
        let mut p = o.profile.clone();
        p.targets = vec![crate::gen::Target { dest: "n1".into(), external: false }, crate::gen::Target { dest: "https://example.com/x".into(), external: true }];
        p.block_targets = vec![crate::gen::Target { dest: "n2".into(), external: false }];
        let mut w = crate::gen::Words::new("");
        let doc = crate::gen::Gen { rng: &mut rng2, words: &mut w, p: &p }.doc();
        let text = crate::gen::render(&doc, case, false);
        if let Some((e, s)) = libgen::self_check_diff(&doc, &text) {
            let key = format!("{} // {}", e.split('|').nth(1).unwrap_or(""), s.split('|').nth(1).unwrap_or(""));
            *reasons.entry(key).or_insert(0) += 1;
            if args.get(3).map(|s| s == "fail").unwrap_or(false) {
                println!("--- expected {}\n--- scanned  {}\n{}", e, s, text);
            }
        }
    }
    println!("notes {} dropped {} ; raw failure reasons {:?}", notes, dropped, reasons);
}

/// vcheck debug fmt <file> [ext] : format a single note (key n1) and print both passes + oracle diffs
pub fn debug_fmt(args: &[String]) {
    let text = std::fs::read_to_string(&args[1]).unwrap();
    let ext = args.get(2).cloned().unwrap_or_default();
    let mut texts = BTreeMap::new();
    texts.insert("n1".to_string(), text.clone());
    texts.insert("n2".to_string(), "# Title Two\n".to_string());
    let o1 = export_lib(&texts, &ext);
    let o2 = export_lib(&o1, &ext);
    println!("--- pass1\n{}--- pass2 {}\n{}", o1["n1"], if o1["n1"] == o2["n1"] { "(same)" } else { "(DIFFERS)" }, if o1["n1"] == o2["n1"] { "" } else { &o2["n1"] });
    let view = LibView::new(&texts);
    let cmp = oracle::compare_norm(&view.scans["n1"], &mdscan::scan(&o1["n1"]), "", &view);
    for d in cmp.c01 { println!("C01 {} : {}", d.clause, d.detail); }
    for d in cmp.c06 { println!("C06 {} : {}", d.clause, d.detail); }
    for d in cmp.c07 { println!("C07 {} : {}", d.clause, d.detail); }
}
