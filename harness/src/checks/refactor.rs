//! C09 (extract / inline) and C10 (list <-> section conversions): every note, every line, every
//! offered action, resolved and applied to a copy of the library, judged by conservation oracles.

use crate::checks::norm::export_lib;
use crate::libgen::{self, LibOpts};
use crate::lsp::{self, Outcome, Server};
use crate::mdscan::{self, AKind, LKind, Scan};
use crate::mon::{self, CaseReport, Check, Plan, Tier};
use crate::oracle;
use crate::rng::{fnv, Rng};
use serde_json::{json, Value};
use std::collections::BTreeMap;

pub struct Refactor {
    pub prop: &'static str,
}

/// kind-insensitive content signature of a block: masked words + resolved internal link targets
fn sig(a: &mdscan::Atom, scan: &Scan, dir: &str) -> String {
    let w = oracle::masked_words(a, scan, &|l| mdscan::is_internal(&l.dest) && l.kind != LKind::Image);
    let targets: Vec<String> = a
        .links
        .iter()
        .map(|&i| &scan.links[i])
        .filter(|l| mdscan::is_internal(&l.dest) && l.kind != LKind::Image)
        .map(|l| mdscan::resolve(&l.dest, dir).unwrap_or_default())
        .collect();
    let k = match &a.kind {
        AKind::Code(i) => format!("code[{}]:{}", i, a.text.trim_matches('\n')),
        AKind::Table(x) => format!("table[{}]", x),
        AKind::Cell(r, c) => format!("cell[{},{}]", r, c),
        AKind::Rule => "rule".into(),
        _ => "t".into(),
    };
    format!("{}|{}|{}", k, w.join(" "), targets.join(","))
}

fn sigs(text: &str, key: &str) -> Vec<String> {
    let scan = mdscan::scan(text);
    let dir = mdscan::key_dir(key);
    // a heading or item without text (what list-to-sections makes of an item that starts with a code block) carries no content
    scan.atoms.iter().filter(|a| a.kind != AKind::Html).map(|a| sig(a, &scan, &dir)).filter(|s| s != "t||").collect()
}

fn multiset(v: &[String]) -> BTreeMap<String, i64> {
    let mut m = BTreeMap::new();
    for s in v {
        *m.entry(s.clone()).or_insert(0) += 1;
    }
    m
}

fn is_subsequence(small: &[String], big: &[String]) -> bool {
    let mut it = big.iter();
    small.iter().all(|s| it.any(|b| b == s))
}

pub fn refactor_lib(rng: &mut Rng, tier: Tier, subdirs: bool) -> BTreeMap<String, String> {
    refactor_lib_opts(rng, tier, subdirs, true)
}

pub fn refactor_lib_opts(rng: &mut Rng, tier: Tier, subdirs: bool, cell_links: bool) -> BTreeMap<String, String> {
    let mut o = LibOpts::clean();
    o.profile.cell_internal_links = cell_links;
    // rename empties the label of piped wiki links (`[[new|]]`, open finding): only C08 passes false here
    o.profile.piped_wiki = cell_links;
    // inline links do not survive a move between directories (open finding KF-inline-link-from-subdir):
    // libraries with sub-directories carry block references only
    o.inline_internal = !subdirs;
    o.min_notes = 2;
    o.max_notes = tier.pick(4, 5);
    o.subdirs = subdirs;
    o.profile.max_blocks = tier.pick(9, 14);
    o.profile.max_depth = 3;
    o.profile.html_blocks = false;
    // front matter: a refactoring rewrites whole notes and must carry it along
    o.profile.meta = true;
    o.profile.long_lists = 0;
    // section headings with a bare wiki link: the reference an extract leaves behind is titled with the heading as shown
    o.profile.wiki_in_section_headings = true;
    o.profile.numbered_headings = true;
    o.self_links = false;
    o.crlf = false;
    // attachments, anchors, other schemes: a refactoring or a rename moves text between notes and directories and must
    // leave what is not a note reference as written
    o.foreign = true;
    let lib = libgen::gen_lib(rng, &o);
    // start from formatted text: results of refactorings are themselves formatted
    export_lib(&lib.texts, "")
}

fn actions_at(s: &mut Server, key: &str, line: usize) -> Result<Vec<Value>, String> {
    let uri = s.uri(key);
    match s.request(
        "textDocument/codeAction",
        json!({"textDocument": {"uri": uri}, "range": {"start": {"line": line, "character": 0}, "end": {"line": line, "character": 0}}, "context": {"diagnostics": []}}),
    ) {
        Outcome::Result(v) => Ok(v.as_array().cloned().unwrap_or_default()),
        o => Err(format!("{:?}", o)),
    }
}

fn resolve(s: &mut Server, action: &Value) -> Result<Value, String> {
    match s.request("codeAction/resolve", action.clone()) {
        Outcome::Result(v) => v.get("edit").cloned().ok_or_else(|| "resolved action without edit".to_string()),
        o => Err(format!("{:?}", o).chars().take(200).collect()),
    }
}

/// start a fresh in-memory server on `lib`, run the action of `kind` offered at `line` of `key`, apply its edit
pub fn apply_action(lib: &BTreeMap<String, String>, key: &str, line: usize, kind: &str) -> Result<BTreeMap<String, String>, String> {
    let mut s = Server::start_mem(lib, "");
    let r = (|| {
        let acts = actions_at(&mut s, key, line)?;
        let act = acts
            .iter()
            .find(|a| a.get("kind").and_then(|k| k.as_str()) == Some(kind))
            .ok_or_else(|| format!("action {} not offered at {} line {}", kind, key, line))?
            .clone();
        let edit = resolve(&mut s, &act)?;
        lsp::apply_workspace_edit(lib, &edit, &s)
    })();
    let _ = s.shutdown();
    r
}

/// the line of the block that holds these words; when several blocks hold the same words (two headings that are both
/// just "-"), the one nearest to `near` - the converted block stays where the heading was
fn line_of_words(text: &str, words: &str, near: usize) -> Option<usize> {
    let scan = mdscan::scan(text);
    scan.atoms
        .iter()
        .filter(|a| a.text.split_whitespace().collect::<Vec<_>>().join(" ") == words)
        .map(|a| a.line)
        .min_by_key(|l| (*l as i64 - near as i64).abs())
}

impl Check for Refactor {
    fn id(&self) -> &'static str {
        self.prop
    }
    fn rule(&self) -> String {
        match self.prop {
            "C09" => "case = one generated (formatted) library served by the real LSP loop; for every note and every line: codeAction, and for each offered extract-section / extract-sub-sections / inline-section / inline-quote: codeAction/resolve, edit applied to a copy of the library by the harness's own WorkspaceEdit model (rejects create-on-existing etc.); oracles: fresh key, conservation of the block multiset (+1 reference per extracted section, -1 reference and deleted note per inline), extracted note = the subtree with promoted headings and nothing else (no front matter of the source), front matter of existing notes kept, remaining blocks keep order, links resolve to the same notes from the new location, result is a formatting fixpoint, extract(first sub-section) then inline == original bytes; H4 forces the first key candidates to collide with existing notes; distinct = (action kind, container chain of the target, section depth) combinations".into(),
            _ => "case = as C09 for section-to-list, list-to-sections, change-list-type: block word-runs conserved in order, blocks outside the target untouched, change-list-type flips the kind of the targeted item's own (innermost) list and of no other container, result is a formatting fixpoint, change-type twice == original bytes, section-to-list then list-to-sections == original bytes; distinct = (action kind, target container chain, list kind) combinations".into(),
        }
    }
    fn assumptions(&self) -> Vec<String> {
        vec![
            "libraries start from formatted text (clean grammar), so byte-level round trips are meaningful".into(),
            "C09 runs the disk-backed server (state=None) so the real random key generator is used".into(),
        ]
    }
    fn plan(&self, tier: Tier, _seed: u64) -> Plan {
        Plan {
            cases: tier.pick(600, 12000),
            procs: 16,
            wall_s: 600,
            cpu_s: None,
        }
    }
    fn min_events(&self, tier: Tier) -> u64 {
        tier.pick(300, 8000)
    }
    fn run_case(&self, tier: Tier, seed: u64, case: u64) -> CaseReport {
        let mut rep = CaseReport::new(case);
        let mut rng = Rng::for_case(seed, "refactor", case);
        let sub = rng.chance(1, 2);
        let mut lib = refactor_lib(&mut rng, tier, sub);
        if self.prop == "C10" && case % 4 == 0 {
            // runs of adjacent lists of alternating kinds: changing the type of an inner one makes three (or four)
            // neighbours of one kind, which only stay apart if their markers keep alternating
            lib.insert("adjacent-lists".into(), "# Adjacent\n\n- first one\n- first two\n\n1.  middle one\n2.  middle two\n\n- last one\n\n1.  tail one\n\ntext after\n".into());
        }
        // hook H2: the invariant walker sees every graph the handlers build (patch graphs included)
        crate::hooks::install_graph_hook();
        crate::hooks::graph_hook_reset();
        lsp::reset_log();
        mon::drain_thread_panics();
        let dir = mon::scratch_dir("c09");
        let mut s = if self.prop == "C09" {
            for (k, t) in &lib {
                let p = dir.join(format!("{}.md", k));
                std::fs::create_dir_all(p.parent().unwrap()).unwrap();
                std::fs::write(p, t).unwrap();
            }
            Server::start_disk(&dir, "")
        } else {
            Server::start_mem(&lib, "")
        };
        // half of the sessions: the server has seen an edit of every note first (index and line maps built
        // incrementally instead of by the initial import)
        if rng.chance(1, 2) {
            for (k, t) in &lib {
                s.did_change(k, t);
            }
            rep.count("sessions_after_resend", 1);
        }
        let mine: &[&str] = if self.prop == "C09" {
            &["refactor.extract.section", "refactor.extract.subsections", "refactor.inline.reference.section", "refactor.inline.reference.quote"]
        } else {
            &["refactor.rewrite.section.list", "refactor.rewrite.list.section", "refactor.rewrite.list.type"]
        };
        'notes: for (key, text) in &lib {
            let scan = mdscan::scan(text);
            let lines = text.lines().count();
            for line in 0..lines {
                let acts = match actions_at(&mut s, key, line) {
                    Ok(a) => a,
                    Err(e) => {
                        rep.violate("code-action-request-failed", "clean", format!("{} line {}: {}", key, line, e), json!({"library": lib, "key": key, "line": line}));
                        break 'notes;
                    }
                };
                for act in acts {
                    let kind = act.get("kind").and_then(|k| k.as_str()).unwrap_or("").to_string();
                    if !mine.contains(&kind.as_str()) {
                        continue;
                    }
                    rep.count("events", 1);
                    rep.count(&format!("action:{}", kind), 1);
                    let atom = scan.atoms.iter().find(|a| a.line <= line && mdscan::position(text, &scan.line_starts, a.range.end.saturating_sub(1).max(a.range.start)).0 >= line);
                    let chain = atom.map(|a| a.chain_kinds()).unwrap_or_default();
                    rep.shape(fnv(&format!("{}|{}|{}", kind, chain, atom.map(|a| a.kind.name()).unwrap_or_default())));
                    let replay = json!({"library": lib, "key": key, "line": line, "action": act});
                    if kind.starts_with("refactor.extract") && self.prop == "C09" {
                        // H4: the first candidates collide with existing notes
                        let d = mdscan::key_dir(key);
                        let cands: Vec<String> = lib
                            .keys()
                            .filter(|k| mdscan::key_dir(k) == d)
                            .map(|k| k.rsplit('/').next().unwrap().to_string())
                            .collect();
                        liwe::graph::verif::clear_key_candidates();
                        liwe::graph::verif::push_key_candidates(cands);
                    }
                    let edit = match resolve(&mut s, &act) {
                        Ok(e) => e,
                        Err(e) => {
                            let panics = mon::drain_thread_panics();
                            let site = panics.last().map(|p| p.signature()).unwrap_or_default();
                            rep.violate("offered-action-fails", &format!("{}:{}", kind, site), format!("{} line {} `{}`: resolve failed: {}", key, line, text.lines().nth(line).unwrap_or(""), e), replay);
                            continue;
                        }
                    };
                    liwe::graph::verif::clear_key_candidates();
                    let after = match lsp::apply_workspace_edit(&lib, &edit, &s) {
                        Ok(a) => a,
                        Err(e) => {
                            rep.violate("edit-not-applicable", &kind, format!("{} line {}: {}", key, line, e), replay);
                            continue;
                        }
                    };
                    // a refactoring that needs heading level 7+ writes "#######", which is a paragraph: one known
                    // finding with its own signature, not to be confused with other conservation failures
                    let too_deep = after.values().any(|t| t.lines().any(|l| l.trim_start_matches(|c| c == '>' || c == ' ').starts_with("#######")));
                    let v = if too_deep {
                        vec![("heading-deeper-than-6".to_string(), "the result needs a heading of level 7 or more, written as a paragraph of '#'".to_string())]
                    } else if self.prop == "C09" {
                        judge_c09(&kind, &lib, &after, key, line, text, &scan, tier)
                    } else {
                        judge_c10(&kind, &lib, &after, key, line, text, &scan)
                    };
                    let mut v = v;
                    // every note that exists before and after keeps its front matter
                    for (k, t) in &lib {
                        if let Some(ta) = after.get(k) {
                            let (mb, ma) = (mdscan::scan(t).meta, mdscan::scan(ta).meta);
                            if mb.as_ref().map(|m| m.trim_end().to_string()) != ma.as_ref().map(|m| m.trim_end().to_string()) {
                                v.push(("front-matter-lost".to_string(), format!("note {}: front matter {:?} -> {:?}", k, mb, ma)));
                                break;
                            }
                        }
                    }
                    if v.is_empty() {
                        v.extend(round_trip(&kind, &lib, &after, key, line, text, &scan, &mut rep));
                    }
                    for (clause, detail) in v.into_iter().take(2) {
                        let mut r = replay.clone();
                        r["after"] = json!(after);
                        rep.violate(&clause, &kind, format!("{} line {} `{}`: {}", key, line, text.lines().nth(line).unwrap_or(""), detail), r);
                    }
                }
            }
        }
        let (h2_graphs, h2_viol) = crate::hooks::graph_hook_take();
        rep.count("h2_graphs_walked", h2_graphs);
        for (c, d) in h2_viol.into_iter().take(2) {
            rep.violate(&format!("forest-{}", c), "h2", d, json!({"case": case}));
        }
        rep.count("h1_events", lsp::events_since(0).len() as u64);
        if !s.shutdown() {
            rep.inconclusive.push("unclean shutdown".into());
        }
        let _ = std::fs::remove_dir_all(&dir);
        if case < 2 {
            rep.sample = Some(json!({"keys": lib.keys().collect::<Vec<_>>() }));
        }
        rep
    }
}

fn fixpoint_violations(after: &BTreeMap<String, String>, touched: &[String]) -> Vec<(String, String)> {
    let mut v = vec![];
    if let Ok(f) = mon::catch(|| export_lib(after, "")) {
        for k in touched {
            if let (Some(a), Some(b)) = (after.get(k), f.get(k)) {
                if a != b {
                    let l = crate::checks::norm::first_diff_line(a, b);
                    v.push(("result-not-formatted".to_string(), format!("note {}: formatting the result changes line {}: {:?} -> {:?}", k, l.0, l.1, l.2)));
                }
            }
        }
    }
    v
}

fn touched(before: &BTreeMap<String, String>, after: &BTreeMap<String, String>) -> (Vec<String>, Vec<String>, Vec<String>) {
    let created: Vec<String> = after.keys().filter(|k| !before.contains_key(*k)).cloned().collect();
    let deleted: Vec<String> = before.keys().filter(|k| !after.contains_key(*k)).cloned().collect();
    let changed: Vec<String> = after.iter().filter(|(k, v)| before.get(*k).map(|b| b != *v).unwrap_or(false)).map(|(k, _)| k.clone()).collect();
    (created, deleted, changed)
}

#[allow(clippy::too_many_arguments)]
fn judge_c09(
    kind: &str,
    before: &BTreeMap<String, String>,
    after: &BTreeMap<String, String>,
    key: &str,
    line: usize,
    text: &str,
    scan: &Scan,
    _tier: Tier,
) -> Vec<(String, String)> {
    let mut v = vec![];
    let (created, deleted, changed) = touched(before, after);
    let dir = mdscan::key_dir(key);
    // conservation over all touched notes
    let mut b_all: Vec<String> = vec![];
    let mut a_all: Vec<String> = vec![];
    for k in changed.iter().chain(deleted.iter()) {
        b_all.extend(sigs(&before[k], k));
    }
    for k in changed.iter().chain(created.iter()) {
        a_all.extend(sigs(&after[k], k));
    }
    let mut diff = multiset(&a_all);
    for (s, n) in multiset(&b_all) {
        *diff.entry(s).or_insert(0) -= n;
    }
    diff.retain(|_, n| *n != 0);
    let unrelated: Vec<&String> = after.keys().filter(|k| *k != key && !created.contains(k) && before.get(*k) != after.get(*k)).collect();
    match kind {
        "refactor.extract.section" | "refactor.extract.subsections" => {
            if !deleted.is_empty() || !unrelated.is_empty() {
                v.push(("unrelated-note-touched".into(), format!("deleted {:?} changed {:?}", deleted, unrelated)));
            }
            if created.is_empty() {
                v.push(("no-note-created".into(), "extract created no note".into()));
                return v;
            }
            for c in &created {
                if mdscan::key_dir(c) != dir {
                    v.push(("created-in-other-directory".into(), format!("{} created for a note in `{}`", c, dir)));
                }
            }
            // exactly one added reference per created note, titled with its heading, nothing else changed
            let mut expect_added = 0;
            for c in &created {
                let cs = mdscan::scan(&after[c]);
                let title = mdscan::title_of(&cs);
                let first_level = cs.atoms.first().map(|a| a.kind.clone());
                // the new note holds the extracted subtree and nothing else: the source's front matter stays with the source
                if let Some(m) = &cs.meta {
                    v.push(("created-note-carries-front-matter".into(), format!("{} begins with front matter {:?}", c, m)));
                }
                if !matches!(first_level, Some(AKind::Heading(1))) {
                    v.push(("extracted-note-not-promoted".into(), format!("{} starts with {:?}", c, first_level)));
                }
                // the reference in the source
                let ss = mdscan::scan(&after[key]);
                let refs: Vec<&mdscan::LinkOcc> = ss.links.iter().filter(|l| l.block_ref && mdscan::resolve(&l.dest, &dir).as_deref() == Some(c.as_str())).collect();
                if refs.len() != 1 {
                    v.push(("reference-count".into(), format!("{} references to {} left in the source", refs.len(), c)));
                } else if Some(refs[0].text.split_whitespace().collect::<Vec<_>>().join(" ")) != title.as_ref().map(|t| t.split_whitespace().collect::<Vec<_>>().join(" ")) {
                    v.push(("reference-title".into(), format!("reference text `{}` vs heading {:?}", refs[0].text, title)));
                }
                expect_added += 1;
            }
            let added: i64 = diff.values().filter(|n| **n > 0).sum();
            let lost: i64 = -diff.values().filter(|n| **n < 0).sum::<i64>();
            if lost != 0 || added != expect_added {
                v.push(("content-not-conserved".into(), format!("block multiset differs: {:?}", diff)));
            }
            // the extracted note is exactly the subtree under the heading at `line` (single extract)
            if kind == "refactor.extract.section" && created.len() == 1 {
                if let Some(hi) = scan.atoms.iter().position(|a| matches!(a.kind, AKind::Heading(_)) && a.line == line && a.chain.is_empty()) {
                    let lvl = match scan.atoms[hi].kind {
                        AKind::Heading(l) => l,
                        _ => 0,
                    };
                    let end = scan.atoms[hi + 1..]
                        .iter()
                        .position(|a| a.chain.is_empty() && matches!(a.kind, AKind::Heading(l) if l <= lvl))
                        .map(|p| hi + 1 + p)
                        .unwrap_or(scan.atoms.len());
                    let want: Vec<String> = scan.atoms[hi..end].iter().map(|a| sig(a, scan, &dir)).collect();
                    let got = sigs(&after[&created[0]], &created[0]);
                    if want != got {
                        v.push(("extracted-note-differs-from-subtree".into(), format!("subtree {:?} vs new note {:?}", want, got)));
                    }
                    // remaining blocks keep their order
                    let rest: Vec<String> = scan.atoms[..hi].iter().chain(scan.atoms[end..].iter()).map(|a| sig(a, scan, &dir)).collect();
                    if !is_subsequence(&rest, &sigs(&after[key], key)) {
                        v.push(("remaining-blocks-reordered".into(), "blocks outside the extracted section changed order".into()));
                    }
                }
            }
            let _ = fixpoint_violations;
        }
        "refactor.inline.reference.section" | "refactor.inline.reference.quote" => {
            // the reference under the cursor
            let target = scan
                .links
                .iter()
                .find(|l| l.block_ref && scan.atoms[l.atom].line == line)
                .and_then(|l| mdscan::resolve(&l.dest, &dir));
            let Some(target) = target else {
                v.push(("inline-offered-without-reference".into(), "no block reference on this line".into()));
                return v;
            };
            if !created.is_empty() || !unrelated.is_empty() {
                v.push(("unrelated-note-touched".into(), format!("created {:?} changed {:?}", created, unrelated)));
            }
            if deleted != vec![target.clone()] {
                v.push(("inlined-note-not-deleted".into(), format!("deleted {:?}, inlined {}", deleted, target)));
            }
            // conservation: exactly one reference to `target` disappears, nothing else
            let lost: Vec<(&String, &i64)> = diff.iter().filter(|(_, n)| **n < 0).collect();
            let added: Vec<(&String, &i64)> = diff.iter().filter(|(_, n)| **n > 0).collect();
            let ok = added.is_empty() && lost.len() == 1 && *lost[0].1 == -1 && lost[0].0.ends_with(&format!("|{}", target));
            if !ok {
                v.push(("content-not-conserved".into(), format!("block multiset differs: {:?}", diff)));
            }
            // remaining blocks of the source keep order
            let rest: Vec<String> = scan.atoms.iter().filter(|a| a.line != line).map(|a| sig(a, scan, &dir)).collect();
            if !is_subsequence(&rest, &sigs(&after[key], key)) {
                v.push(("remaining-blocks-reordered".into(), "blocks of the host note changed order".into()));
            }
            let _ = text;
        }
        _ => {}
    }
    v
}

fn judge_c10(
    kind: &str,
    before: &BTreeMap<String, String>,
    after: &BTreeMap<String, String>,
    key: &str,
    _line: usize,
    _text: &str,
    _scan: &Scan,
) -> Vec<(String, String)> {
    let mut v = vec![];
    let (created, deleted, changed) = touched(before, after);
    if !created.is_empty() || !deleted.is_empty() || changed.iter().any(|k| k != key) {
        v.push(("unrelated-note-touched".into(), format!("created {:?} deleted {:?} changed {:?}", created, deleted, changed)));
    }
    // only the targeted list / section is rewritten: the blocks before and after the target keep their kind, their
    // containers and their text (markers of a neighbouring list may change: two lists of one kind need different markers)
    {
        let atoms = &_scan.atoms;
        let n_lines = before[key].lines().count();
        let covers = |a: &mdscan::Atom| a.line == _line || (a.line < _line && before[key][..a.range.end.min(before[key].len())].lines().count() > _line);
        let target: Option<(usize, usize)> = atoms.iter().position(|a| covers(a)).and_then(|ai| {
            let a = &atoms[ai];
            if kind.contains("section.list") {
                let lvl = match a.kind { AKind::Heading(l) => l, _ => return None };
                let end = atoms[ai + 1..].iter().position(|x| x.chain.is_empty() && matches!(x.kind, AKind::Heading(l) if l <= lvl)).map(|k| ai + 1 + k).unwrap_or(atoms.len());
                Some((ai, end))
            } else {
                // the outermost list that holds the block
                let depth = a.chain.iter().position(|c| matches!(c, mdscan::Cont::Item(..)))?;
                let same_list = |x: &mdscan::Atom| {
                    x.chain.len() > depth
                        && x.chain[..depth] == a.chain[..depth]
                        && matches!((&x.chain[depth], &a.chain[depth]), (mdscan::Cont::Item(o1, k1, _), mdscan::Cont::Item(o2, k2, _)) if o1 == o2 && k1 == k2)
                };
                let first = atoms.iter().position(|x| same_list(x))?;
                let last = atoms.iter().rposition(|x| same_list(x))?;
                Some((first, last + 1))
            }
        });
        let _ = n_lines;
        if let Some((i0, i1)) = target {
            let desc = |a: &mdscan::Atom| format!("{}|{}|{}", a.chain_kinds(), a.kind.name(), a.text.split_whitespace().collect::<Vec<_>>().join(" "));
            let after_scan = mdscan::scan(&after[key]);
            let bd: Vec<String> = atoms.iter().map(desc).collect();
            let ad: Vec<String> = after_scan.atoms.iter().map(desc).collect();
            let tail = bd.len() - i1;
            let head_ok = ad.len() >= i0 && ad[..i0] == bd[..i0];
            let tail_ok = ad.len() >= tail && ad[ad.len() - tail..] == bd[i1..];
            if !head_ok || !tail_ok {
                let which = if !head_ok { "before" } else { "after" };
                let i = if !head_ok { (0..i0).find(|&i| ad.get(i) != bd.get(i)).unwrap_or(0) } else { (0..tail).find(|&i| ad.get(ad.len().wrapping_sub(tail) + i) != bd.get(i1 + i)).map(|i| i1 + i).unwrap_or(i1) };
                v.push(("rewrote-outside-target".into(), format!("{}: a block {} the target changed: {:?}", kind, which, bd.get(i))));
            }
        }
    }
    // change-list-type rewrites the list the targeted item belongs to (the innermost one) and no other: every block of that
    // list has the kind of exactly that container flipped, every other container of every block keeps its kind
    if kind == "refactor.rewrite.list.type" {
        let atoms = &_scan.atoms;
        let covers = |a: &mdscan::Atom| a.line == _line || (a.line < _line && before[key][..a.range.end.min(before[key].len())].lines().count() > _line);
        if let Some(t) = atoms.iter().find(|a| covers(a)) {
            if let Some(d) = t.chain.iter().rposition(|c| matches!(c, mdscan::Cont::Item(..))) {
                let in_list = |x: &mdscan::Atom| {
                    x.chain.len() > d
                        && x.chain[..d] == t.chain[..d]
                        && matches!((&x.chain[d], &t.chain[d]), (mdscan::Cont::Item(o1, k1, _), mdscan::Cont::Item(o2, k2, _)) if o1 == o2 && k1 == k2)
                };
                let after_scan = mdscan::scan(&after[key]);
                if after_scan.atoms.len() == atoms.len() && sigs(&before[key], key) == sigs(&after[key], key) {
                    for (x, y) in atoms.iter().zip(after_scan.atoms.iter()) {
                        let mut want: Vec<&'static str> = x.chain.iter().map(|c| c.kind()).collect();
                        if in_list(x) {
                            want[d] = if want[d] == "ol" { "ul" } else { "ol" };
                        }
                        let got: Vec<&'static str> = y.chain.iter().map(|c| c.kind()).collect();
                        if want != got {
                            v.push(("list-type-wrong-list".into(), format!("{}: block {:?} sits in {} afterwards, expected {} (only the list of the targeted item changes its type)", kind, x.text.chars().take(40).collect::<String>(), got.join("/"), want.join("/"))));
                            break;
                        }
                    }
                }
            }
        }
    }
    // every word-run, link and nested block kept, in order
    let b = sigs(&before[key], key);
    let a = sigs(&after[key], key);
    if a != b {
        let clause = if multiset(&a) == multiset(&b) { "blocks-reordered" } else { "content-not-conserved" };
        let first = a.iter().zip(b.iter()).position(|(x, y)| x != y).unwrap_or(a.len().min(b.len()));
        v.push((clause.into(), format!("{}: block {}: {:?} -> {:?} ({} -> {} blocks)", kind, first, b.get(first), a.get(first), b.len(), a.len())));
    }
    v
}

/// inverse-action round trips demanded by the statements of C09 / C10
#[allow(clippy::too_many_arguments)]
fn round_trip(
    kind: &str,
    before: &BTreeMap<String, String>,
    after: &BTreeMap<String, String>,
    key: &str,
    line: usize,
    text: &str,
    scan: &Scan,
    rep: &mut CaseReport,
) -> Vec<(String, String)> {
    let mut v = vec![];
    let dir = mdscan::key_dir(key);
    let top: Vec<&mdscan::Atom> = scan.atoms.iter().collect();
    match kind {
        "refactor.extract.section" => {
            // only for the FIRST sub-section of its parent
            let Some(hi) = top.iter().position(|a| matches!(a.kind, AKind::Heading(_)) && a.line == line && a.chain.is_empty()) else { return v };
            let lvl = match top[hi].kind { AKind::Heading(l) => l, _ => return v };
            // walk back to the parent heading: no heading of the same level in between
            let mut first = false;
            for a in top[..hi].iter().rev() {
                if !a.chain.is_empty() { continue; }
                if let AKind::Heading(l) = a.kind {
                    if l == lvl { break; }
                    if l < lvl { first = true; break; }
                }
            }
            if !first { return v; }
            let (created, _, _) = touched(before, after);
            let Some(new_key) = created.first() else { return v };
            let ss = mdscan::scan(&after[key]);
            let Some(rl) = ss.links.iter().find(|l| l.block_ref && mdscan::resolve(&l.dest, &dir).as_deref() == Some(new_key.as_str())).map(|l| ss.atoms[l.atom].line) else { return v };
            rep.count("round_trips:extract-inline", 1);
            match apply_action(after, key, rl, "refactor.inline.reference.section") {
                Ok(back) => {
                    if back.get(key) != before.get(key) || back.contains_key(new_key) {
                        let l = crate::checks::norm::first_diff_line(&before[key], back.get(key).map(|s| s.as_str()).unwrap_or(""));
                        v.push(("extract-inline-round-trip".into(), format!("extract first sub-section then inline: line {} {:?} -> {:?}; new note still present: {}", l.0, l.1, l.2, back.contains_key(new_key))));
                    }
                }
                Err(e) => v.push(("extract-inline-round-trip".into(), format!("inverse action failed: {}", e))),
            }
        }
        "refactor.rewrite.list.type" => {
            rep.count("round_trips:list-type-twice", 1);
            match apply_action(after, key, line, "refactor.rewrite.list.type") {
                Ok(back) => {
                    if back.get(key) != before.get(key) {
                        let l = crate::checks::norm::first_diff_line(&before[key], back.get(key).map(|s| s.as_str()).unwrap_or(""));
                        v.push(("list-type-twice".into(), format!("changing the list type twice: line {} {:?} -> {:?}", l.0, l.1, l.2)));
                    }
                }
                Err(e) => v.push(("list-type-twice".into(), format!("second change failed: {}", e))),
            }
        }
        "refactor.rewrite.section.list" => {
            let Some(hi) = top.iter().position(|a| matches!(a.kind, AKind::Heading(_)) && a.line == line && a.chain.is_empty()) else { return v };
            let lvl = match top[hi].kind { AKind::Heading(l) => l, _ => return v };
            let end = top[hi + 1..].iter().position(|a| a.chain.is_empty() && matches!(a.kind, AKind::Heading(l) if l <= lvl)).map(|p| hi + 1 + p).unwrap_or(top.len());
            let is_list = |a: &&mdscan::Atom| matches!(a.chain.first(), Some(mdscan::Cont::Item(..)));
            // "a section that is not adjacent to another list": neither the block before the heading nor the
            // block after the section is a list
            let adjacent = (hi > 0 && is_list(&top[hi - 1])) || (end < top.len() && is_list(&top[end]));
            if adjacent { rep.count("round_trips:skipped-adjacent-list", 1); return v; }
            let words = top[hi].text.split_whitespace().collect::<Vec<_>>().join(" ");
            let Some(l2) = line_of_words(&after[key], &words, line) else { return v };
            rep.count("round_trips:section-list-section", 1);
            // does the section have a preceding sibling section? (open finding KF-section-list-nesting)
            let has_prev_sibling = top[..hi].iter().rev().find_map(|a| if !a.chain.is_empty() { None } else if let AKind::Heading(l) = a.kind { if l < lvl { Some(false) } else if l == lvl { Some(true) } else { None } } else { None }).unwrap_or(false);
            match apply_action(after, key, l2, "refactor.rewrite.list.section") {
                Ok(back) => {
                    if back.get(key) != before.get(key) {
                        let l = crate::checks::norm::first_diff_line(&before[key], back.get(key).map(|s| s.as_str()).unwrap_or(""));
                        let clause = if has_prev_sibling { "section-list-round-trip-after-sibling" } else { "section-list-round-trip" };
                        v.push((clause.into(), format!("section to list and back: line {} {:?} -> {:?}", l.0, l.1, l.2)));
                    }
                }
                Err(e) => v.push(("section-list-round-trip".into(), format!("inverse action failed: {}", e))),
            }
            let _ = text;
        }
        _ => {}
    }
    v
}
