//! C05 backlinks, C15 key algebra, C17 squash, C18 paths/search — library-level monitors.

use crate::libgen::{self, LibOpts};
use crate::mdscan::{self, AKind, LKind, Scan};
use crate::mon::{self, CaseReport, Check, Plan, Tier};
use crate::oracle;
use crate::rng::{fnv, Rng};
use fuzzy_matcher::{skim::SkimMatcherV2, FuzzyMatcher};
use liwe::database::Database;
use liwe::graph::{Graph, GraphContext};
use liwe::model::config::MarkdownOptions;
use liwe::model::tree::TreeIter;
use liwe::model::Key;
use serde_json::json;
use std::collections::{BTreeMap, BTreeSet, HashMap};

pub struct LibQ {
    pub prop: &'static str,
}

fn state(texts: &BTreeMap<String, String>) -> HashMap<String, String> {
    texts.iter().map(|(k, v)| (k.clone(), v.clone())).collect()
}

fn norm(s: &str) -> String {
    s.split_whitespace().collect::<Vec<_>>().join(" ")
}

impl Check for LibQ {
    fn id(&self) -> &'static str {
        self.prop
    }
    fn rule(&self) -> String {
        match self.prop {
            "C05" => "case = one generated library (sub-directories, self links, dangling targets, many links to one note, links in emphasis / headings / nested lists / after tables and code, wiki and piped links, .md suffixes); for every note and every link target the block / inline backlink sets (owner note, first line of the linking block) from the Graph API are compared with an independent link scan + resolver; distinct = hash of the (source dir, target dir, link kind, container) combinations present".into(),
            "C15" => "exhaustive: every (key, directory) pair over relative paths of depth <= 4 on a 4-name alphabet (names with dots and spaces) through Key::to_rel_link_url / from_rel_link_url, plus decorated urls (./, x/../, .md) against the harness's own path algebra; distinct = pairs whose relative url is non-trivial (contains ../ or a directory)".into(),
            "C17" => "case = (library with a random block-reference graph: trees, DAGs with sharing, cycles, self loops, dangling targets, references under headings, inside list items and inside block quotes; key; depth 0..6, chains and self-loops up to 255) squashed by the real code, rebuilt with build_key_from_iter and exported, compared (multiset of blocks, kept references) with an independent recursive expansion of the source texts; CPU time of each squash judged against a budget derived from the model's output size; distinct = hash of (reference graph shape, depth)".into(),
            _ => "case = one library with heading trees and an acyclic block-reference graph (duplicate / empty titles, > 100 headings sometimes), half of them reached through edits of earlier versions with other headings and references; Graph::paths and Database::global_search compared with an outline model computed by the independent scanner from the formatted texts: completeness, soundness of every step, names, <= 100 results, documented order recomputed with the same fuzzy matcher, ranks against a model (reference count on a note's first block, 0 on every other heading), the same listing through workspace/symbol and `iwe paths`; distinct = hash of (outline shapes, reference edges)".into(),
        }
    }
    fn assumptions(&self) -> Vec<String> {
        vec!["pulldown-cmark parser trusted; clean-mode grammar; LF line endings".into()]
    }
    fn level(&self) -> &'static str {
        "exploration"
    }
    fn plan(&self, tier: Tier, _seed: u64) -> Plan {
        let cases = match self.prop {
            "C05" => tier.pick(2500, 60000),
            "C15" => 64,
            "C17" => tier.pick(2500, 60000),
            _ => tier.pick(1500, 40000),
        };
        Plan {
            cases,
            procs: 16,
            wall_s: 300,
            cpu_s: None,
        }
    }
    fn min_events(&self, tier: Tier) -> u64 {
        tier.pick(2000, 20000)
    }
    fn run_case(&self, tier: Tier, seed: u64, case: u64) -> CaseReport {
        match self.prop {
            "C05" => c05(tier, seed, case),
            "C15" => c15(tier, seed, case),
            "C17" => c17(tier, seed, case),
            _ => c18(tier, seed, case),
        }
    }
}

// ------------------------------------------------------------------ C05

pub const C05_PINNED: &[(&str, &[(&str, &str)])] = &[
    ("link-in-quote", &[("n1", "# One\n\ntext\n\n> quoted [x](n2) link\n"), ("n2", "# Two\n")]),
    ("inline-link-from-subdir", &[("d/n1", "# One\n\npara [x](n2) link\n"), ("d/n2", "# Two\n"), ("n2", "# Root two\n")]),
    ("updir-block-ref", &[("d/n1", "# One\n\n[x](../n2)\n"), ("n2", "# Two\n")]),
];

pub fn expected_backlinks(
    texts: &BTreeMap<String, String>,
) -> (BTreeMap<String, BTreeSet<(String, usize)>>, BTreeMap<String, BTreeSet<(String, usize)>>, Vec<String>) {
    let mut block: BTreeMap<String, BTreeSet<(String, usize)>> = BTreeMap::new();
    let mut inline: BTreeMap<String, BTreeSet<(String, usize)>> = BTreeMap::new();
    let mut combos = vec![];
    for (k, t) in texts {
        let dir = mdscan::key_dir(k);
        let scan = mdscan::scan(t);
        for l in &scan.links {
            if l.kind == LKind::Image || !mdscan::is_internal(&l.dest) || l.nested {
                continue;
            }
            let a = &scan.atoms[l.atom];
            if matches!(a.kind, AKind::Cell(..)) {
                continue;
            }
            let Some(target) = mdscan::resolve(&l.dest, &dir) else {
                continue;
            };
            combos.push(format!("{}>{}:{:?}:{}:{}", dir, mdscan::key_dir(&target), l.kind, a.chain_kinds(), l.block_ref));
            if l.block_ref {
                block.entry(target).or_default().insert((k.clone(), a.line));
            } else {
                inline.entry(target).or_default().insert((k.clone(), a.line));
            }
        }
    }
    (block, inline, combos)
}

fn c05(tier: Tier, seed: u64, case: u64) -> CaseReport {
    let mut rep = CaseReport::new(case);
    let mut rng = Rng::for_case(seed, "c05", case);
    let n_random = tier.pick(2500, 60000) - C05_PINNED.len() as u64;
    let (texts, locus): (BTreeMap<String, String>, String) = if case >= n_random {
        let (id, notes) = C05_PINNED[(case - n_random) as usize];
        (notes.iter().map(|(k, v)| (k.to_string(), v.to_string())).collect(), format!("pinned:{}", id))
    } else {
        let mut o = LibOpts::clean();
        o.max_notes = tier.pick(6, 9);
        o.profile.max_blocks = tier.pick(10, 20);
        o.profile.cell_internal_links = false;
        o.profile.links_in_headings = true;
        o.profile.html_blocks = false;
        o.crlf = false;
        (libgen::gen_lib(&mut rng, &o).texts, "clean".to_string())
    };
    let replay = json!({"library": texts});
    let (eb, ei, combos) = expected_backlinks(&texts);
    for c in &combos {
        rep.shape(fnv(c));
    }
    let r = mon::catch(|| {
        // two builds must agree with the scan: a fresh import, and an incremental one in which
        // every note was re-sent unchanged (didChange with identical text)
        let graph = Graph::import(&state(&texts), MarkdownOptions::default());
        let mut db = Database::new(state(&texts), false, MarkdownOptions::default());
        for (k, t) in &texts {
            db.update_document(k.as_str().into(), t.clone());
        }
        let mut out = vec![];
        let mut events = 0u64;
        for (which, g) in [("import", &graph), ("after-resend", db.graph())] {
        let mut targets: BTreeSet<String> = texts.keys().cloned().collect();
        targets.extend(eb.keys().cloned());
        targets.extend(ei.keys().cloned());
        for t in &targets {
            let key: Key = t.as_str().into();
            let ab: BTreeSet<(String, usize)> = g
                .get_block_references_to(&key)
                .iter()
                .map(|id| (g.key_of(*id).to_string(), g.node_line_range(*id).map(|r| r.start).unwrap_or(usize::MAX)))
                .collect();
            let ai: BTreeSet<(String, usize)> = g
                .get_inline_references_to(&key)
                .iter()
                .map(|id| (g.key_of(*id).to_string(), g.node_line_range(*id).map(|r| r.start).unwrap_or(usize::MAX)))
                .collect();
            events += 2;
            for (kind, exp, act) in [("block", eb.get(t).cloned().unwrap_or_default(), ab), ("inline", ei.get(t).cloned().unwrap_or_default(), ai)] {
                if exp == act {
                    continue;
                }
                let eo: BTreeSet<&String> = exp.iter().map(|x| &x.0).collect();
                let ao: BTreeSet<&String> = act.iter().map(|x| &x.0).collect();
                let clause = if exp.len() == act.len() && eo == ao {
                    "backlink-wrong-line"
                } else if act.is_subset(&exp) || ao.is_subset(&eo) && act.len() < exp.len() {
                    "backlink-missing"
                } else if exp.is_subset(&act) {
                    "backlink-spurious"
                } else {
                    "backlink-set-differs"
                };
                out.push((clause.to_string(), format!("[{}] {} backlinks of `{}`: expected {:?} got {:?}", which, kind, t, exp, act)));
            }
        }
        }
        (out, events)
    });
    // ---- LSP level (sample): textDocument/references and the inlay hints of every note
    if case % 6 == 0 && locus == "clean" {
        crate::lsp::reset_log();
        let mut s = crate::lsp::Server::start_mem(&texts, "");
        let titles: BTreeMap<String, String> = texts.iter().filter_map(|(k, t)| mdscan::title_of(&mdscan::scan(t)).map(|x| (k.clone(), norm(&x)))).collect();
        for k in texts.keys() {
            let uri = s.uri(k);
            rep.count("lsp_reference_requests", 1);
            if let crate::lsp::Outcome::Result(v) = s.request("textDocument/references", json!({"textDocument": {"uri": uri}, "position": {"line": 0, "character": 0}, "context": {"includeDeclaration": false}})) {
                let mut got: Vec<(String, usize)> = v.as_array().cloned().unwrap_or_default().iter().map(|l| (l["uri"].as_str().and_then(|u| s.key_of_uri(u)).unwrap_or_default(), l["range"]["start"]["line"].as_u64().unwrap_or(u64::MAX) as usize)).collect();
                got.sort();
                let mut want: Vec<(String, usize)> = eb.get(k).cloned().unwrap_or_default().into_iter().chain(ei.get(k).cloned().unwrap_or_default().into_iter()).collect();
                want.sort();
                if got != want {
                    rep.violate("lsp-references-differ", "clean", format!("references({}) = {:?}, scan finds {:?}", k, got, want), replay.clone());
                }
            }
            if let crate::lsp::Outcome::Result(v) = s.request("textDocument/inlayHint", json!({"textDocument": {"uri": uri}, "range": {"start": {"line": 0, "character": 0}, "end": {"line": 100000, "character": 0}}})) {
                let labels: Vec<(String, usize)> = v.as_array().cloned().unwrap_or_default().iter().map(|h| (h["label"].as_str().unwrap_or("").to_string(), h["position"]["line"].as_u64().unwrap_or(u64::MAX) as usize)).collect();
                // inline reference counter
                let n_inline = ei.get(k).map(|s| s.len()).unwrap_or(0);
                let counter: Vec<&(String, usize)> = labels.iter().filter(|l| l.0.starts_with('‹')).collect();
                let want_counter = if n_inline > 0 { vec![(format!("‹{}›", n_inline), 0usize)] } else { vec![] };
                if counter.iter().map(|x| (*x).clone()).collect::<Vec<_>>() != want_counter {
                    rep.violate("lsp-inline-counter-hint", "clean", format!("note {}: hints {:?}, {} inline references by the scan", k, counter, n_inline), replay.clone());
                }
                // container hints: one per note that block-references k (notes are told apart by their key: two notes
                // that share a title, or have none, are two places)
                let mut owners: Vec<String> = eb.get(k).cloned().unwrap_or_default().iter().map(|(o, _)| o.clone()).collect();
                owners.sort();
                owners.dedup();
                let mut want_up: Vec<String> = owners.iter().map(|o| format!("↖{}", norm(&titles.get(o).cloned().unwrap_or_default()))).collect();
                want_up.sort();
                // (a title that begins with a code span holding a leading space: white space after the arrow is presentation)
                let mut got_up: Vec<String> = labels.iter().filter(|l| l.0.starts_with('↖')).map(|l| format!("↖{}", norm(l.0.trim_start_matches('↖')))).collect();
                got_up.sort();
                if got_up != want_up {
                    rep.violate("lsp-container-hint", "clean", format!("note {}: container hints {:?}, expected {:?}", k, got_up, want_up), replay.clone());
                }
            }
        }
        let _ = s.shutdown();
    }
    match r {
        Ok((diffs, events)) => {
            rep.count("events", events);
            rep.count("links_scanned", combos.len() as u64);
            for (c, d) in diffs.into_iter().take(3) {
                rep.violate(&c, &locus, d, replay.clone());
            }
        }
        Err(p) => rep.violate("panic", &format!("{}@{}", p.signature(), locus), p.message.clone(), replay.clone()),
    }
    if case < 2 {
        rep.sample = Some(json!({"keys": texts.keys().collect::<Vec<_>>(), "links": combos.len()}));
    }
    rep
}

// ------------------------------------------------------------------ C15

fn universe(depth: usize) -> Vec<String> {
    let names = ["a", "b", "a.b", "x y"];
    let mut all = vec![];
    let mut level: Vec<String> = names.iter().map(|s| s.to_string()).collect();
    all.extend(level.clone());
    for _ in 1..depth {
        let mut next = vec![];
        for p in &level {
            for n in names {
                next.push(format!("{}/{}", p, n));
            }
        }
        all.extend(next.clone());
        level = next;
    }
    all
}

/// completion items over the real LSP loop: what an item inserts must be a link that resolves, from the directory of the
/// note it is inserted into, to the note the item stands for (names with spaces, a note that shares its name with a
/// directory, the "generate" items whose command creates the new note)
fn c15_completion_session(rep: &mut CaseReport) {
    use crate::lsp::{Outcome, Server};
    let mut lib: BTreeMap<String, String> = BTreeMap::new();
    lib.insert("prompt-sum".into(), "# Summarize\n\nsummarize this\n".into());
    lib.insert("top".into(), "# Top\n".into());
    lib.insert("my note".into(), "# My\n".into());
    lib.insert("d".into(), "# Folder note\n".into());
    lib.insert("d/n".into(), "# N\n\ntext\n".into());
    lib.insert("d/other".into(), "# Other\n".into());
    lib.insert("d/e/deep".into(), "# Deep\n".into());
    lib.insert("d/e/sp ace".into(), "# Spaced\n".into());
    crate::lsp::reset_log();
    let mut s = Server::start_mem(&lib, "");
    for from in ["d/n", "d/e/deep", "top"] {
        let dir = mdscan::key_dir(from);
        let uri = s.uri(from);
        let Outcome::Result(v) = s.request("textDocument/completion", json!({"textDocument": {"uri": uri}, "position": {"line": 2, "character": 0}})) else { continue };
        for item in v["items"].as_array().cloned().unwrap_or_default() {
            let Some(ins) = item["insertText"].as_str() else { continue };
            rep.count("events", 1);
            rep.count("completion_items_checked", 1);
            let scan = mdscan::scan(&format!("{}\n", ins));
            let target = scan.links.first().and_then(|l| mdscan::resolve(&l.dest, &dir));
            // the note the item stands for: the new key of a generate command, else the note whose title is the label
            let want = item["command"]["arguments"][0]["new_key"].as_str().map(|x| x.to_string()).or_else(|| {
                let label = item["label"].as_str().unwrap_or("").to_string();
                // (the label is the title behind a symbol: "🔗 My")
                let shown = label.trim_start_matches(|c: char| !c.is_alphanumeric()).to_string();
                lib.iter().find(|(_, t)| t.lines().next().map(|l| l.trim_start_matches("# ") == shown).unwrap_or(false)).map(|(k, _)| k.clone())
            });
            if want.is_some() {
                rep.count("completion_links_resolved", 1);
            }
            if want.is_some() && target != want {
                rep.violate("completion-link-does-not-reach-its-note", "clean", format!("completion in {}: item `{}` inserts `{}`, which resolves from `{}` to {:?}; the item stands for {:?}", from, item["label"], ins, dir, target, want), json!({"library": lib, "from": from, "item": item}));
            }
        }
    }
    // go-to-definition on an upward link names the note by the same URI as every other answer (no ".." left in it)
    s.did_change("d/n", "# N\n\n[T](../top)\n\n[F](../d)\n");
    for (line, want) in [(2u64, "top"), (4u64, "d")] {
        let uri = s.uri("d/n");
        if let Outcome::Result(v) = s.request("textDocument/definition", json!({"textDocument": {"uri": uri}, "position": {"line": line, "character": 2}})) {
            rep.count("events", 1);
            let got = v["uri"].as_str().unwrap_or("").to_string();
            if got != s.uri(want) {
                rep.violate("definition-uri-not-canonical", "clean", format!("definition of the link on line {} of d/n answers {}, the note's URI is {}", line, got, s.uri(want)), json!({"library": lib}));
            }
        }
    }
    s.did_change("d/n", "# N\n\ntext\n");
    if rep.counters.get("completion_links_resolved").copied().unwrap_or(0) == 0 {
        rep.inconclusive.push("completion session: no link item could be matched to its note".into());
    }
    let _ = s.shutdown();
    // the same library on disk, listed by `iwe contents`: every link it prints is a destination that leads back to a note
    // (names with spaces included), and the tool's own files under .iwe are not listed as notes
    let bin = mon::verif_root().join("harness/target/repo/release/iwe");
    // (not under Miri, which cannot spawn processes)
    if bin.exists() && !cfg!(miri) {
        let dir = mon::scratch_dir("c15");
        for (k, t) in &lib {
            let p = dir.join(format!("{}.md", k));
            std::fs::create_dir_all(p.parent().unwrap()).unwrap();
            std::fs::write(p, t).unwrap();
        }
        std::fs::create_dir_all(dir.join(".iwe")).unwrap();
        std::fs::write(dir.join(".iwe/prompt.md"), "# Tool prompt\n\n## Quoted heading\n").unwrap();
        if let Ok(o) = std::process::Command::new(&bin).arg("contents").current_dir(&dir).output() {
            rep.count("events", 1);
            rep.count("cli_contents_runs", 1);
            let out = String::from_utf8_lossy(&o.stdout).to_string();
            let scan = mdscan::scan(&out);
            let listed: BTreeSet<String> = scan.links.iter().filter(|l| mdscan::is_internal(&l.dest)).filter_map(|l| mdscan::resolve(&l.dest, "")).collect();
            rep.count("cli_contents_links", listed.len() as u64);
            for l in &listed {
                if !lib.contains_key(l) {
                    rep.violate("contents-link-leads-nowhere", "clean", format!("`iwe contents` prints a link that resolves to `{}`, which is no note of the library", l), json!({"library": lib, "output": out}));
                    break;
                }
            }
            // what is not a link in the output although it was meant as one: a line "[title](destination)" that the parser
            // does not read as a link (a destination with a space written bare)
            let bare = out.lines().filter(|l| l.trim_start().starts_with('[') && l.contains("](")).count();
            if bare > scan.links.len() {
                rep.violate("written-url-not-a-destination", "clean", format!("`iwe contents` prints {} lines shaped like links, the parser reads {} links", bare, scan.links.len()), json!({"library": lib, "output": out}));
            }
            if out.contains("Tool prompt") || listed.iter().any(|k| k.starts_with(".iwe")) {
                rep.violate("tool-files-listed-as-notes", "clean", "`iwe contents` lists .iwe/prompt.md as a note".to_string(), json!({"output": out}));
            }
        }
        let _ = std::fs::remove_dir_all(&dir);
    }
}

fn c15(_tier: Tier, seed: u64, case: u64) -> CaseReport {
    let mut rep = CaseReport::new(case);
    if case == 0 {
        c15_completion_session(&mut rep);
    }
    let keys = universe(4);
    let mut dirs = vec![String::new()];
    dirs.extend(universe(3));
    // shard the key universe over 64 cases
    let shard: Vec<&String> = keys.iter().enumerate().filter(|(i, _)| (*i as u64) % 64 == case).map(|(_, k)| k).collect();
    let mut rng = Rng::for_case(seed, "c15", case);
    let r = mon::catch(|| {
        let mut out: Vec<(String, String)> = vec![];
        let mut events = 0u64;
        let mut nontrivial = vec![];
        for k in &shard {
            // the directory of a note, as every reader and writer of relative links uses it
            let kk: Key = k.as_str().into();
            if kk.parent() != mdscan::key_dir(k) && out.len() < 5 {
                out.push(("parent-directory".into(), format!("key `{}`: parent() = `{}`, directory is `{}`", k, kk.parent(), mdscan::key_dir(k))));
            }
            events += 1;
            for d in &dirs {
                events += 1;
                let key: Key = k.as_str().into();
                let url = key.to_rel_link_url(d);
                let back = Key::from_rel_link_url(&url, d).to_string();
                if url.contains("..") || url.contains('/') {
                    nontrivial.push(fnv(&format!("{}|{}", k, d)));
                }
                if back != **k && out.len() < 5 {
                    out.push(("write-then-resolve".into(), format!("key `{}` from dir `{}`: written `{}` resolves to `{}`", k, d, url, back)));
                }
                // what is written must be usable as a link destination: `[x]()` and `[[]]` are not links, and ".." names a
                // directory (a note that shares its name with the directory the link is written in must be spelled out)
                if (url.is_empty() || url == ".." || url.ends_with("/..")) && out.len() < 5 {
                    out.push(("written-url-not-a-destination".into(), format!("key `{}` from dir `{}`: iwe writes `{}`", k, d, url)));
                }
                // the url the harness would write must be equivalent
                let mine = mdscan::relativize(k, d);
                if mdscan::resolve(&url, d).as_deref() != Some(k.as_str()) && out.len() < 5 {
                    out.push(("written-url-not-equivalent".into(), format!("key `{}` dir `{}`: iwe wrote `{}` (harness would write `{}`)", k, d, url, mine)));
                }
                // decorated urls: resolve, then re-write from the same directory
                let decorated = [
                    mine.clone(),
                    format!("./{}", mine),
                    format!("{}.md", mine),
                    format!("zz/../{}", mine),
                    format!("./zz/.././{}.md", mine),
                ];
                let u = &decorated[rng.below(decorated.len())];
                let resolved = Key::from_rel_link_url(u, d);
                let expect = mdscan::resolve(u, d);
                events += 1;
                if Some(resolved.to_string()) != expect && out.len() < 5 {
                    out.push(("resolve-differs-from-model".into(), format!("url `{}` from dir `{}`: iwe `{}` model {:?}", u, d, resolved, expect)));
                }
                let rewritten = resolved.to_rel_link_url(d);
                if mdscan::resolve(&rewritten, d) != expect && out.len() < 5 {
                    out.push(("resolve-then-write".into(), format!("url `{}` dir `{}` -> key `{}` -> `{}` no longer equivalent", u, d, resolved, rewritten)));
                }
            }
        }
        (out, events, nontrivial)
    });
    match r {
        Ok((diffs, events, nontrivial)) => {
            rep.count("events", events);
            for h in nontrivial {
                rep.shape(h);
            }
            for (c, d) in diffs {
                rep.violate(&c, "clean", d, json!({"case": case}));
            }
        }
        Err(p) => rep.violate("panic", &format!("{}@clean", p.signature()), p.message.clone(), json!({"case": case})),
    }
    if case == 0 {
        rep.sample = Some(json!({"keys": keys.len(), "dirs": dirs.len(), "example": {"key": "a/x y/b", "dir": "a/b", "written": Key::from("a/x y/b").to_rel_link_url("a/b")}}));
    }
    rep
}

// ------------------------------------------------------------------ C17

/// independent expansion: multiset of (kind, text) blocks plus kept block references
fn expand(
    key: &str,
    depth: u32,
    scans: &BTreeMap<String, Scan>,
    out: &mut Vec<String>,
    budget: &mut i64,
) {
    let Some(scan) = scans.get(key) else { return };
    let dir = mdscan::key_dir(key);
    for a in &scan.atoms {
        *budget -= 1;
        if *budget < 0 {
            return;
        }
        let bref = a.links.first().map(|&l| &scan.links[l]).filter(|l| l.block_ref);
        if let Some(l) = bref {
            let target = mdscan::resolve(&l.dest, &dir).unwrap_or_default();
            if depth > 0 && scans.contains_key(&target) {
                expand(&target, depth - 1, scans, out, budget);
            } else {
                out.push(format!("ref->{}", target));
            }
            continue;
        }
        match &a.kind {
            AKind::Html => {}
            AKind::Code(_) => out.push(format!("code:{}", a.text.trim_matches('\n'))),
            k => {
                let w = oracle::masked_words(a, scan, &|l| mdscan::is_internal(&l.dest) && l.kind != LKind::Image);
                out.push(format!("{}:{}", match k { AKind::Heading(_) => "h".to_string(), other => other.name() }, w.join(" ")));
            }
        }
    }
}

fn atoms_of(text: &str, dir: &str) -> Vec<String> {
    let scan = mdscan::scan(text);
    let mut out = vec![];
    for a in &scan.atoms {
        let bref = a.links.first().map(|&l| &scan.links[l]).filter(|l| l.block_ref);
        if let Some(l) = bref {
            out.push(format!("ref->{}", mdscan::resolve(&l.dest, dir).unwrap_or_default()));
            continue;
        }
        match &a.kind {
            AKind::Html => {}
            AKind::Code(_) => out.push(format!("code:{}", a.text.trim_matches('\n'))),
            k => {
                let w = oracle::masked_words(a, &scan, &|l| mdscan::is_internal(&l.dest) && l.kind != LKind::Image);
                out.push(format!("{}:{}", match k { AKind::Heading(_) => "h".to_string(), other => other.name() }, w.join(" ")));
            }
        }
    }
    out
}

fn c17(tier: Tier, seed: u64, case: u64) -> CaseReport {
    let mut rep = CaseReport::new(case);
    let mut rng = Rng::for_case(seed, "c17", case);
    if case == tier.pick(2500, 60000) - 1 {
        // pinned reproducer: a chain of titled notes squashed 7 deep needs heading level 7
        let texts: BTreeMap<String, String> = (1..=8).map(|i| (format!("n{}", i), format!("# H{}\n\n[x](n{})\n", i, i + 1))).collect();
        let out = mon::catch(|| {
            let g = Graph::import(&state(&texts), MarkdownOptions::default());
            let squashed = (&g).squash(&"n1".into(), 7);
            let mut patch = Graph::new();
            patch.build_key_from_iter(&"n1".into(), TreeIter::new(&squashed));
            patch.export_key(&"n1".into()).unwrap_or_default()
        });
        rep.count("events", 1);
        rep.count("pinned_reproducers", 1);
        // a titled note that references itself, squashed as deep as the depth parameter goes: 256 nested sections
        let selfref: BTreeMap<String, String> = [("s".to_string(), "# Self\n\ntext\n\n[Self](s)\n".to_string())].into_iter().collect();
        let deep = mon::catch(|| {
            let g = Graph::import(&state(&selfref), MarkdownOptions::default());
            let squashed = (&g).squash(&"s".into(), 255);
            let mut patch = g.new_patch();
            patch.build_key_from_iter(&"s".into(), TreeIter::new(&squashed));
            patch.export_key(&"s".into()).unwrap_or_default()
        });
        rep.count("events", 1);
        match deep {
            Ok(out) => {
                let sc = mdscan::scan(&out);
                let heads = sc.atoms.iter().filter(|a| matches!(a.kind, AKind::Heading(_)) && a.text.trim() == "Self").count();
                if heads != 256 {
                    rep.violate("squash-heading-became-text", "pinned:self-reference-depth-255", format!("256 headings `Self` expected, {} found", heads), json!({"library": selfref, "key": "s", "depth": 255}));
                }
            }
            Err(p) => rep.violate("panic", &format!("{}@pinned:self-reference-depth-255", p.signature()), p.message.clone(), json!({"library": selfref, "key": "s", "depth": 255})),
        }
        if let Ok(out) = out {
            let heads = mdscan::scan(&out).atoms.iter().filter(|a| matches!(a.kind, AKind::Heading(_))).count();
            if heads != 8 {
                rep.violate("squash-heading-became-text", "pinned:heading-depth", format!("8 headings expected in the expansion, {} found; output:\n{}", heads, out), json!({"library": texts, "key": "n1", "depth": 7}));
            }
        }
        return rep;
    }
    // reference-graph library: notes are flat (level-1 headings only) so total heading depth stays <= 6
    let mode = rng.below(10);
    let n = rng.range(1, tier.pick(5, 7));
    let keys: Vec<String> = libgen::gen_keys(&mut rng, n, true);
    let mut words = crate::gen::Words::new("");
    let mut texts: BTreeMap<String, String> = BTreeMap::new();
    let headless = mode >= 7; // chains / self loops with big depth: no headings at all
    let mut edges = vec![];
    for (i, k) in keys.iter().enumerate() {
        let dir = mdscan::key_dir(k);
        let mut t = String::new();
        if !headless {
            t.push_str(&format!("# {}\n\n", words.next(&mut rng, false)));
        }
        let blocks = rng.range(1, 4);
        for b in 0..blocks {
            match rng.below(6) {
                0 | 1 => t.push_str(&format!("{} {}\n\n", words.next(&mut rng, false), words.next(&mut rng, false))),
                2 if !headless => t.push_str(&format!("# {}\n\n", words.next(&mut rng, false))),
                3 => t.push_str(&format!("- {}\n- {}\n\n{}\n\n", words.next(&mut rng, false), words.next(&mut rng, false), words.next(&mut rng, false))),
                5 if mode <= 1 && rng.chance(1, 2) => {
                    // a block reference inside a list item (a paragraph of its own under the item text) or inside a quote
                    if let Some(target) = keys.get(i + 1 + rng.below(2)).cloned() {
                        let rel = mdscan::relativize(&target, &dir);
                        if !rel.starts_with("..") {
                            let ti = keys.iter().position(|x| *x == target).map(|p| p as i64).unwrap_or(-1);
                            if rng.chance(1, 2) {
                                edges.push(format!("{}>item>{}", i, ti));
                                t.push_str(&format!("- {}\n\n  [{}]({})\n\n- {}\n\n", words.next(&mut rng, false), words.next(&mut rng, false), mdscan::dest(&rel), words.next(&mut rng, false)));
                            } else {
                                edges.push(format!("{}>quote>{}", i, ti));
                                t.push_str(&format!("> {}\n>\n> [{}]({})\n\n", words.next(&mut rng, false), words.next(&mut rng, false), mdscan::dest(&rel)));
                            }
                        }
                    }
                }
                _ => {
                    // a block reference: tree / DAG / cycle / self / dangling depending on mode
                    let target = match mode {
                        0 | 1 => keys.get(i + 1 + rng.below(2)).cloned(),            // forward only: DAG
                        2 | 3 => Some(rng.pick(&keys).clone()),                      // anything: cycles, self loops
                        4 => Some(format!("missing{}", b)),
                        7 => keys.get(i + 1).cloned(),                               // chain
                        8 => Some(k.clone()),                                        // self loop
                        _ => keys.get((i + 1) % keys.len()).cloned(),                // ring
                    };
                    if let Some(target) = target {
                        let rel = mdscan::relativize(&target, &dir);
                        if !rel.starts_with("..") {
                            edges.push(format!("{}>{}", i, keys.iter().position(|x| *x == target).map(|p| p as i64).unwrap_or(-1)));
                            t.push_str(&format!("[{}]({})\n\n", words.next(&mut rng, false), mdscan::dest(&rel)));
                        }
                    }
                }
            }
        }
        // existing notes without any block: empty, whitespace only, front matter only
        if i > 0 && rng.chance(1, 8) {
            t = (*rng.pick(&["", "\n", "   \n\n", "---\ntitle: meta only\n---\n"])).to_string();
        } else if t.is_empty() {
            t.push_str("x\n");
        }
        texts.insert(k.clone(), t);
    }
    let depth: u32 = if headless { *rng.pick(&[0u32, 1, 7, 64, 255]) } else { rng.below(6) as u32 };
    // with headings: keep total nesting <= 6 (finding 28: deeper headings are not representable)
    let key = rng.pick(&keys).clone();
    rep.shape(fnv(&format!("{:?}|{}|{}", edges, depth, mode)));
    let scans: BTreeMap<String, Scan> = texts.iter().map(|(k, v)| (k.clone(), mdscan::scan(v))).collect();
    let mut model = vec![];
    let mut budget: i64 = 50_000;
    expand(&key, depth, &scans, &mut model, &mut budget);
    if budget < 0 || model.len() > 1500 {
        // expansions beyond ~2000 sibling blocks overflow the stack in the recursive sibling walks
        // (known finding KF-sibling-recursion, judged under C03); C17 stays below that
        rep.count("skipped_model_too_big", 1);
        return rep;
    }
    let replay = json!({"library": texts, "key": key, "depth": depth});
    if std::env::var("VERIF_DUMP").is_ok() {
        eprintln!("{}", serde_json::to_string_pretty(&replay).unwrap());
    }
    let cpu0 = mon::thread_cpu_s();
    let r = mon::catch(|| {
        let g = Graph::import(&state(&texts), MarkdownOptions::default());
        let squashed = (&g).squash(&key.as_str().into(), depth as u8);
        // as `iwe squash` does: a patch of the library (its Markdown options and front matter)
        let mut patch = g.new_patch();
        patch.build_key_from_iter(&key.as_str().into(), TreeIter::new(&squashed));
        patch.export_key(&key.as_str().into()).unwrap_or_default()
    });
    let cpu = mon::thread_cpu_s() - cpu0;
    // ---- the same squash through the `iwe squash` binary (sample)
    if case % 8 == 0 {
        let bin = mon::verif_root().join("harness/target/repo/release/iwe");
        if let (true, Ok(lib_out)) = (bin.exists(), &r) {
            let dir = mon::scratch_dir("c17");
            for (k, t) in &texts {
                let p = dir.join(format!("{}.md", k));
                std::fs::create_dir_all(p.parent().unwrap()).unwrap();
                std::fs::write(p, t).unwrap();
            }
            if let Ok(o) = std::process::Command::new(&bin).arg("squash").arg("-k").arg(&key).arg("-d").arg(depth.min(255).to_string()).current_dir(&dir).output() {
                rep.count("cli_squash_runs", 1);
                let got = String::from_utf8_lossy(&o.stdout).to_string();
                if o.status.success() && got != *lib_out {
                    let l = crate::checks::norm::first_diff_line(lib_out, &got);
                    rep.violate("cli-squash-differs-from-library", "clean", format!("`iwe squash -k {} -d {}`: line {}: library {:?} vs binary {:?}", key, depth, l.0, l.1, l.2), replay.clone());
                } else if !o.status.success() {
                    rep.violate("cli-squash-failed", "clean", format!("`iwe squash -k {} -d {}` exited {}: {}", key, depth, o.status, String::from_utf8_lossy(&o.stderr).lines().last().unwrap_or("")), replay.clone());
                }
            }
            let _ = std::fs::remove_dir_all(&dir);
        }
    }
    match r {
        Ok(out) => {
            rep.count("events", 1);
            rep.count("model_blocks", model.len() as u64);
            let mut got = atoms_of(&out, &mdscan::key_dir(&key));
            // heading depth > 6 is a separate known finding: recognise "#######" paragraphs
            let too_deep = got.iter().any(|a| a.starts_with("p:#######"));
            if too_deep {
                // repaired in /repo (headings are clamped to level six): a "#######" paragraph is a violation again
                rep.violate("squash-heading-became-text", "clean", format!("key {} depth {}: the expansion holds a paragraph that starts with seven number signs", key, depth), replay.clone());
                return rep;
            }
            let mut want = model.clone();
            got.sort();
            want.sort();
            if got != want {
                let lost: Vec<&String> = want.iter().filter(|x| !got.contains(x)).take(5).collect();
                let extra: Vec<&String> = got.iter().filter(|x| !want.contains(x)).take(5).collect();
                let clause = if want.len() > got.len() { "squash-content-lost" } else if want.len() < got.len() { "squash-content-duplicated" } else { "squash-content-differs" };
                rep.violate(clause, "clean", format!("key {} depth {}: model {} blocks, result {} blocks; missing {:?} unexpected {:?}", key, depth, want.len(), got.len(), lost, extra), replay.clone());
            }
            // order among the blocks of the root note itself is preserved (non-reference ones)
            let budget_s = 0.5 + model.len() as f64 * 0.002;
            if cpu > budget_s {
                rep.violate("squash-cpu-budget", "clean", format!("cpu {:.2}s for {} model blocks (budget {:.2}s)", cpu, model.len(), budget_s), replay.clone());
            }
        }
        Err(p) => rep.violate("panic", &format!("{}@clean", p.signature()), p.message.clone(), replay.clone()),
    }
    if case < 2 {
        rep.sample = Some(replay);
    }
    rep
}

// ------------------------------------------------------------------ C18

struct Outline {
    /// heading text -> (note, parent heading text or "", level, line in formatted text)
    heads: Vec<(String, String, Option<usize>, usize)>, // (note key, text, parent index, line)
    /// block refs at top level: (note, holding heading index or None, target key)
    refs: Vec<(String, Option<usize>, String)>,
}

fn outline(formatted: &BTreeMap<String, String>) -> Outline {
    let mut heads: Vec<(String, String, Option<usize>, usize)> = vec![];
    let mut refs = vec![];
    for (k, t) in formatted {
        let scan = mdscan::scan(t);
        let dir = mdscan::key_dir(k);
        let mut stack: Vec<(u8, usize)> = vec![]; // (level, head index)
        let mut atom_head: HashMap<usize, usize> = HashMap::new();
        for (ai, a) in scan.atoms.iter().enumerate() {
            if !a.chain.is_empty() {
                continue;
            }
            if let AKind::Heading(l) = a.kind {
                while stack.last().map(|s| s.0 >= l).unwrap_or(false) {
                    stack.pop();
                }
                let parent = stack.last().map(|s| s.1);
                heads.push((k.clone(), norm(&a.text), parent, a.line));
                stack.push((l, heads.len() - 1));
                atom_head.insert(ai, heads.len() - 1);
                continue;
            }
            if let Some(&l0) = a.links.first() {
                let l = &scan.links[l0];
                if l.block_ref {
                    if let Some(target) = mdscan::resolve(&l.dest, &dir) {
                        let holder = a.heading.and_then(|h| atom_head.get(&h).cloned());
                        refs.push((k.clone(), holder, target));
                    }
                }
            }
        }
    }
    Outline { heads, refs }
}

/// outline library: heading trees + an acyclic block-reference graph (forward references, diamonds, document-level
/// references in included notes, dangling targets) + inline links that raise ranks
pub fn gen_outline_lib(rng: &mut Rng, n: usize, big: bool) -> (BTreeMap<String, String>, Vec<String>) {
    let mut rng = rng;
    let keys = libgen::gen_keys(&mut rng, n, true);
    let mut words = crate::gen::Words::new("");
    let mut texts: BTreeMap<String, String> = BTreeMap::new();
    let mut shape = vec![];
    let mut under_heading: BTreeSet<String> = BTreeSet::new();
    for (i, k) in keys.iter().enumerate() {
        let dir = mdscan::key_dir(k);
        let mut t = String::new();
        let hn = if big { rng.range(6, 14) } else { rng.range(0, 6) };
        if rng.chance(1, 5) {
            t.push_str(&format!("{}\n\n", words.next(&mut rng, false)));
        }
        // block references above the first heading (included "by the document itself"); only in notes
        // that are themselves included under a heading, otherwise the target's headings vanish
        // (open finding KF-doc-level-reference-hides-headings)
        if under_heading.contains(k) && rng.chance(1, 2) {
            for _ in 0..rng.range(1, 2) {
                if let Some(target) = keys.get(i + 1 + rng.below(3)).cloned() {
                    let rel = mdscan::relativize(&target, &dir);
                    shape.push(format!("d{}", target));
                    t.push_str(&format!("[{}]({})\n\n", words.next(&mut rng, false), mdscan::dest(&rel)));
                }
            }
        }
        let mut level = 1usize;
        for h in 0..hn {
            level = if h == 0 { 1 } else { rng.range(1, (level + 1).min(4)) };
            shape.push(level.to_string());
            let title = match rng.below(12) {
                0 => "dup title".to_string(),
                1 => format!("{} {}", words.next(&mut rng, false), words.next(&mut rng, false)),
                2 => format!("*{}* `{}`", words.next(&mut rng, false), words.next(&mut rng, false)),
                _ => words.next(&mut rng, false),
            };
            t.push_str(&format!("{} {}\n\n", "#".repeat(level), title));
            for _ in 0..rng.below(3) {
                match rng.below(6) {
                    0 => t.push_str(&format!("- {}\n  - {}\n\n", words.next(&mut rng, false), words.next(&mut rng, false))),
                    1 => t.push_str(&format!("> # {}\n>\n> {}\n\n", words.next(&mut rng, false), words.next(&mut rng, false))),
                    2 | 3 if !big || shape.iter().filter(|x| x.starts_with('r') || x.starts_with('d')).count() < 10 => {
                        // block reference forward (acyclic), sometimes dangling; big libraries hold at most ten: the number
                        // of paths doubles with every diamond (2^k paths for k stacked diamonds is what the listing means,
                        // not a defect, but it would turn the quick tier into minutes)
                        let target = if rng.chance(1, 8) { Some("missing1".to_string()) } else { keys.get(i + 1 + rng.below(3)).cloned() };
                        if let Some(target) = target {
                            let rel = mdscan::relativize(&target, &dir);
                            shape.push(format!("r{}", target));
                            under_heading.insert(target.clone());
                            t.push_str(&format!("[{}]({})\n\n", words.next(&mut rng, false), mdscan::dest(&rel)));
                        }
                    }
                    _ => {
                        // inline links raise the rank of the target (root-level sources only)
                        if dir.is_empty() && !keys.is_empty() {
                            let target = rng.pick(&keys).clone();
                            t.push_str(&format!("{} [{}]({})\n\n", words.next(&mut rng, false), words.next(&mut rng, false), mdscan::dest(&target)));
                        } else {
                            t.push_str(&format!("{}\n\n", words.next(&mut rng, false)));
                        }
                    }
                }
            }
        }
        if t.is_empty() {
            t.push_str(&format!("{}\n", words.next(&mut rng, false)));
        }
        texts.insert(k.clone(), t);
    }
    (texts, shape)
}

fn c18(tier: Tier, seed: u64, case: u64) -> CaseReport {
    let mut rep = CaseReport::new(case);
    let mut rng = Rng::for_case(seed, "c18", case);
    let last = tier.pick(1500, 40000) - 1;
    if case + 5 == last {
        // matches whose characters lie far apart (the initials of three long headings) score zero or less with the fuzzy
        // matcher: they still come before entries that do not match at all, and are not pushed out of the first hundred
        rep.count("events", 2);
        let mut st: HashMap<String, String> = HashMap::new();
        st.insert("kb".into(), "# Knowledge base of the platform engineering team\n\n## Management of incidents and the on-call rotation\n\n### Zettelkasten\n".into());
        st.insert("cooking".into(), "# Cooking\n".into());
        st.insert("travel".into(), "# Travel\n".into());
        let small = Database::new(st.clone(), false, MarkdownOptions::default());
        let first = small.global_search("kmz").first().map(|p| p.search_text.clone()).unwrap_or_default();
        if !first.contains("Zettelkasten") {
            rep.violate("search-match-after-non-match", "clean", format!("query `kmz`: the only matching path (… Zettelkasten) is not first; first is `{}`", first), json!({"library": st}));
        }
        for i in 0..120 {
            st.insert(format!("r{}", i), format!("# Recipe {:03}\n", i));
        }
        let big = Database::new(st, false, MarkdownOptions::default());
        if !big.global_search("kmz").iter().any(|p| p.search_text.contains("Zettelkasten")) {
            rep.violate("search-match-after-non-match", "clean", "query `kmz` with 120 non-matching notes: the only matching path is not among the results".into(), json!({"library": "kb + cooking + travel + 120 recipes"}));
        }
        return rep;
    }
    if case + 4 == last || case + 3 == last {
        // pinned reproducers at the LSP boundary (open findings): document symbols of a note with two top-level sections;
        // the empty query on a library whose most referenced note starts with a paragraph
        use crate::lsp::{Outcome, Server};
        rep.count("events", 1);
        rep.count("pinned_reproducers", 1);
        crate::lsp::reset_log();
        if case + 4 == last {
            let lib: BTreeMap<String, String> = [("a".to_string(), "# A\n\n## A1\n\n# B\n\n## B1\n".to_string())].into_iter().collect();
            let mut s = Server::start_mem(&lib, "");
            let uri = s.uri("a");
            if let Outcome::Result(v) = s.request("textDocument/documentSymbol", json!({"textDocument": {"uri": uri}})) {
                let names: Vec<String> = v.as_array().cloned().unwrap_or_default().iter().map(|x| norm(x["name"].as_str().unwrap_or(""))).collect();
                if !names.iter().any(|n| n.ends_with("B1")) {
                    rep.violate("heading-missing-from-document-symbols", "pinned:document-symbols-second-section", format!("note `# A / ## A1 / # B / ## B1`: document symbols {:?} do not list B1", names), json!({"library": lib}));
                }
            }
            let _ = s.shutdown();
        } else {
            let mut lib: BTreeMap<String, String> = BTreeMap::new();
            lib.insert("popular".into(), "An introduction before the title.\n\n# Popular\n".into());
            lib.insert("other".into(), "# Other\n".into());
            for i in 1..=3 {
                lib.insert(format!("x{}", i), format!("# X{}\n\nsee [p](popular){}\n", i, if i == 1 { " and [o](other)" } else { "" }));
            }
            let mut s = Server::start_mem(&lib, "");
            if let Outcome::Result(v) = s.request("workspace/symbol", json!({"query": ""})) {
                let names: Vec<String> = v.as_array().cloned().unwrap_or_default().iter().map(|x| norm(x["name"].as_str().unwrap_or(""))).collect();
                if names.first().map(|n| n.as_str()) != Some("Popular") {
                    rep.violate("most-referenced-note-not-first", "pinned:rank-title-after-intro", format!("three notes link to `popular`, one to `other`; the empty query lists {:?}", names), json!({"library": lib}));
                }
            }
            let _ = s.shutdown();
        }
        return rep;
    }
    if case + 2 >= last {
        // pinned reproducers: a note that block-references itself / two notes referencing each other /
        // a note included only from above the first heading of an unreferenced note
        let (id, texts): (&str, BTreeMap<String, String>) = if case == last {
            ("self-reference", [("n1".to_string(), "# Alone\n\n[x](n1)\n\n## Sub\n".to_string())].into_iter().collect())
        } else if case + 1 == last {
            ("reference-cycle", [("n1".to_string(), "# One\n\n[x](n2)\n".to_string()), ("n2".to_string(), "# Two\n\n[y](n1)\n".to_string())].into_iter().collect())
        } else {
            ("doc-level-reference", [("n1".to_string(), "[x](n2)\n\n# One\n".to_string()), ("n2".to_string(), "# Two\n".to_string())].into_iter().collect())
        };
        rep.count("events", 1);
        rep.count("pinned_reproducers", 1);
        if let Ok(paths) = mon::catch(|| {
            let g = Graph::import(&state(&texts), MarkdownOptions::default());
            let mut ends: Vec<u64> = g.paths().iter().map(|p| p.target()).collect();
            ends.sort();
            ends.dedup();
            ends.len()
        }) {
            let heads: usize = texts.values().map(|t| mdscan::scan(t).atoms.iter().filter(|a| matches!(a.kind, AKind::Heading(_))).count()).sum();
            if paths < heads {
                rep.violate("heading-missing-from-paths", &format!("pinned:{}", id), format!("{} headings in the library, {} paths listed", heads, paths), json!({"library": texts}));
            }
        }
        return rep;
    }
    let big = rng.chance(1, 25);
    let n = if big { rng.range(8, 14) } else { rng.range(1, tier.pick(5, 8)) };
    let (texts, shape) = gen_outline_lib(&mut rng, n, big);
    rep.shape(fnv(&shape.join(",")));
    // "current headings": half of the cases reach the final texts through edits of an earlier version that had other
    // headings and other block references (also cyclic ones, and references that made a note look included)
    let mut prior: BTreeMap<String, String> = texts.clone();
    let mut edited: Vec<String> = vec![];
    if rng.chance(1, 2) {
        let keys: Vec<String> = texts.keys().cloned().collect();
        for k in &keys {
            if !rng.chance(1, 2) {
                continue;
            }
            let dir = mdscan::key_dir(k);
            let mut t = match rng.below(3) {
                0 => format!("# old title of {}\n\n## old sub\n\n", k.replace('/', " ")),
                1 => String::new(),
                _ => format!("{}\n", texts[k]),
            };
            for _ in 0..rng.range(1, if big { 1 } else { 3 }) {
                let target = rng.pick(&keys).clone();
                t.push_str(&format!("[old ref]({})\n\n", mdscan::dest(&mdscan::relativize(&target, &dir))));
            }
            prior.insert(k.clone(), t);
            edited.push(k.clone());
        }
        rng.shuffle(&mut edited);
        rep.count("edited_notes", edited.len() as u64);
    }
    let replay = json!({"library": texts, "prior_versions": edited.iter().map(|k| (k.clone(), prior[k].clone())).collect::<BTreeMap<String, String>>(), "edit_order": edited});
    let r = mon::catch(|| {
        let mut db = Database::new(state(&prior), false, MarkdownOptions::default());
        for k in &edited {
            db.update_document(k.as_str().into(), texts[k].clone());
        }
        let g = db.graph();
        let formatted: BTreeMap<String, String> = g.export().into_iter().collect();
        let paths: Vec<(String, Vec<String>, usize)> = g
            .paths()
            .iter()
            .map(|p| (g.key_of(p.target()).to_string(), p.ids().iter().map(|id| norm(&g.get_text(*id))).collect(), p.ids().len()))
            .collect();
        let mut searches = vec![];
        let mut qs = vec!["".to_string(), "alpha".to_string(), "dup".to_string(), "zzzqqq".to_string(), "λό".to_string()];
        if let Some(p) = paths.first() {
            if let Some(t) = p.1.last() {
                qs.push(t.clone());
                qs.push(t.chars().step_by(2).collect());
            }
        }
        for q in qs {
            let res: Vec<(String, String, u32, usize)> = db
                .global_search(&q)
                .iter()
                .map(|p| (p.key.to_string(), p.search_text.clone(), p.line, p.node_rank))
                .collect();
            searches.push((q, res));
        }
        let all_search: Vec<(String, String, u32, usize)> = g
            .search_paths()
            .iter()
            .map(|p| (p.key.to_string(), p.search_text.clone(), p.line, p.node_rank))
            .collect();
        (formatted, paths, searches, all_search)
    });
    let (formatted, paths, searches, all_search) = match r {
        Ok(x) => x,
        Err(p) => {
            rep.violate("panic", &format!("{}@clean", p.signature()), p.message.clone(), replay);
            return rep;
        }
    };
    // ---- the same listing through workspace/symbol and the `iwe paths` binary (sample)
    if case % 6 == 0 {
        crate::lsp::reset_log();
        let mut s = crate::lsp::Server::start_mem(&texts, "");
        if let crate::lsp::Outcome::Result(v) = s.request("workspace/symbol", json!({"query": ""})) {
            rep.count("lsp_symbol_requests", 1);
            let got: Vec<(String, String, u64)> = v.as_array().cloned().unwrap_or_default().iter().map(|x| (x["name"].as_str().unwrap_or("").to_string(), x["location"]["uri"].as_str().and_then(|u| s.key_of_uri(u)).unwrap_or_default(), x["location"]["range"]["start"]["line"].as_u64().unwrap_or(u64::MAX))).collect();
            let want: Vec<(String, String, u64)> = searches[0].1.iter().map(|r| {
                // the symbol name is the chain joined by a bullet; recover the chain from the path list
                let chain = paths.iter().find(|p| p.0 == r.0 && p.1.join(" ") == norm(&r.1)).map(|p| p.1.join(" • ")).unwrap_or_else(|| r.1.clone());
                (chain, r.0.clone(), r.2 as u64)
            }).filter(|x| !x.0.is_empty()).collect();
            let g2: Vec<(String, String, u64)> = got.iter().map(|x| (norm(&x.0), x.1.clone(), x.2)).collect();
            let w2: Vec<(String, String, u64)> = want.iter().map(|x| (norm(&x.0), x.1.clone(), x.2)).collect();
            if g2 != w2 {
                let i = g2.iter().zip(w2.iter()).position(|(a, b)| a != b).unwrap_or(g2.len().min(w2.len()));
                rep.violate("lsp-workspace-symbols-differ", "clean", format!("entry {}: symbol {:?} vs search result {:?} ({} vs {} entries)", i, g2.get(i), w2.get(i), g2.len(), w2.len()), replay.clone());
            }
        }
        // document symbols: every entry names a real heading - the uri is the note that holds the heading, the line is
        // the heading's line there, the last element of the name is its text
        for k in texts.keys().take(3) {
            let uri = s.uri(k);
            if let crate::lsp::Outcome::Result(v) = s.request("textDocument/documentSymbol", json!({"textDocument": {"uri": uri}})) {
                rep.count("lsp_document_symbol_requests", 1);
                for sym in v.as_array().cloned().unwrap_or_default() {
                    let name = sym["name"].as_str().unwrap_or("").to_string();
                    let last = norm(name.rsplit(" • ").next().unwrap_or(""));
                    let key = sym["location"]["uri"].as_str().and_then(|u| s.key_of_uri(u)).unwrap_or_default();
                    let line = sym["location"]["range"]["start"]["line"].as_u64().unwrap_or(u64::MAX) as usize;
                    // (line numbers refer to the text the server holds, which is `texts`)
                    let ok = texts.get(&key).map(|t| {
                        let sc = mdscan::scan(t);
                        sc.atoms.iter().any(|a| matches!(a.kind, AKind::Heading(_)) && a.line == line && norm(&a.text) == last)
                    }).unwrap_or(false);
                    if !ok {
                        rep.violate("document-symbol-not-a-real-heading", "clean", format!("documentSymbol({}) lists `{}` at {} line {}: no heading `{}` there", k, name, key, line, last), replay.clone());
                        break;
                    }
                }
            }
        }
        let _ = s.shutdown();
        let bin = mon::verif_root().join("harness/target/repo/release/iwe");
        if bin.exists() {
            let dir = mon::scratch_dir("c18");
            for (k, t) in &texts {
                let p = dir.join(format!("{}.md", k));
                std::fs::create_dir_all(p.parent().unwrap()).unwrap();
                std::fs::write(p, t).unwrap();
            }
            if let Ok(o) = std::process::Command::new(&bin).arg("paths").current_dir(&dir).output() {
                rep.count("cli_paths_runs", 1);
                let got: Vec<String> = String::from_utf8_lossy(&o.stdout).lines().map(|l| norm(l)).collect();
                let mut want: Vec<String> = paths.iter().filter(|p| p.2 <= 4).map(|p| norm(&p.1.join(" • "))).collect();
                want.sort();
                want.dedup();
                let mut g = got.clone();
                g.sort();
                if g != want {
                    let miss: Vec<&String> = want.iter().filter(|w| !g.contains(w)).take(3).collect();
                    let extra: Vec<&String> = g.iter().filter(|w| !want.contains(w)).take(3).collect();
                    rep.violate("cli-paths-differ", "clean", format!("`iwe paths` prints {} lines, the library lists {}; missing {:?} unexpected {:?}", g.len(), want.len(), miss, extra), replay.clone());
                }
            }
            let _ = std::fs::remove_dir_all(&dir);
        }
    }
    let o = outline(&formatted);
    rep.count("events", 1 + searches.len() as u64);
    rep.count("headings", o.heads.len() as u64);
    rep.count("paths", paths.len() as u64);
    // which notes are block-referenced by an existing note
    let referenced: BTreeSet<&String> = o.refs.iter().map(|r| &r.2).collect();
    // model edge check helpers
    let head_index = |note: &str, text: &str| -> Vec<usize> {
        o.heads.iter().enumerate().filter(|(_, h)| h.0 == note && h.1 == text).map(|(i, _)| i).collect()
    };
    // ---- soundness: every path is a chain of model edges ending in `key`
    // predecessors of a heading: its parent heading, or (for a top-level heading) the holders of
    // block references to its note, transparently through notes referenced outside any section
    let preds = |cur: usize| -> Vec<usize> {
        let mut nexts: Vec<usize> = vec![];
        if let Some(p) = o.heads[cur].2 {
            nexts.push(p);
        } else {
            let mut notes = vec![o.heads[cur].0.clone()];
            let mut seen = BTreeSet::new();
            while let Some(nk) = notes.pop() {
                if !seen.insert(nk.clone()) {
                    continue;
                }
                for r in o.refs.iter().filter(|r| r.2 == nk) {
                    match r.1 {
                        Some(h) => nexts.push(h),
                        None => notes.push(r.0.clone()),
                    }
                }
            }
        }
        nexts
    };
    fn chain_ok(cur: usize, i: usize, names: &[String], heads: &[(String, String, Option<usize>, usize)], referenced: &BTreeSet<&String>, preds: &dyn Fn(usize) -> Vec<usize>, fuel: &mut i64) -> bool {
        *fuel -= 1;
        if *fuel < 0 {
            return true; // search budget exhausted: do not judge
        }
        if i == 0 {
            return heads[cur].2.is_none() && !referenced.contains(&heads[cur].0);
        }
        preds(cur)
            .into_iter()
            .filter(|&h| heads[h].1 == names[i - 1])
            .any(|h| chain_ok(h, i - 1, names, heads, referenced, preds, fuel))
    }
    for (key, names, _) in &paths {
        let last = names.last().cloned().unwrap_or_default();
        let mut fuel: i64 = 20_000;
        let ok = head_index(key, &last)
            .into_iter()
            .any(|h| chain_ok(h, names.len() - 1, names, &o.heads, &referenced, &preds, &mut fuel));
        if !ok {
            rep.violate("path-not-a-real-chain", "clean", format!("path {:?} ending in note {} is not a chain of heading/sub-heading/included-note steps", names, key), replay.clone());
            break;
        }
    }
    // ---- completeness: every heading outside lists and quotes ends at least one path
    for h in &o.heads {
        let found = paths.iter().any(|(k, names, _)| *k == h.0 && names.last() == Some(&h.1));
        if !found && !h.1.is_empty() {
            // reachable per the model? a heading is listed iff its root ancestor chain reaches an unreferenced note
            rep.violate("heading-missing-from-paths", "clean", format!("heading `{}` of note {} ends no listed path", h.1, h.0), replay.clone());
            break;
        }
    }
    // ---- search: <= 100, documented order
    for (q, res) in &searches {
        if res.len() > 100 {
            rep.violate("search-more-than-100", "clean", format!("query `{}` returned {}", q, res.len()), replay.clone());
        }
        let mut expect: Vec<(i64, &(String, String, u32, usize))> = all_search
            .iter()
            // a fresh matcher per entry: a reused SkimMatcherV2 scores the same pair differently depending on its history;
            // an entry that does not match comes after every entry that does (a real match can score zero or less)
            .map(|p| (SkimMatcherV2::default().fuzzy_match(&p.1, q).unwrap_or(i64::MIN), p))
            .collect();
        if q.is_empty() {
            expect.sort_by(|a, b| b.1 .3.cmp(&a.1 .3).then(a.1 .1.len().cmp(&b.1 .1.len())).then(a.1 .1.cmp(&b.1 .1)).then(a.1 .0.cmp(&b.1 .0)).then(a.1 .2.cmp(&b.1 .2)));
        } else {
            expect.sort_by(|a, b| b.0.cmp(&a.0).then(a.1 .1.len().cmp(&b.1 .1.len())).then(b.1 .3.cmp(&a.1 .3)).then(a.1 .1.cmp(&b.1 .1)).then(a.1 .0.cmp(&b.1 .0)).then(a.1 .2.cmp(&b.1 .2)));
        }
        let expect: Vec<&(String, String, u32, usize)> = expect.into_iter().map(|x| x.1).take(100).collect();
        let got: Vec<&(String, String, u32, usize)> = res.iter().collect();
        if expect != got {
            let i = expect.iter().zip(got.iter()).position(|(a, b)| a != b).unwrap_or(expect.len().min(got.len()));
            rep.violate("search-order", "clean", format!("query `{}`: position {} expected {:?} got {:?} ({} vs {} results)", q, i, expect.get(i), got.get(i), expect.len(), got.len()), replay.clone());
        }
    }
    // ---- ranks: empty query lists the most referenced notes first; rank of a primary heading = inline + block references to its note
    let (eb, ei, _) = expected_backlinks(&texts);
    for p in &all_search {
        let is_primary = o.heads.iter().any(|h| h.0 == p.0 && h.2.is_none() && h.3 == p.2 as usize
            && formatted[&h.0].lines().position(|l| !l.trim().is_empty() && !l.starts_with("---")) == Some(h.3));
        let _ = is_primary;
    }
    // rank check on single-element paths whose heading is the first block of the note
    for (k, t) in &formatted {
        let scan = mdscan::scan(t);
        if let Some(title) = mdscan::title_of(&scan) {
            let want = eb.get(k).map(|s| s.len()).unwrap_or(0) + ei.get(k).map(|s| s.len()).unwrap_or(0);
            for p in all_search.iter().filter(|p| p.0 == *k && norm(&p.1).ends_with(&norm(&title)) && p.2 as usize == scan.atoms[0].line) {
                if p.3 != want {
                    rep.violate("rank-not-reference-count", "clean", format!("note {} title `{}`: rank {} but {} references", k, title, p.3, want), replay.clone());
                }
            }
        }
        // only the note's first block, when it is a heading, carries the note's rank: every other heading ranks 0
        let primary_line = scan.atoms.first().filter(|a| matches!(a.kind, AKind::Heading(_)) && a.chain.is_empty()).map(|a| a.line);
        for p in all_search.iter().filter(|p| p.0 == *k && Some(p.2 as usize) != primary_line) {
            if p.3 != 0 {
                rep.violate("rank-on-secondary-heading", "clean", format!("note {}: entry `{}` at line {} is not the note's first block but has rank {}", k, p.1, p.2, p.3), replay.clone());
                break;
            }
        }
    }
    if case < 2 {
        rep.sample = Some(json!({"notes": texts.len(), "headings": o.heads.len(), "paths": paths.iter().take(5).map(|p| p.1.join(" > ")).collect::<Vec<_>>() }));
    }
    rep
}
