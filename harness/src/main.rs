use vharness::checks;
use vharness::mon::{self, Tier};

fn seed() -> u64 {
    std::env::var("VERIF_SEED")
        .ok()
        .and_then(|s| s.parse::<u64>().ok())
        .unwrap_or(1)
}

fn main() {
    let args: Vec<String> = std::env::args().collect();
    let cmd = args.get(1).map(|s| s.as_str()).unwrap_or("");
    match cmd {
        "run" => {
            let id = args.get(2).expect("property id");
            let tier = Tier::parse(args.get(3).map(|s| s.as_str()).unwrap_or("quick"));
            let check = checks::find(id).unwrap_or_else(|| {
                eprintln!("unknown check {}", id);
                std::process::exit(3)
            });
            std::process::exit(mon::run_check(check.as_ref(), tier, seed()));
        }
        "worker" => {
            let id = args.get(2).expect("property id");
            let tier = Tier::parse(args.get(3).map(|s| s.as_str()).unwrap_or("quick"));
            let seed: u64 = args.get(4).and_then(|s| s.parse().ok()).unwrap_or(1);
            let check = checks::find(id).expect("check");
            mon::worker_main(check.as_ref(), tier, seed);
        }
        "debug" => checks::debug(&args[2..]),
        "dump" => checks::det16::dump_main(&args[2..]),
        "crash" => checks::crash03::crash_main(&args[2..]),
        _ => {
            eprintln!("usage: vcheck run <Cxx> quick|thorough | worker <Cxx> <tier> <seed> | debug ...");
            std::process::exit(3);
        }
    }
}
