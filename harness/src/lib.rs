pub mod checks;
pub mod gen;
pub mod libgen;
pub mod mdscan;
pub mod mon;
pub mod oracle;
pub mod rng;
