//! Handlers installed into the guarded hooks of /repo (feature verif-hooks).

use crate::walker;
use std::sync::atomic::{AtomicBool, AtomicU64, Ordering};
use std::sync::Mutex;

static GRAPH_HOOK_ON: AtomicBool = AtomicBool::new(false);
static GRAPHS_SEEN: AtomicU64 = AtomicU64::new(0);
static GRAPH_VIOLATIONS: Mutex<Vec<(String, String)>> = Mutex::new(Vec::new());
static GRAPH_HOOK_MAX_NODES: AtomicU64 = AtomicU64::new(50_000);

/// H2: walk every graph handed over at a quiescent point
pub fn install_graph_hook() {
    if GRAPH_HOOK_ON.swap(true, Ordering::SeqCst) {
        return;
    }
    liwe::graph::verif::set_hook(Box::new(|graph, op| {
        if !GRAPH_HOOK_ON.load(Ordering::SeqCst) {
            return;
        }
        if graph.nodes().len() as u64 > GRAPH_HOOK_MAX_NODES.load(Ordering::SeqCst) {
            return;
        }
        GRAPHS_SEEN.fetch_add(1, Ordering::SeqCst);
        let w = walker::walk(graph);
        if !w.violations.is_empty() {
            let mut g = GRAPH_VIOLATIONS.lock().unwrap();
            for (c, d) in w.violations {
                if g.len() < 50 {
                    g.push((c, format!("[H2 {}] {}", op, d)));
                }
            }
        }
    }));
}

pub fn graph_hook_reset() {
    GRAPHS_SEEN.store(0, Ordering::SeqCst);
    GRAPH_VIOLATIONS.lock().unwrap().clear();
}

pub fn graph_hook_take() -> (u64, Vec<(String, String)>) {
    (
        GRAPHS_SEEN.swap(0, Ordering::SeqCst),
        std::mem::take(&mut *GRAPH_VIOLATIONS.lock().unwrap()),
    )
}
